/-
Byte-string helpers shared by the property models (STUN, SASL, hashes, ...).
Core Lean only: this file is linked into the driver executables.

`Bytes` is `List UInt8`: convenient for proofs; the hash compression functions convert to
arrays of machine words internally.
-/
namespace Qx

abbrev Bytes := List UInt8

namespace Bytes

/-- big-endian, exactly 2 bytes (the value is reduced mod 2^16) -/
def putU16 (n : Nat) : Bytes :=
  [UInt8.ofNat (n / 256), UInt8.ofNat n]

/-- big-endian, exactly 4 bytes (the value is reduced mod 2^32) -/
def putU32 (n : Nat) : Bytes :=
  [UInt8.ofNat (n / 16777216), UInt8.ofNat (n / 65536), UInt8.ofNat (n / 256), UInt8.ofNat n]

/-- big-endian, exactly 8 bytes (the value is reduced mod 2^64) -/
def putU64 (n : Nat) : Bytes :=
  putU32 (n / 4294967296) ++ putU32 n

/-- little-endian, exactly 4 bytes -/
def putU32le (n : Nat) : Bytes :=
  [UInt8.ofNat n, UInt8.ofNat (n / 256), UInt8.ofNat (n / 65536), UInt8.ofNat (n / 16777216)]

/-- little-endian, exactly 8 bytes -/
def putU64le (n : Nat) : Bytes :=
  putU32le n ++ putU32le (n / 4294967296)

/-- read a big-endian 16-bit value from the front; `none` when fewer than 2 bytes remain -/
def getU16 : Bytes → Option (Nat × Bytes)
  | a :: b :: rest => some (a.toNat * 256 + b.toNat, rest)
  | _ => none

/-- read a big-endian 32-bit value from the front; `none` when fewer than 4 bytes remain -/
def getU32 : Bytes → Option (Nat × Bytes)
  | a :: b :: c :: d :: rest =>
    some (a.toNat * 16777216 + b.toNat * 65536 + c.toNat * 256 + d.toNat, rest)
  | _ => none

/-- read a big-endian 64-bit value from the front -/
def getU64 : Bytes → Option (Nat × Bytes)
  | a :: b :: c :: d :: e :: f :: g :: h :: rest =>
    some (((a.toNat * 16777216 + b.toNat * 65536 + c.toNat * 256 + d.toNat) * 4294967296)
          + (e.toNat * 16777216 + f.toNat * 65536 + g.toNat * 256 + h.toNat), rest)
  | _ => none

/-- one byte from the front -/
def getU8 : Bytes → Option (Nat × Bytes)
  | a :: rest => some (a.toNat, rest)
  | [] => none

/-- split off exactly `n` bytes; `none` when fewer remain -/
def takeExact (n : Nat) (bs : Bytes) : Option (Bytes × Bytes) :=
  if n ≤ bs.length then some (bs.take n, bs.drop n) else none

/-- big-endian value of a whole byte string (most significant first) -/
def toNatBE (bs : Bytes) : Nat :=
  bs.foldl (fun acc b => acc * 256 + b.toNat) 0

/-- byte-wise xor; the result has the length of the shorter argument -/
def xorBytes : Bytes → Bytes → Bytes
  | a :: as, b :: bs => (a ^^^ b) :: xorBytes as bs
  | _, _ => []

/-- number of padding bytes needed to bring `n` to a multiple of 4 (STUN, RFC 5389 §15) -/
def pad4 (n : Nat) : Nat := (4 - n % 4) % 4

/-- `n` zero bytes -/
def zeros (n : Nat) : Bytes := List.replicate n 0

/-- UTF-8 bytes of a Lean string -/
def strBytes (s : String) : Bytes := s.toUTF8.toList

/-- inverse of `strBytes` on valid UTF-8 -/
def bytesStr? (bs : Bytes) : Option String := String.fromUTF8? (ByteArray.mk bs.toArray)

/-- bytes below 0x80 only, as a string (used for base64 / hex text) -/
def asciiStr (bs : Bytes) : String := String.ofList (bs.map fun b => Char.ofNat b.toNat)

/-- code units of an ASCII/Latin-1 string, one byte per character (characters ≥ 256 are truncated) -/
def latin1Bytes (s : String) : Bytes := s.toList.map fun c => UInt8.ofNat c.toNat

private def hexDigit (n : Nat) : Char :=
  if n < 10 then Char.ofNat (48 + n) else Char.ofNat (87 + n)

/-- lower-case hex (same output as `Qx.Driver.toHex`; repeated here so that models do not import the driver) -/
def toHex (bs : Bytes) : String :=
  String.ofList (bs.flatMap fun b => [hexDigit (b.toNat / 16), hexDigit (b.toNat % 16)])

/-- lower-case hex as ASCII bytes (e.g. DIGEST-MD5 `HEX(...)`) -/
def toHexBytes (bs : Bytes) : Bytes :=
  bs.flatMap fun b => [UInt8.ofNat (hexDigit (b.toNat / 16)).toNat, UInt8.ofNat (hexDigit (b.toNat % 16)).toNat]

end Bytes

end Qx
