/-
JID splitting exactly as `QXmppUtils::jidToBareJid / jidToResource / jidToDomain / jidToUser`
(/repo/src/base/QXmppUtils.cpp):

  jidToBareJid(jid)  = jid.left(indexOf('/'))            (whole jid when there is no '/')
  jidToResource(jid) = jid.mid(indexOf('/') + 1)          (empty when there is no '/')
  jidToUser(jid)     = jid.left(indexOf('@'))             (empty when there is no '@';
                                                          NOTE: the first '@' of the WHOLE jid, so an '@'
                                                          inside the resource of a domain-only jid counts:
                                                          jidToUser("a.b/x@y") = "a.b/x")
  jidToDomain(jid)   = jidToBareJid(jid).split('@').last() (text after the LAST '@' of the bare jid,
                                                          the whole bare jid when there is no '@')

No normalisation, no validation: these are pure string cuts.  QString is UTF-16 while Lean strings are
sequences of scalar values; '/' and '@' are single code units in both, so the cuts agree.
Core Lean only.
-/
namespace Qx.Jid

/-- text before the first `sep` (everything when there is none): `s.left(s.indexOf(sep))` -/
def before (sep : Char) : List Char → List Char
  | [] => []
  | c :: cs => if c = sep then [] else c :: before sep cs

/-- text after the first `sep` (empty when there is none): `s.mid(s.indexOf(sep) + 1)` -/
def after (sep : Char) : List Char → List Char
  | [] => []
  | c :: cs => if c = sep then cs else after sep cs

/-- text before the first `/` (everything when there is none) -/
def bareL (j : List Char) : List Char := before '/' j

/-- text after the first `/` (empty when there is none) -/
def resourceL (j : List Char) : List Char := after '/' j

/-- text before the first `@` of the whole jid; empty when there is no `@` -/
def userL (j : List Char) : List Char :=
  if '@' ∈ j then before '@' j else []

/-- text after the last `@` (everything when there is none): `QString::split('@').last()` -/
def afterLastAt (j : List Char) : List Char := (before '@' j.reverse).reverse

/-- text after the last `@` of the bare jid -/
def domainL (j : List Char) : List Char := afterLastAt (bareL j)

/-- `QXmppUtils::jidToBareJid` -/
def bare (jid : String) : String := String.ofList (bareL jid.toList)
/-- `QXmppUtils::jidToResource` -/
def resource (jid : String) : String := String.ofList (resourceL jid.toList)
/-- `QXmppUtils::jidToUser` -/
def user (jid : String) : String := String.ofList (userL jid.toList)
/-- `QXmppUtils::jidToDomain` -/
def domain (jid : String) : String := String.ofList (domainL jid.toList)

/-- the jid has a resource separator -/
def hasSlash (jid : String) : Bool := jid.toList.contains '/'

/-! ### basic facts (used by C11 / C12 / C16) -/

theorem before_no_sep (sep : Char) (j : List Char) : sep ∉ before sep j := by
  induction j with
  | nil => simp [before]
  | cons c cs ih =>
    by_cases hc : c = sep
    · simp [before, hc]
    · simp only [before, hc, if_false, List.mem_cons, not_or]
      exact ⟨fun e => hc e.symm, ih⟩

theorem before_sublist (sep : Char) (j : List Char) : (before sep j).Sublist j := by
  induction j with
  | nil => simp [before]
  | cons c cs ih =>
    by_cases hc : c = sep
    · simp [before, hc]
    · simp only [before, hc, if_false]
      exact ih.cons_cons c

theorem before_of_not_mem {sep : Char} {j : List Char} (h : sep ∉ j) : before sep j = j := by
  induction j with
  | nil => rfl
  | cons c cs ih =>
    have hc : c ≠ sep := fun e => h (by simp [e])
    have hcs : sep ∉ cs := fun e => h (List.mem_cons_of_mem _ e)
    simp [before, hc, ih hcs]

theorem after_of_not_mem {sep : Char} {j : List Char} (h : sep ∉ j) : after sep j = [] := by
  induction j with
  | nil => rfl
  | cons c cs ih =>
    have hc : c ≠ sep := fun e => h (by simp [e])
    have hcs : sep ∉ cs := fun e => h (List.mem_cons_of_mem _ e)
    simp [after, hc, ih hcs]

/-- a string containing `sep` is exactly before ++ sep ++ after -/
theorem before_sep_after {sep : Char} {j : List Char} (h : sep ∈ j) :
    before sep j ++ sep :: after sep j = j := by
  induction j with
  | nil => simp at h
  | cons c cs ih =>
    by_cases hc : c = sep
    · simp [before, after, hc]
    · have hmem : sep ∈ cs := by
        rcases List.mem_cons.mp h with h1 | h1
        · exact absurd h1.symm hc
        · exact h1
      simp [before, after, hc, ih hmem]

theorem before_append {sep : Char} {b r : List Char} (hb : sep ∉ b) :
    before sep (b ++ sep :: r) = b := by
  induction b with
  | nil => simp [before]
  | cons c cs ih =>
    have hc : c ≠ sep := fun e => hb (by simp [e])
    have hcs : sep ∉ cs := fun e => hb (List.mem_cons_of_mem _ e)
    simp [before, hc, ih hcs]

theorem after_append {sep : Char} {b r : List Char} (hb : sep ∉ b) :
    after sep (b ++ sep :: r) = r := by
  induction b with
  | nil => simp [after]
  | cons c cs ih =>
    have hc : c ≠ sep := fun e => hb (by simp [e])
    have hcs : sep ∉ cs := fun e => hb (List.mem_cons_of_mem _ e)
    simp [after, hc, ih hcs]

/-- a bare jid contains no `/` -/
theorem bareL_no_slash (j : List Char) : '/' ∉ bareL j := before_no_sep '/' j

theorem bareL_of_no_slash {j : List Char} (h : '/' ∉ j) : bareL j = j := before_of_not_mem h

/-- taking the bare jid twice changes nothing -/
theorem bareL_idem (j : List Char) : bareL (bareL j) = bareL j :=
  bareL_of_no_slash (bareL_no_slash j)

theorem resourceL_of_no_slash {j : List Char} (h : '/' ∉ j) : resourceL j = [] := after_of_not_mem h

/-- a jid containing `/` is exactly bare ++ "/" ++ resource -/
theorem bare_slash_resource {j : List Char} (h : '/' ∈ j) :
    bareL j ++ '/' :: resourceL j = j := before_sep_after h

/-- a full jid built from a bare jid (no `/`) and a resource splits back into its parts -/
theorem bareL_append {b r : List Char} (hb : '/' ∉ b) : bareL (b ++ '/' :: r) = b := before_append hb

theorem resourceL_append {b r : List Char} (hb : '/' ∉ b) : resourceL (b ++ '/' :: r) = r :=
  after_append hb

theorem afterLastAt_no_at (j : List Char) : '@' ∉ afterLastAt j := by
  intro h
  exact before_no_sep '@' j.reverse (List.mem_reverse.mp h)

/-- the domain never contains `@` nor `/` -/
theorem domainL_clean (j : List Char) : '@' ∉ domainL j ∧ '/' ∉ domainL j := by
  refine ⟨afterLastAt_no_at _, ?_⟩
  intro h
  have h2 : '/' ∈ (bareL j).reverse := (before_sublist '@' _).mem (List.mem_reverse.mp h)
  exact bareL_no_slash j (List.mem_reverse.mp h2)

/-- user@domain/resource with a clean user and domain splits into exactly these parts -/
theorem split_full {u d r : List Char} (hu : '@' ∉ u ∧ '/' ∉ u) (hd : '@' ∉ d ∧ '/' ∉ d) :
    let j := u ++ '@' :: (d ++ '/' :: r)
    userL j = u ∧ domainL j = d ∧ resourceL j = r ∧ bareL j = u ++ '@' :: d := by
  intro j
  have hbare : bareL j = u ++ '@' :: d := by
    have : j = (u ++ '@' :: d) ++ '/' :: r := by simp [j]
    rw [this]
    apply bareL_append
    simp [hu.2, hd.2]
  refine ⟨?_, ?_, ?_, hbare⟩
  · have hm : '@' ∈ j := by simp [j]
    simp only [userL, hm, if_true]
    exact before_append hu.1
  · simp only [domainL, hbare, afterLastAt]
    have : (u ++ '@' :: d).reverse = d.reverse ++ '@' :: u.reverse := by simp
    rw [this, before_append (by simpa using hd.1)]
    simp
  · have : j = (u ++ '@' :: d) ++ '/' :: r := by simp [j]
    rw [this]
    apply resourceL_append
    simp [hu.2, hd.2]

end Qx.Jid
