/-
UTF-8: encoder, strict decoder, Qt-5.15-style lossy decoder, stateful chunk decoder.
Core Lean only (linked into the drivers).  Code points are `Nat`.

## The Qt 5.15 rule (validated against the real Qt 5.15.8 with /verif/.build/qtprobe/probe.cpp)

`QString::fromUtf8(const char*, int)` = `QUtf8::convertToUnicode` without state:

* at each position, if a complete well-formed sequence starts there it is decoded and skipped:
    00..7F | C2..DF c | E0..EF c c | F0..F4 c c c        (c = continuation byte 80..BF)
  and the decoded value must not be over-long (≥ 0x80 / 0x800 / 0x10000), not a surrogate
  (D800..DFFF) and ≤ 0x10FFFF.  Non-characters (U+FFFE, U+FFFF, U+FDD0..) are accepted.
* otherwise exactly ONE U+FFFD is produced for that one byte and decoding resumes at the NEXT
  byte.  So an invalid or truncated sequence yields one U+FFFD for its lead byte and one more
  U+FFFD for each of its continuation bytes (they are invalid as lead bytes):
      E2 82 41 → FFFD FFFD 'A'      E2 82 <end> → FFFD FFFD      ED A0 80 → FFFD FFFD FFFD
      C0 80 → FFFD FFFD             F4 90 80 80 → FFFD×4         E2 E2 82 AC → FFFD U+20AC
  This is `decodeLossy`.
* Two extra quirks of the `QString::fromUtf8(const QByteArray&)` overload that qxmpp calls
  (`XmppSocket`: `processData(QString::fromUtf8(m_socket->readAll()))`), modelled by `qtFromUtf8`:
    1. the array is cut at the first NUL byte (`qstrnlen`):      41 00 42 → 'A'
    2. a BOM (EF BB BF) at offset 0 of the call is dropped:       EF BB BF 41 → 'A'
       (only at offset 0 and only once: 41 EF BB BF 41 → 'A' U+FEFF 'A').
* QString holds UTF-16; code points above U+FFFF become surrogate pairs (`utf16Units`).

## The stateful decoder

`Dec.feed` / `Dec.flush` is the *ideal* incremental decoder: it holds back a trailing proper prefix
of a possibly valid sequence (lead byte + continuation bytes, at most 3 bytes) and decodes it together with
the next chunk; `flush` turns what is still held into one U+FFFD per byte.  By construction
  (outputs of feeding chunks) ++ flush = decodeLossy (concatenation of the chunks)
for every input.  On well-formed UTF-8 this is what Qt's `QTextDecoder` produces.  On MALFORMED input
the real Qt 5.15 `QTextDecoder` is itself not chunk independent (probe: chunks ED|A0|80 give 2×FFFD, the
one-shot call gives 3×FFFD; when the held bytes plus the new chunk turn out invalid Qt emits a single U+FFFD
for all held bytes), and it drops a BOM at the first successfully decoded character of a chunk start
(80|EF BB BF 41 → FFFD 'A').  qxmpp does not use QTextDecoder, so these quirks are not modelled.
-/
import Qx.Base.Bytes

namespace Qx.Utf8

/-- U+FFFD REPLACEMENT CHARACTER -/
def replacement : Nat := 0xFFFD

/-- a Unicode scalar value: below 0x110000 and not a surrogate -/
def isScalar (c : Nat) : Bool := c < 0xD800 || (0xE000 ≤ c && c < 0x110000)

/-- continuation byte 80..BF -/
def isCont (b : UInt8) : Bool := 0x80 ≤ b.toNat && b.toNat < 0xC0

/-- UTF-8 bytes of one code point; anything that is not a scalar value is encoded as U+FFFD -/
def encodeCp (c : Nat) : Bytes :=
  if c < 0x80 then [UInt8.ofNat c]
  else if c < 0x800 then [UInt8.ofNat (0xC0 + c / 64), UInt8.ofNat (0x80 + c % 64)]
  else if 0xD800 ≤ c ∧ c < 0xE000 then [0xEF, 0xBF, 0xBD]
  else if c < 0x10000 then
    [UInt8.ofNat (0xE0 + c / 4096), UInt8.ofNat (0x80 + c / 64 % 64), UInt8.ofNat (0x80 + c % 64)]
  else if c < 0x110000 then
    [UInt8.ofNat (0xF0 + c / 262144), UInt8.ofNat (0x80 + c / 4096 % 64),
     UInt8.ofNat (0x80 + c / 64 % 64), UInt8.ofNat (0x80 + c % 64)]
  else [0xEF, 0xBF, 0xBD]

/-- UTF-8 encoding of a sequence of code points -/
def encode (cs : List Nat) : Bytes := cs.flatMap encodeCp

/-- what the decoder sees at a position: lead byte `b` followed by `rest` -/
inductive Look where
  /-- a complete well-formed sequence: code point and number of continuation bytes it used (0..3) -/
  | cp (c : Nat) (k : Nat)
  /-- `b` cannot start a well-formed sequence here, whatever follows `rest` -/
  | bad
  /-- `b` and ALL of `rest` (fewer bytes than needed, all continuation bytes) form a proper prefix of
      a possibly well-formed sequence: more input is needed to decide -/
  | more
  deriving Repr, DecidableEq

/-- payload bits of a continuation byte -/
def low6 (b : UInt8) : Nat := b.toNat % 64

/-- Classify the sequence starting with lead byte `b` followed by `rest`.
Mirrors `QUtf8Functions::fromUtf8<QUtf8BaseTraits>`: `cp` = decoded, `bad` = Error, `more` = EndOfString. -/
def look (b : UInt8) (rest : Bytes) : Look :=
  let n := b.toNat
  if n < 0x80 then .cp n 0
  else if n < 0xC2 then .bad                       -- continuation byte or over-long lead C0/C1
  else if n < 0xE0 then
    match rest with
    | [] => .more
    | b1 :: _ => if isCont b1 then .cp ((n % 32) * 64 + low6 b1) 1 else .bad
  else if n < 0xF0 then
    match rest with
    | [] => .more
    | [b1] => if isCont b1 then .more else .bad
    | b1 :: b2 :: _ =>
      if isCont b1 && isCont b2 then
        let c := (n % 16) * 4096 + low6 b1 * 64 + low6 b2
        if c < 0x800 || (0xD800 ≤ c && c < 0xE000) then .bad else .cp c 2
      else .bad
  else if n < 0xF5 then
    match rest with
    | [] => .more
    | [b1] => if isCont b1 then .more else .bad
    | [b1, b2] => if isCont b1 && isCont b2 then .more else .bad
    | b1 :: b2 :: b3 :: _ =>
      if isCont b1 && isCont b2 && isCont b3 then
        let c := (n % 8) * 262144 + low6 b1 * 4096 + low6 b2 * 64 + low6 b3
        if c < 0x10000 || 0x110000 ≤ c then .bad else .cp c 3
      else .bad
  else .bad                                        -- F5..FF

/-- worker of `decodeLossy`: `skip` bytes are still to be skipped (they were consumed by the last sequence) -/
def lossyGo : Nat → Bytes → List Nat
  | _, [] => []
  | skip + 1, _ :: rest => lossyGo skip rest
  | 0, b :: rest =>
    match look b rest with
    | .cp c k => c :: lossyGo k rest
    | .bad => replacement :: lossyGo 0 rest
    | .more => replacement :: lossyGo 0 rest

/-- Qt 5.15 lossy decoding rule (see the header): every byte that does not belong to a complete well-formed
sequence becomes one U+FFFD. -/
def decodeLossy (bs : Bytes) : List Nat := lossyGo 0 bs

/-- worker of `decode?` -/
def strictGo : Nat → Bytes → Option (List Nat)
  | _, [] => some []
  | skip + 1, _ :: rest => strictGo skip rest
  | 0, b :: rest =>
    match look b rest with
    | .cp c k => (strictGo k rest).map (c :: ·)
    | .bad => none
    | .more => none

/-- strict decoder: `none` unless the whole input is well-formed UTF-8 (RFC 3629: no over-long forms,
no surrogates, nothing above U+10FFFF, no truncated sequence) -/
def decode? (bs : Bytes) : Option (List Nat) := strictGo 0 bs

/-- the input is well-formed UTF-8 -/
def isValid (bs : Bytes) : Bool := (decode? bs).isSome

/-- cut at the first NUL byte (`qstrnlen`) -/
def cutAtNul : Bytes → Bytes
  | [] => []
  | b :: rest => if b = 0 then [] else b :: cutAtNul rest

/-- drop one BOM at offset 0 -/
def stripBom : Bytes → Bytes
  | 0xEF :: 0xBB :: 0xBF :: rest => rest
  | bs => bs

/-- `QString::fromUtf8(const QByteArray &)` of Qt 5.15 as code points: cut at the first NUL, drop a leading BOM,
then `decodeLossy`.  This is what `XmppSocket` applies to every socket read. -/
def qtFromUtf8 (bs : Bytes) : List Nat := decodeLossy (stripBom (cutAtNul bs))

/-- UTF-16 code units of a code point sequence (QString's internal form; used where the C++ compares or
sorts QStrings).  Values that are not scalar values are passed through unchanged if < 0x10000. -/
def utf16Units (cs : List Nat) : List Nat :=
  cs.flatMap fun c =>
    if c < 0x10000 then [c]
    else if c < 0x110000 then [0xD800 + (c - 0x10000) / 1024, 0xDC00 + (c - 0x10000) % 1024]
    else [replacement]

/-- code points of a Lean string -/
def ofString (s : String) : List Nat := s.toList.map Char.toNat

/-- Lean string of code points (non-scalar values become U+FFFD) -/
def toString (cs : List Nat) : String :=
  String.ofList (cs.map fun c => if isScalar c then Char.ofNat c else Char.ofNat replacement)

/-! ### stateful chunk decoder -/

/-- decoder state: the held-back bytes (a lead byte and fewer continuation bytes than it needs; ≤ 3 bytes) -/
structure DecSt where
  pending : Bytes := []
  deriving Repr, DecidableEq

namespace Dec

def init : DecSt := {}

/-- decode as far as the input decides; returns (code points, held-back tail).
Identical to `lossyGo` except that a `more` verdict stops and keeps the remaining bytes. -/
def run : Nat → Bytes → List Nat × Bytes
  | _, [] => ([], [])
  | skip + 1, _ :: rest => run skip rest
  | 0, b :: rest =>
    match look b rest with
    | .cp c k => let r := run k rest; (c :: r.1, r.2)
    | .bad => let r := run 0 rest; (replacement :: r.1, r.2)
    | .more => ([], b :: rest)

/-- feed one chunk: decode `pending ++ chunk`, hold back an undecided tail -/
def feed (st : DecSt) (chunk : Bytes) : DecSt × List Nat :=
  let r := run 0 (st.pending ++ chunk)
  ({ pending := r.2 }, r.1)

/-- end of input: every held-back byte becomes one U+FFFD (= `decodeLossy st.pending`) -/
def flush (st : DecSt) : List Nat := st.pending.map fun _ => replacement

/-- feed a list of chunks, collecting the outputs -/
def feedAll : DecSt → List Bytes → DecSt × List Nat
  | st, [] => (st, [])
  | st, c :: cs =>
    let r := feed st c
    let r2 := feedAll r.1 cs
    (r2.1, r.2 ++ r2.2)

/-- whole stateful run: all chunks then flush (to be compared with `decodeLossy chunks.flatten`) -/
def decodeChunks (chunks : List Bytes) : List Nat :=
  let r := feedAll init chunks
  r.2 ++ flush r.1

end Dec

/-- what the current code does: each chunk decoded on its own with `qtFromUtf8` -/
def decodePerChunk (chunks : List Bytes) : List Nat := chunks.flatMap qtFromUtf8

end Qx.Utf8
