import Qx.Driver.Proto
import Qx.Model.C13Task
import Qx.Proofs.C13
import Qx.Props.C13
