import Qx.Driver.Proto
