#!/usr/bin/env python3
"""usage: add_finding.py <Cxx> <key> <what>   — appends an open finding to known_findings.json (under a lock)."""
import fcntl, json, os, sys
ROOT = os.path.dirname(os.path.dirname(os.path.abspath(__file__)))
pid, key, what = sys.argv[1], sys.argv[2], sys.argv[3]
os.makedirs(os.path.join(ROOT, ".build", "locks"), exist_ok=True)
with open(os.path.join(ROOT, ".build", "locks", "findings"), "w") as lk:
    fcntl.flock(lk, fcntl.LOCK_EX)
    p = os.path.join(ROOT, "known_findings.json")
    j = json.load(open(p))
    j["findings"] = [f for f in j["findings"] if not (f["property"] == pid and f["key"] == key)]
    j["findings"].append({"property": pid, "key": key, "what": what})
    j["findings"].sort(key=lambda f: (f["property"], f["key"]))
    tmp = p + ".tmp%d" % os.getpid()
    with open(tmp, "w") as fh:
        json.dump(j, fh, indent=1)
    os.replace(tmp, p)   # atomic: readers never see a partial file
print("recorded", pid, key)
