#!/bin/sh
# usage: tools/rerun_seeds.sh [name ...]  — re-runs the property's quick check against every kept seeded change (or the named ones)
# and rewrites check_result in seeded/<name>/meta.json (the first result is kept as first_check_result).
cd "$(dirname "$0")/.."
NAMES="$@"; [ -z "$NAMES" ] && NAMES=$(ls seeded | grep '^C[0-9]')
for N in $NAMES; do
  [ -f seeded/$N/patch.diff ] || continue
  P=${N%%_*}
  grep -q '"obsolete": true' seeded/$N/meta.json && { echo "$N | obsolete (code it changes was replaced by a fix), skipped"; continue; }
  M=$(MR_SLOT=${MR_SLOT:-r0} tools/mutant_run.sh seeded/$N/patch.diff $P 2>&1 | grep '^MUTANT' | head -1)
  echo "$N | $M"
  python3 - "$N" "$M" <<'PY'
import json, sys
n, m = sys.argv[1], sys.argv[2]
p = "seeded/%s/meta.json" % n
j = json.load(open(p))
j.setdefault("first_check_result", j.get("check_result", ""))
j["check_result"] = m
missed = json.load(open("seeded/initially_missed.json"))
if n in missed:
    j["caught_note"] = "initially MISSED; check strengthened: " + missed[n]
json.dump(j, open(p, "w"), indent=1)
PY
done
