#!/usr/bin/env python3
"""prints the prompt for a seeding sub-agent: tools/seed_prompt.py Cxx <tag>"""
import json, sys
pid, tag = sys.argv[1], sys.argv[2]
p = [json.loads(l) for l in open('/verif/properties.jsonl') if json.loads(l)['id'] == pid][0]
print(f"""You are a careful C++ engineer doing mutation seeding for a verification study of the qxmpp library (Qt 5.15 / C++20 XMPP library). Work ONLY in your own scratch area; do NOT read or touch anything under /verif (it contains the checkers you must stay independent of), and do NOT modify /repo itself.

THE PROPERTY (id {pid}): {p['title']}
Statement: {p['statement']}
Scope (what it quantifies over): {p['quantifier']['text']}
Relevant source files (relative to the repository root): {', '.join(p['anchors']['files'])}

YOUR TASK: produce TWO different, realistic changes ("seeded bugs") to the qxmpp source, each of which BREAKS this property while the library still COMPILES and the existing test suite still PASSES. They must be the kind of change a developer could plausibly make by mistake or in a well-meant refactoring (off-by-one, dropped or weakened check, reordered steps, wrong variable, swapped branch, state not reset, comparison loosened, early return, …) — NOT sabotage guarded by magic values. Prefer changes that need something SPECIFIC to manifest (a particular interleaving or ordering, a fault at a particular point, a multi-step sequence of operations, an unusual but legal input, or two cooperating sites that each look fine alone) rather than ones ordinary use would expose at once. The two changes must differ in mechanism (different functions or different kinds of mistake), and each must be small (a few lines).

SETUP:
  git -C /repo worktree add --detach /var/tmp/seed_{pid}_{tag} HEAD        # your private worktree (repository root = that directory)
  cd /var/tmp/seed_{pid}_{tag} && cmake -G Ninja -B _build -DCMAKE_BUILD_TYPE=RelWithDebInfo -DCMAKE_CXX_FLAGS=-Wno-error -DBUILD_TESTS=ON -DBUILD_INTERNAL_TESTS=ON -DBUILD_EXAMPLES=OFF . && cmake --build _build -j8
  (cd _build && QT_QPA_PLATFORM=offscreen ctest -j4 --timeout 300 -E "tst_qxmppiceconnection|tst_qxmppserver")     # these two are excluded: known failing/flaky in this sandbox. All others must pass with your change.
The sandbox has no network. Build takes 1–3 minutes; incremental rebuilds are fast.

FOR EACH of the two changes deliver a directory /var/tmp/seed_out/{pid}_{tag}1 and /var/tmp/seed_out/{pid}_{tag}2 containing:
  - patch.diff : `git diff` of the change (source files under src/ only; no test changes), applying cleanly to /repo's HEAD with `git apply`.
  - demo.cpp   : a standalone demonstration program (own main(); may use QCoreApplication; may include public AND private headers from src/base, src/client, src/server and tests/ (e.g. tests/TestClient.h, tests/util.h); links libQXmppQt5 + Qt5 Core/Network/Xml/Test) that exercises the property through the library and EXITS 0 when the property holds and NON-ZERO (printing what went wrong) when it is violated. It must pass (exit 0) on the UNCHANGED tree and fail with your change. It will be compiled by someone else with:
        g++ -std=c++20 -O1 -g -fPIC $(pkg-config --cflags Qt5Core Qt5Network Qt5Xml Qt5Test) -I<repo>/src/base -I<repo>/src/client -I<repo>/src/server -I<repo>/tests -I<build>/src demo.cpp -o demo -L<build>/src -lQXmppQt5 $(pkg-config --libs Qt5Core Qt5Network Qt5Xml Qt5Test) -Wl,-rpath,<build>/src
    (if demo.cpp contains Q_OBJECT, `moc demo.cpp -o demo.moc` is run first and you must `#include "demo.moc"` at the end). Keep it deterministic and under ~20 s.
  - meta.json  : {{"property": "{pid}", "summary": "<one line: what was changed>", "needs": "<what specific input / sequence / interleaving is needed for the violation to manifest>", "files": ["src/..."], "why_tests_pass": "<why the existing suite does not notice>"}}
VERIFY YOURSELF before delivering, for each change: (1) with the change applied the library and ALL tests build, and the ctest command above passes; (2) demo passes on the clean tree and fails on the changed tree. Restore your worktree to clean between the two changes (`git checkout -- .`).
WHEN DONE: remove your worktree and its build output: `git -C /repo worktree remove --force /var/tmp/seed_{pid}_{tag}`. Leave only /var/tmp/seed_out/{pid}_{tag}1 and …2.
Final message: for each change, the summary, what it needs to manifest, and the exact verification commands you ran with their results. If you could only produce one valid change, deliver one and say why.""")
