#!/usr/bin/env python3
"""Regenerates the generated blocks of DESIGN.md (between <!-- BEGIN GENERATED:x --> / <!-- END GENERATED:x -->) from
known_findings.json, evidence/*.json, seeded/*/meta.json and /repo's git log."""
import glob, json, os, re, subprocess
ROOT = os.path.dirname(os.path.dirname(os.path.abspath(__file__)))
kf = json.load(open(os.path.join(ROOT, "known_findings.json")))
log = subprocess.run(["git", "-C", "/repo", "log", "--format=%h %s"], capture_output=True, text=True).stdout.strip().split("\n")
fixes = [l for l in log if " fix:" in l]

def esc(s):
    return s.replace("|", "\\|").replace("\n", " ")

# ---- fix commits, grouped with the keys they closed
by_commit = {}
for f in kf["fixed"]:
    by_commit.setdefault(f["commit"][:7], []).append(f)
out_fix = ["| commit | what was wrong (subject of the `fix:` commit) | property | oracle keys that reproduced it |", "|---|---|---|---|"]
for l in reversed(fixes):
    h, _, subj = l.partition(" ")
    ents = by_commit.get(h[:7], [])
    props = sorted({e["property"] for e in ents}) or ["—"]
    keys = ", ".join("`%s`" % e["key"] for e in ents[:4]) + (" … (%d keys)" % len(ents) if len(ents) > 4 else "")
    out_fix.append("| %s | %s | %s | %s |" % (h, esc(subj[5:]), ", ".join(props), keys or "(found while building the harness; see commit message)"))
# ---- open findings
out_open = ["| property | key | what fails (concrete input) |", "|---|---|---|"]
for f in kf["findings"]:
    out_open.append("| %s | `%s` | %s |" % (f["property"], f["key"], esc(f["what"])[:700]))
# ---- evidence
out_ev = ["| id | theorems (discharged/total) | correspondence lines | oracle evaluations passed | known findings reproduced | wall s (tier of the last run) |", "|---|---|---|---|---|---|"]
for p in sorted(glob.glob(os.path.join(ROOT, "evidence", "C*.json"))):
    e = json.load(open(p)); c = e["coverage"]
    out_ev.append("| %s | %s/%s | %s | %s | %s | %s (%s) |" % (e["property_id"], c.get("discharged"), c.get("obligations"), c.get("evaluations"),
                  c.get("oracle_pass", "—"), len(c.get("known_findings_reproduced", [])), e["wall_s"], e["tier"]))
# ---- seeded
out_seed = ["| seeded change | property | what was changed | needs | result of the property's check (quick tier) |", "|---|---|---|---|---|"]
for p in sorted(glob.glob(os.path.join(ROOT, "seeded", "*", "meta.json"))):
    m = json.load(open(p)); name = os.path.basename(os.path.dirname(p))
    r = m.get("check_result", "")
    res = "not run"
    if m.get("obsolete"):
        r = ""
        res = "obsolete on the current tree (was caught on the tree it was made for; see note)"
    if "VIOLATION" in r:
        res = "caught: VIOLATION" + (" (no-failing-input-found)" if "no-failing-input-found" in r else " with failing input")
    elif "no-violation" in r:
        res = "MISSED"
    extra = m.get("caught_note", "")
    out_seed.append("| %s | %s | %s | %s | %s%s |" % (name, m.get("property"), esc(m.get("summary", ""))[:260], esc(m.get("needs", ""))[:260], res, (" — " + esc(extra)) if extra else ""))
# ---- as-built parts
out_ab = []
for i in range(1, 21):
    pid = "C%02d" % i
    fp = os.path.join(ROOT, "design_parts", pid + ".md")
    body = open(fp).read().strip() if os.path.exists(fp) else "(no as-built part written)"
    out_ab.append("#### %s\n\n%s\n" % (pid, body))
# ---- seed statistics per round
missed = json.load(open(os.path.join(ROOT, "seeded", "initially_missed.json")))
stats = {}
for pth in sorted(glob.glob(os.path.join(ROOT, "seeded", "*", "meta.json"))):
    m = json.load(open(pth)); name = os.path.basename(os.path.dirname(pth))
    rnd = name.split("_")[1][0]
    st = stats.setdefault(rnd, {"n": 0, "input": 0, "nfi": 0, "missed": 0, "obsolete": 0, "first_missed": 0, "first_nfi": 0})
    st["n"] += 1
    r = m.get("check_result", "")
    if m.get("obsolete"):
        st["obsolete"] += 1
    elif "VIOLATION" in r and "no-failing-input-found" in r:
        st["nfi"] += 1
    elif "VIOLATION" in r:
        st["input"] += 1
    else:
        st["missed"] += 1
    if name in missed:
        if missed[name].startswith("was caught only") or "only as a correspondence break" in missed[name][:80]:
            st["first_nfi"] += 1
        else:
            st["first_missed"] += 1
out_ss = ["| round | seeds kept | caught with a failing input | caught, no failing input found | missed | obsolete after a later fix | missed at first, then strengthened | caught only as a correspondence break at first |", "|---|---|---|---|---|---|---|---|"]
tot = {k: 0 for k in ("n", "input", "nfi", "missed", "obsolete", "first_missed", "first_nfi")}
for rnd in sorted(stats):
    st = stats[rnd]
    for k in tot: tot[k] += st[k]
    out_ss.append("| %s | %d | %d | %d | %d | %d | %d | %d |" % (rnd, st["n"], st["input"], st["nfi"], st["missed"], st["obsolete"], st["first_missed"], st["first_nfi"]))
out_ss.append("| all | %d | %d | %d | %d | %d | %d | %d |" % (tot["n"], tot["input"], tot["nfi"], tot["missed"], tot["obsolete"], tot["first_missed"], tot["first_nfi"]))
blocks = {"seedstats": out_ss, "asbuilt": out_ab, "fixes": out_fix, "open": out_open, "evidence": out_ev, "seeded": out_seed}
p = os.path.join(ROOT, "DESIGN.md")
s = open(p).read()
for k, lines in blocks.items():
    b, e = "<!-- BEGIN GENERATED:%s -->" % k, "<!-- END GENERATED:%s -->" % k
    if b in s:
        s = s[:s.index(b) + len(b)] + "\n" + "\n".join(lines) + "\n" + s[s.index(e):]
open(p, "w").write(s)
print("fix commits:", len(fixes), "open findings:", len(kf["findings"]), "seeded:", len(out_seed) - 2)
