#!/usr/bin/env python3
"""Extract every well-formed XML element that appears as a string literal in /repo/tests/*/tst_*.cpp
(and tests/*.h) into /verif/corpus/test_xml.txt, followed by a hand-written seed list for classes the
test-suite has no document for.

Output format, one document per line:   <id>\t<xml>
  <id>  = <test file stem>#<n>  (n-th kept literal of that file) or seed#<n>
  <xml> = the element, with  backslash -> \\\\ , LF -> \\n , CR -> \\r , TAB -> \\t   (nothing else escaped)
Deterministic: files sorted by name, literals in source order, duplicates (by exact text) dropped, first wins.

usage: extract_corpus.py [--repo /repo] [--out /verif/corpus/test_xml.txt] [--check]
  --check : regenerate in memory and compare with the committed file; exit 1 when they differ.
"""
import glob, os, re, sys
import xml.dom.minidom

ROOT = os.path.dirname(os.path.dirname(os.path.abspath(__file__)))

# ------------------------------------------------------------------------------------------- C++ string literals
_SIMPLE_ESC = {"n": "\n", "t": "\t", "r": "\r", "0": "\0", "\\": "\\", '"': '"', "'": "'", "a": "\a", "b": "\b",
               "f": "\f", "v": "\v", "?": "?"}
_PREFIX = re.compile(r"(u8|u|U|L)?(R)?\"")


def _unescape(body):
    out, i, n = [], 0, len(body)
    while i < n:
        c = body[i]
        if c != "\\":
            out.append(c); i += 1; continue
        i += 1
        if i >= n:
            break
        e = body[i]
        if e in _SIMPLE_ESC:
            out.append(_SIMPLE_ESC[e]); i += 1
        elif e == "x":
            j = i + 1
            while j < n and body[j] in "0123456789abcdefABCDEF":
                j += 1
            out.append(chr(int(body[i + 1:j] or "0", 16) & 0x10FFFF)); i = j
        elif e in "01234567":
            j = i
            while j < n and j < i + 3 and body[j] in "01234567":
                j += 1
            out.append(chr(int(body[i:j], 8))); i = j
        elif e == "u" or e == "U":
            k = 4 if e == "u" else 8
            try:
                out.append(chr(int(body[i + 1:i + 1 + k], 16)))
            except ValueError:
                pass
            i += 1 + k
        elif e == "\n":
            i += 1  # line continuation
        else:
            out.append(e); i += 1
    return "".join(out)


def cxx_string_groups(src):
    """Yield the value of every maximal run of adjacent string literals (C++ concatenates them)."""
    i, n = 0, len(src)
    group, have = [], False

    def flush():
        nonlocal group, have
        if have:
            s = "".join(group)
            group, have = [], False
            return s
        return None

    while i < n:
        c = src[i]
        if c in " \t\r\n":
            i += 1; continue
        if src.startswith("//", i):
            j = src.find("\n", i)
            i = n if j < 0 else j + 1
            continue
        if src.startswith("/*", i):
            j = src.find("*/", i + 2)
            i = n if j < 0 else j + 2
            continue
        m = _PREFIX.match(src, i) if (c in 'uULR"') else None
        if m and (i == 0 or not (src[i - 1].isalnum() or src[i - 1] == "_") or c == '"'):
            raw = m.group(2) is not None
            j = m.end()
            if raw:
                k = src.find("(", j)
                delim = src[j:k]
                end = src.find(")" + delim + '"', k + 1)
                if end < 0:
                    break
                val = src[k + 1:end]
                i = end + len(delim) + 2
            else:
                k = j
                while k < n and src[k] != '"':
                    k += 2 if src[k] == "\\" else 1
                val = _unescape(src[j:k])
                i = k + 1
            # user-defined literal suffix (_s, _L1, _ba, sv ...)
            sm = re.compile(r"[A-Za-z_][A-Za-z0-9_]*").match(src, i)
            if sm:
                i = sm.end()
            group.append(val); have = True
            continue
        # any other token ends a concatenation group
        s = flush()
        if s is not None:
            yield s
        if c == "'":  # char literal
            k = i + 1
            while k < n and src[k] != "'":
                k += 2 if src[k] == "\\" else 1
            i = k + 1
            continue
        i += 1
    s = flush()
    if s is not None:
        yield s


# ------------------------------------------------------------------------------------------- XML filter
_ILLEGAL = re.compile("[\x00-\x08\x0b\x0c\x0e-\x1f\ufffe\uffff]")


def as_element(s):
    """Return the literal as the text of ONE well-formed element (XML declaration stripped), or None."""
    t = s.strip()
    if not t.startswith("<") or not t.endswith(">") or _ILLEGAL.search(t):
        return None
    t = re.sub(r"^<\?xml[^>]*\?>\s*", "", t)
    if not t.startswith("<") or t.startswith("<!") or t.startswith("<?"):
        return None
    for cand in (t, _declare_common_prefixes(t)):
        if cand is None:
            continue
        try:
            d = xml.dom.minidom.parseString(cand.encode("utf8"))
        except Exception:
            continue
        if d.documentElement is None:
            continue
        return cand
    return None


def _declare_common_prefixes(t):
    # <stream:features> etc. written without their declaration (the tests wrap them in a stream element)
    m = re.match(r"<([A-Za-z_][\w.-]*):([A-Za-z_][\w.-]*)", t)
    if not m or m.group(1) != "stream" or "xmlns:stream" in t.split(">", 1)[0]:
        return None
    return t[:m.end()] + " xmlns:stream='http://etherx.jabber.org/streams'" + t[m.end():]


def esc_line(x):
    return x.replace("\\", "\\\\").replace("\n", "\\n").replace("\r", "\\r").replace("\t", "\\t")


# ------------------------------------------------------------------------------------------- seeds
# Documents for classes the test-suite has no (or only a partial) literal for. Hand-written from the XEPs / the toXml code.
SEEDS = [
    # stream management nonzas (XEP-0198)
    "<enable xmlns='urn:xmpp:sm:3' resume='true'/>",
    "<enabled xmlns='urn:xmpp:sm:3' id='some-long-sm-id' location='[2001:41D0:1:A49b::1]:9222' resume='true' max='600'/>",
    "<resume xmlns='urn:xmpp:sm:3' h='4294967295' previd='some-long-sm-id'/>",
    "<resumed xmlns='urn:xmpp:sm:3' h='5' previd='some-long-sm-id'/>",
    "<failed xmlns='urn:xmpp:sm:3' h='3'><item-not-found xmlns='urn:ietf:params:xml:ns:xmpp-stanzas'/></failed>",
    "<a xmlns='urn:xmpp:sm:3' h='1'/>",
    "<r xmlns='urn:xmpp:sm:3'/>",
    # STARTTLS, CSI, stream errors
    "<starttls xmlns='urn:ietf:params:xml:ns:xmpp-tls'/>",
    "<starttls xmlns='urn:ietf:params:xml:ns:xmpp-tls'><required/></starttls>",
    "<proceed xmlns='urn:ietf:params:xml:ns:xmpp-tls'/>",
    "<failure xmlns='urn:ietf:params:xml:ns:xmpp-tls'/>",
    "<active xmlns='urn:xmpp:csi:0'/>",
    "<inactive xmlns='urn:xmpp:csi:0'/>",
    "<stream:error xmlns:stream='http://etherx.jabber.org/streams'><conflict xmlns='urn:ietf:params:xml:ns:xmpp-streams'/>"
    "<text xmlns='urn:ietf:params:xml:ns:xmpp-streams' xml:lang='en'>Replaced by new connection</text></stream:error>",
    "<stream:error xmlns:stream='http://etherx.jabber.org/streams'><see-other-host xmlns='urn:ietf:params:xml:ns:xmpp-streams'>"
    "[2001:41D0:1:A49b::1]:9222</see-other-host></stream:error>",
    "<stream:error xmlns:stream='http://etherx.jabber.org/streams'><see-other-host xmlns='urn:ietf:params:xml:ns:xmpp-streams'>"
    "example.org:99999</see-other-host></stream:error>",
    # SASL (RFC 6120) and SASL2 / bind2 / FAST
    "<auth xmlns='urn:ietf:params:xml:ns:xmpp-sasl' mechanism='PLAIN'>AGp1bGlldAByMG0zMG15cjBtMzA=</auth>",
    "<auth xmlns='urn:ietf:params:xml:ns:xmpp-sasl' mechanism='ANONYMOUS'>=</auth>",
    "<challenge xmlns='urn:ietf:params:xml:ns:xmpp-sasl'>cj1meWtvK2QybGJiRmdPTlJ2OXFreGRhd0w=</challenge>",
    "<response xmlns='urn:ietf:params:xml:ns:xmpp-sasl'>Yz1iaXdzLHI9Znlrbw==</response>",
    "<success xmlns='urn:ietf:params:xml:ns:xmpp-sasl'>dj02cnJpVFJCaTIzV3BSUi93dHVwK21NaFVaVW4vZEI1bkxUSlJzamw5NUc0PQ==</success>",
    "<failure xmlns='urn:ietf:params:xml:ns:xmpp-sasl'><not-authorized/><text xml:lang='en'>Nope</text></failure>",
    "<authenticate xmlns='urn:xmpp:sasl:2' mechanism='SCRAM-SHA-1-PLUS'><initial-response>cD10bHMtZXhwb3J0ZXI=</initial-response>"
    "<user-agent id='d4565fa7-4d72-4749-b3d3-740edbf87770'><software>AwesomeXMPP</software><device>Kiva's Phone</device></user-agent>"
    "<bind xmlns='urn:xmpp:bind:0'><tag>AwesomeXMPP</tag><enable xmlns='urn:xmpp:carbons:2'/><enable xmlns='urn:xmpp:sm:3'/>"
    "<inactive xmlns='urn:xmpp:csi:0'/></bind><request-token xmlns='urn:xmpp:fast:0' mechanism='HT-SHA-256-ENDP'/></authenticate>",
    "<authenticate xmlns='urn:xmpp:sasl:2' mechanism='HT-SHA-256-ENDP'><initial-response>dG9rZW4=</initial-response>"
    "<fast xmlns='urn:xmpp:fast:0' count='123' invalidate='true'/></authenticate>",
    "<challenge xmlns='urn:xmpp:sasl:2'>cj0xMkM0Q0Q1Qy1FMzhFLTRBOTgtOEY2RC0xNUMzOEY1MUNDQzY=</challenge>",
    "<response xmlns='urn:xmpp:sasl:2'>Yz1jRDEwYkhNdFpYaHdiM0owWlhJc0xNY29Rdk9kQkRlUGQ0T3N3bG1BV1YzZGcxYTFXaDF0WVBUQndWaWQxMFZV</response>",
    "<success xmlns='urn:xmpp:sasl:2'><additional-data>dj1tc1ZIcz0=</additional-data><authorization-identifier>user@example.org/abc"
    "</authorization-identifier><bound xmlns='urn:xmpp:bind:0'><failed xmlns='urn:xmpp:sm:3' h='2'/><enabled xmlns='urn:xmpp:sm:3' id='x' resume='1'/>"
    "</bound><token xmlns='urn:xmpp:fast:0' expiry='2024-07-11T14:00:00Z' token='s3cr3tt0k3n'/></success>",
    "<failure xmlns='urn:xmpp:sasl:2'><aborted xmlns='urn:ietf:params:xml:ns:xmpp-sasl'/><text>This is a terrible example.</text></failure>",
    "<continue xmlns='urn:xmpp:sasl:2'><additional-data>U1NBIQ==</additional-data><tasks><task>HOTP-EXAMPLE</task><task>TOTP-EXAMPLE</task></tasks>"
    "<text>This account requires 2FA</text></continue>",
    "<abort xmlns='urn:xmpp:sasl:2'><text>I changed my mind</text></abort>",
    "<authentication xmlns='urn:xmpp:sasl:2'><mechanism>SCRAM-SHA-1</mechanism><mechanism>SCRAM-SHA-1-PLUS</mechanism><inline>"
    "<bind xmlns='urn:xmpp:bind:0'><inline><feature var='urn:xmpp:carbons:2'/><feature var='urn:xmpp:csi:0'/><feature var='urn:xmpp:sm:3'/></inline></bind>"
    "<fast xmlns='urn:xmpp:fast:0' tls-0rtt='true'><mechanism>HT-SHA-256-ENDP</mechanism></fast><sm xmlns='urn:xmpp:sm:3'/></inline></authentication>",
    "<user-agent xmlns='urn:xmpp:sasl:2' id='d4565fa7-4d72-4749-b3d3-740edbf87770'><software>AwesomeXMPP</software></user-agent>",
    "<bind xmlns='urn:xmpp:bind:0'><tag>tag</tag></bind>",
    "<bound xmlns='urn:xmpp:bind:0'><resumed xmlns='urn:xmpp:sm:3' h='1' previd='p'/></bound>",
    "<request-token xmlns='urn:xmpp:fast:0' mechanism='HT-SHA-256-NONE'/>",
    "<token xmlns='urn:xmpp:fast:0' expiry='2020-03-12T14:36:15Z' token='WXZzciBwYmFmdmZnIGJzIGdqYiBjbmVnZi4'/>",
    "<fast xmlns='urn:xmpp:fast:0'><mechanism>HT-SHA-256-ENDP</mechanism><mechanism>HT-SHA-256-EXPR</mechanism></fast>",
    # stream features with everything
    "<stream:features xmlns:stream='http://etherx.jabber.org/streams'><starttls xmlns='urn:ietf:params:xml:ns:xmpp-tls'><required/></starttls>"
    "<mechanisms xmlns='urn:ietf:params:xml:ns:xmpp-sasl'><mechanism>SCRAM-SHA-256</mechanism><mechanism>PLAIN</mechanism></mechanisms>"
    "<compression xmlns='http://jabber.org/features/compress'><method>zlib</method></compression><bind xmlns='urn:ietf:params:xml:ns:xmpp-bind'/>"
    "<session xmlns='urn:ietf:params:xml:ns:xmpp-session'><optional/></session><sm xmlns='urn:xmpp:sm:3'/><csi xmlns='urn:xmpp:csi:0'/>"
    "<register xmlns='http://jabber.org/features/iq-register'/><auth xmlns='http://jabber.org/features/iq-auth'/>"
    "<sub xmlns='urn:xmpp:features:pre-approval'/><ver xmlns='urn:xmpp:features:rosterver'/></stream:features>",
    # stanza errors
    "<error type='wait' by='example.org'><resource-constraint xmlns='urn:ietf:params:xml:ns:xmpp-stanzas'/>"
    "<text xmlns='urn:ietf:params:xml:ns:xmpp-stanzas' xml:lang='en'>slow down</text>"
    "<file-too-large xmlns='urn:xmpp:http:upload:0'><max-file-size>20000</max-file-size></file-too-large></error>",
    "<error type='modify' code='302'><gone xmlns='urn:ietf:params:xml:ns:xmpp-stanzas'>xmpp:romeo@afterlife.example.net</gone></error>",
    "<error type='wait'><resource-constraint xmlns='urn:ietf:params:xml:ns:xmpp-stanzas'/>"
    "<retry xmlns='urn:xmpp:http:upload:0' stamp='2017-12-03T23:42:05Z'/></error>",
    "<iq type='error' id='e1' from='a@b/c' to='d@e/f'><query xmlns='jabber:iq:version'/><error type='cancel'>"
    "<service-unavailable xmlns='urn:ietf:params:xml:ns:xmpp-stanzas'/></error></iq>",
    # old-style / compat IQs
    "<iq type='set' id='sess_1'><session xmlns='urn:ietf:params:xml:ns:xmpp-session'/></iq>",
    "<iq type='get' id='auth1'><query xmlns='jabber:iq:auth'><username>bill</username></query></iq>",
    "<iq type='set' id='auth2'><query xmlns='jabber:iq:auth'><username>bill</username><digest>48fc78be9ec8f86d8ce1c39c320c97c21d62334d</digest>"
    "<password>Calli0pe</password><resource>globe</resource></query></iq>",
    "<iq type='get' id='ping1' from='capulet.lit' to='juliet@capulet.lit/balcony'><ping xmlns='urn:xmpp:ping'/></iq>",
    "<iq type='set' id='priv1'><query xmlns='jabber:iq:private'><storage xmlns='storage:bookmarks'>"
    "<conference name='Council of Oberon' autojoin='true' jid='council@conference.underhill.org'><nick>Puck</nick></conference>"
    "<url name='Complete Works of Shakespeare' url='http://the-tech.mit.edu/Shakespeare/'/></storage></query></iq>",
    # file transfer / SI / bytestreams / IBB
    "<iq type='set' id='offer1' to='receiver@jabber.org/resource'><si xmlns='http://jabber.org/protocol/si' id='a0' mime-type='text/plain' "
    "profile='http://jabber.org/protocol/si/profile/file-transfer'><file xmlns='http://jabber.org/protocol/si/profile/file-transfer' name='test.txt' "
    "size='1022' hash='552da749930852c69ae5d2141d3766b1' date='1969-07-21T02:56:15Z'><desc>This is a test.</desc><range offset='5' length='10'/></file>"
    "<feature xmlns='http://jabber.org/protocol/feature-neg'><x xmlns='jabber:x:data' type='form'><field var='stream-method' type='list-single'>"
    "<option><value>http://jabber.org/protocol/bytestreams</value></option><option><value>http://jabber.org/protocol/ibb</value></option></field></x>"
    "</feature></si></iq>",
    "<file xmlns='http://jabber.org/protocol/si/profile/file-transfer' name='test.txt' size='1022' hash='552da749930852c69ae5d2141d3766b1' "
    "date='1969-07-21T02:56:15Z'><desc>This is a test.</desc></file>",
    "<iq type='set' id='bs1'><query xmlns='http://jabber.org/protocol/bytestreams' sid='vxf9n471bn46' mode='tcp'>"
    "<streamhost jid='initiator@example.com/foo' host='192.168.4.1' port='5086'/><streamhost jid='streamhostproxy.example.net' host='24.24.24.1' "
    "zeroconf='_jabber.bytestreams'/></query></iq>",
    "<iq type='result' id='bs2'><query xmlns='http://jabber.org/protocol/bytestreams' sid='vxf9n471bn46'><streamhost-used jid='proxy.example.net'/></query></iq>",
    "<iq type='set' id='ibb1'><open xmlns='http://jabber.org/protocol/ibb' block-size='4096' sid='i781hf64' stanza='iq'/></iq>",
    "<iq type='set' id='ibb2'><data xmlns='http://jabber.org/protocol/ibb' seq='65535' sid='i781hf64'>qANQR1DBwU4DX7jmYZnncmUQB/9KuKBddzQH+tZ1ZywKK0yHKnq57kWq+RFtQdCJ</data></iq>",
    "<iq type='set' id='ibb3'><close xmlns='http://jabber.org/protocol/ibb' sid='i781hf64'/></iq>",
    # MUC admin / owner
    "<iq type='set' id='ban1'><query xmlns='http://jabber.org/protocol/muc#admin'><item affiliation='outcast' jid='earlofcambridge@shakespeare.lit' nick='x' role='none'>"
    "<actor jid='bard@shakespeare.lit'/><reason>Treason</reason></item></query></iq>",
    "<iq type='set' id='create1'><query xmlns='http://jabber.org/protocol/muc#owner'><x xmlns='jabber:x:data' type='submit'>"
    "<field var='FORM_TYPE'><value>http://jabber.org/protocol/muc#roomconfig</value></field></x></query></iq>",
    # RPC
    "<iq type='set' id='rpc1'><query xmlns='jabber:iq:rpc'><methodCall><methodName>examples.getStateName</methodName><params>"
    "<param><value><i4>6</i4></value></param><param><value><struct><member><name>a</name><value><array><data><value><double>1.5</double></value>"
    "<value><boolean>1</boolean></value><value><base64>AAEC</base64></value><value><dateTime.iso8601>19980717T14:08:55</dateTime.iso8601></value>"
    "<value><string>s</string></value><value><nil/></value></data></array></value></member></struct></value></param></params></methodCall></query></iq>",
    "<iq type='result' id='rpc1'><query xmlns='jabber:iq:rpc'><methodResponse><params><param><value><string>Colorado</string></value></param></params>"
    "</methodResponse></query></iq>",
    "<iq type='result' id='rpc1'><query xmlns='jabber:iq:rpc'><methodResponse><fault><value><struct><member><name>faultCode</name><value><int>404</int></value></member>"
    "<member><name>faultString</name><value><string>Not found</string></value></member></struct></value></fault></methodResponse></query></iq>",
    # archive (XEP-0136)
    "<iq type='result' id='page1'><chat xmlns='urn:xmpp:archive' with='juliet@capulet.com/chamber' start='1469-07-21T02:56:15Z' subject='She speaks!' version='4' thread='t1'>"
    "<from secs='0'><body>Art thou not Romeo, and a Montague?</body></from><to secs='11'><body>Neither, fair saint, if either thee dislike.</body></to>"
    "<set xmlns='http://jabber.org/protocol/rsm'><first index='0'>0</first><last>99</last><count>217</count></set></chat></iq>",
    # push, blocking, carbons, MAM prefs-like, version, time, vcard
    "<iq type='set' id='x42'><enable xmlns='urn:xmpp:push:0' jid='push-5.client.example' node='yxs32uqsflafdk3iuqo'><x xmlns='jabber:x:data' type='submit'>"
    "<field var='FORM_TYPE'><value>http://jabber.org/protocol/pubsub#publish-options</value></field><field var='secret'><value>eruio234vzxc2kla-91</value></field></x></enable></iq>",
    "<iq type='set' id='x97'><disable xmlns='urn:xmpp:push:0' jid='push-5.client.example' node='yxs32uqsflafdk3iuqo'/></iq>",
    "<iq type='set' id='block1'><block xmlns='urn:xmpp:blocking'><item jid='romeo@montague.net'/></block></iq>",
    "<iq type='set' id='unblock1'><unblock xmlns='urn:xmpp:blocking'><item jid='romeo@montague.net'/></unblock></iq>",
    "<iq type='result' id='bl1'><blocklist xmlns='urn:xmpp:blocking'><item jid='romeo@montague.net'/><item jid='iago@shakespeare.lit'/></blocklist></iq>",
    "<message from='romeo@montague.example' to='romeo@montague.example/home' type='chat'><received xmlns='urn:xmpp:carbons:2'>"
    "<forwarded xmlns='urn:xmpp:forward:0'><message xmlns='jabber:client' from='juliet@capulet.example/balcony' to='romeo@montague.example/garden' type='chat'>"
    "<body>What man art thou that, thus bescreen'd in night, so stumblest on my counsel?</body><thread>0e3141cd80894871a68e6fe6b1ec56fa</thread></message>"
    "</forwarded></received></message>",
    "<message id='aeb213' to='juliet@capulet.lit/chamber'><result xmlns='urn:xmpp:mam:2' queryid='f27' id='28482-98726-73623'><forwarded xmlns='urn:xmpp:forward:0'>"
    "<delay xmlns='urn:xmpp:delay' stamp='2010-07-10T23:08:25Z'/><message xmlns='jabber:client' from='witch@shakespeare.lit' to='macbeth@shakespeare.lit'>"
    "<body>Hail to thee</body></message></forwarded></result></message>",
    "<message from='a@b' to='c@d' type='headline'><attention xmlns='urn:xmpp:attention:0'/></message>",
    # presence with MUC status, caps, vcard update, idle
    "<presence from='coven@chat.shakespeare.lit/thirdwitch' id='n13mt3l' to='hag66@shakespeare.lit/pda'><x xmlns='http://jabber.org/protocol/muc#user'>"
    "<item affiliation='member' role='participant' jid='hag66@shakespeare.lit/pda'/><status code='110'/><status code='210'/><destroy jid='x@y'><reason>r</reason></destroy>"
    "</x><c xmlns='http://jabber.org/protocol/caps' hash='sha-1' node='https://example.org' ver='QgayPKawpkPSDYmwT/WM94uAlu0='/>"
    "<x xmlns='vcard-temp:x:update'><photo>01b87fcd030b72895ff8e88db57ec525450f000d</photo></x><idle xmlns='urn:xmpp:idle:1' since='1969-07-21T02:56:15Z'/>"
    "<show>xa</show><status>gone</status><priority>-128</priority></presence>",
    "<presence to='coven@chat.shakespeare.lit/thirdwitch'><x xmlns='http://jabber.org/protocol/muc'><password>cauldronburn</password>"
    "<history maxstanzas='20' since='1970-01-01T00:00:00Z'/></x></presence>",
    # misc elements with a dedicated class
    "<x xmlns='jabber:x:oob'><url>https://example.org/a.png</url><desc>A picture</desc></x>",
    "<address type='to' jid='hildjj@jabber.org/Work' desc='Joe Hildebrand' delivered='true'/>",
    "<item xmlns='http://jabber.org/protocol/muc#admin' affiliation='admin' jid='wiccarocks@shakespeare.lit' role='moderator' nick='w'><reason>A worthy witch indeed!</reason></item>",
    "<set xmlns='http://jabber.org/protocol/rsm'><max>10</max><after>peterpan@neverland.lit</after><before/><index>371</index></set>",
    "<set xmlns='http://jabber.org/protocol/rsm'><first index='4294967295'>stpeter@jabber.org</first><last>peterpan@neverland.lit</last><count>800</count></set>",
    "<data xmlns='urn:xmpp:bob' cid='sha1+8f35fef110ffc5df08d579a50083ff9308fb6242@bob.xmpp.org' max-age='86400' type='image/png'>iVBORw0KGgoAAAANSUhEUgAAAAoAAAAK</data>",
    "<x><data xmlns='urn:xmpp:bob' cid='sha1+8f35fef110ffc5df08d579a50083ff9308fb6242@bob.xmpp.org' type='image/png'>aGVsbG8=</data>"
    "<data xmlns='urn:xmpp:bob' cid='sha1+5a4c38d44fc64805cbb2d92d8b208be13ff40c0f@bob.xmpp.org' max-age='0' type='text/plain'>d29ybGQ=</data></x>",
    "<credentials xmlns='org.qxmpp.credentials'><ht-token mechanism='HT-SHA-256-NONE' secret='t0k3n1234' expiry='2024-09-21T18:00:00Z'/></credentials>",
    "<account-data xmlns='org.qxmpp.export' jid='user@example.org'><roster xmlns='org.qxmpp.export'><item xmlns='jabber:iq:roster' jid='1@example.org' name='One'>"
    "<group>g</group></item></roster><vcard xmlns='org.qxmpp.export'><vCard xmlns='vcard-temp'><FN>Me</FN></vCard></vcard></account-data>",
    "<value><struct><member><name>k</name><value><array><data><value><i4>-2147483648</i4></value><value>bare</value></data></array></value></member></struct></value>",
    "<envelope xmlns='urn:xmpp:sce:1'><content><body xmlns='jabber:client'>Hello</body><x xmlns='jabber:x:oob'><url>https://en.wikipedia.org/wiki/Fight_Club#Plot</url></x>"
    "</content><time stamp='2004-01-25T06:05:00+01:00'/><to jid='missioncontrol@houston.nasa.gov'/><from jid='opportunity@mars.planet'/>"
    "<rpad>C1DHN9HK-9A25tSmwK4hU!Jji9%GKYK^syIlHJT9TnI4</rpad></envelope>",
    "<item xmlns='http://jabber.org/protocol/pubsub' id='current'><moved xmlns='urn:xmpp:moved:1'><new-jid>new@example.org</new-jid></moved></item>",
    "<html xmlns='http://jabber.org/protocol/xhtml-im'><body xmlns='http://www.w3.org/1999/xhtml'><p style='font-weight:bold'>hi <a href='http://x/?a=1&amp;b=2'>&lt;there&gt;</a></p></body></html>",
    "<iq type='get' id='pref1'><pref xmlns='urn:xmpp:archive'/></iq>",
    "<db:result xmlns:db='jabber:server:dialback' from='capulet.example' to='montague.example'>b4835385f37fe2895af6c196b59097b16862406db80559900d96bf6fa7d23df3</db:result>",
    "<db:verify xmlns:db='jabber:server:dialback' from='montague.example' to='capulet.example' id='417GAF25' type='valid'/>",
    "<iq type='error' id='rpc1' from='responder@company-a.com/jrpc-server' to='requester@company-b.com/jrpc-client'><query xmlns='jabber:iq:rpc'>"
    "<methodCall><methodName>examples.getStateName</methodName><params><param><value><i4>6</i4></value></param></params></methodCall></query>"
    "<error code='403' type='auth'><forbidden xmlns='urn:ietf:params:xml:ns:xmpp-stanzas'/></error></iq>",
    "<hash-used xmlns='urn:xmpp:hashes:2' algo='sha-256'/>",
    "<hash xmlns='urn:xmpp:hashes:2' algo='sha3-256'>2XarmwTlNxDAMkvymloX3S5+VbylNrJt/l5QyPa+YoU=</hash>",
    "<x xmlns='jabber:x:data' type='submit'><field type='hidden' var='FORM_TYPE'><value>http://jabber.org/protocol/pubsub#node_config</value></field>"
    "<field type='list-single' var='pubsub#access_model'><value>whitelist</value></field><field type='text-single' var='pubsub#max_items'><value>max</value></field>"
    "<field type='boolean' var='pubsub#persist_items'><value>1</value></field><field type='text-single' var='pubsub#item_expire'><value>604800</value></field>"
    "<field type='list-single' var='pubsub#send_last_published_item'><value>never</value></field><field type='jid-multi' var='pubsub#contact'><value>a@b</value><value>c@d</value></field></x>",
    "<x xmlns='jabber:x:data' type='result'><field type='hidden' var='FORM_TYPE'><value>http://jabber.org/protocol/pubsub#meta-data</value></field>"
    "<field type='text-single' var='pubsub#num_subscribers'><value>1234</value></field><field type='text-single' var='pubsub#max_items'><value>max</value></field>"
    "<field type='jid-multi' var='pubsub#owner'><value>a@b</value></field><field type='text-single' var='pubsub#title'><value>T</value></field></x>",
    "<x xmlns='jabber:x:data' type='submit'><field type='hidden' var='FORM_TYPE'><value>http://jabber.org/protocol/pubsub#subscribe_authorization</value></field>"
    "<field type='text-single' var='pubsub#subid'><value>123-abc</value></field><field type='text-single' var='pubsub#node'><value>princely_musings</value></field>"
    "<field type='jid-single' var='pubsub#subscriber_jid'><value>horatio@denmark.lit</value></field><field type='boolean' var='pubsub#allow'><value>true</value></field></x>",
    "<x xmlns='jabber:x:data' type='submit'><field type='hidden' var='FORM_TYPE'><value>http://jabber.org/protocol/pubsub#subscribe_options</value></field>"
    "<field type='boolean' var='pubsub#deliver'><value>1</value></field><field type='boolean' var='pubsub#digest'><value>0</value></field>"
    "<field type='text-single' var='pubsub#expire'><value>2006-02-28T23:59Z</value></field><field type='list-multi' var='pubsub#show-values'><value>chat</value><value>online</value></field>"
    "<field type='list-single' var='pubsub#subscription_depth'><value>all</value></field></x>",
    "<x xmlns='jabber:x:data' type='submit'><field type='hidden' var='FORM_TYPE'><value>http://jabber.org/protocol/pubsub#publish-options</value></field>"
    "<field type='list-single' var='pubsub#access_model'><value>presence</value></field></x>",
    # data forms with every field child XEP-0004 / 0122 / 0221 define (desc, description, required, option label, media, validate, reported/item, 2x instructions, title),
    # standalone and embedded in a message, a pubsub configuration event, a MUC owner IQ, a disco#info result and a MAM query
    "<x xmlns='jabber:x:data' type='form'><title>Form title</title><instructions>first line</instructions><instructions>second line</instructions><field type='hidden' var='FORM_TYPE'><value>urn:verif:form</value></field><field var='f1' type='list-single' label='L'><desc>what f1 means</desc><required/><value>a</value><option label='A'><value>a</value></option><option><value>b</value></option><validate xmlns='http://jabber.org/protocol/xdata-validate' datatype='xs:string'><regex>[ab]</regex></validate></field><field var='f2' type='text-single'><description>legacy spelling</description><value>v</value></field><field var='f3' type='boolean'><desc>flag</desc><value>1</value></field><field var='f4' label='pic'><media xmlns='urn:xmpp:media-element' height='80' width='290'><uri type='image/jpeg'>http://www.victim.com/challenges/ocr.jpeg?F3A6292C</uri><uri type='image/png'>cid:sha1+f24030b8d91d233bac14777be5ab531ca3b9f102@bob.xmpp.org</uri></media></field></x>",
    "<x xmlns='jabber:x:data' type='result'><title>Search results</title><reported><field var='first' label='Given Name' type='text-single'/><field var='jid' label='Jabber ID' type='jid-single'/></reported><item><field var='first'><value>Benvolio</value></field><field var='jid'><value>benvolio@montague.net</value></field></item><item><field var='first'><value>Romeo</value></field><field var='jid'><value>romeo@montague.net</value></field></item></x>",
    "<x xmlns='jabber:x:data' type='submit'><field var='only-desc'><desc>d</desc></field></x>",
    "<x xmlns='jabber:x:data' type='form'><title/><instructions/><field var='empty-children' type='list-multi'><desc/><option/><value/></field></x>",
    "<message from='a@b.example/c' to='d@e.example' type='normal' id='form1'><body>please fill in</body><x xmlns='jabber:x:data' type='form'><title>Form title</title><instructions>first line</instructions><instructions>second line</instructions><field type='hidden' var='FORM_TYPE'><value>urn:verif:form</value></field><field var='f1' type='list-single' label='L'><desc>what f1 means</desc><required/><value>a</value><option label='A'><value>a</value></option><option><value>b</value></option><validate xmlns='http://jabber.org/protocol/xdata-validate' datatype='xs:string'><regex>[ab]</regex></validate></field><field var='f2' type='text-single'><description>legacy spelling</description><value>v</value></field><field var='f3' type='boolean'><desc>flag</desc><value>1</value></field><field var='f4' label='pic'><media xmlns='urn:xmpp:media-element' height='80' width='290'><uri type='image/jpeg'>http://www.victim.com/challenges/ocr.jpeg?F3A6292C</uri><uri type='image/png'>cid:sha1+f24030b8d91d233bac14777be5ab531ca3b9f102@bob.xmpp.org</uri></media></field></x></message>",
    "<message from='pubsub.b.example' to='d@e.example' id='cfg1'><event xmlns='http://jabber.org/protocol/pubsub#event'><configuration node='princely_musings'><x xmlns='jabber:x:data' type='result'><field var='FORM_TYPE' type='hidden'><value>http://jabber.org/protocol/pubsub#node_config</value></field><field var='pubsub#title' type='text-single' label='Title'><desc>A friendly name for the node</desc><value>Princely Musings (Atom)</value></field><field var='pubsub#access_model' type='list-single'><desc>who may subscribe</desc><required/><option label='Open'><value>open</value></option><option><value>whitelist</value></option><value>open</value></field></x></configuration></event></message>",
    '<iq type=\'result\' id=\'owner1\' from=\'coven@chat.shakespeare.lit\' to=\'crone1@shakespeare.lit/desktop\'><query xmlns=\'http://jabber.org/protocol/muc#owner\'><x xmlns=\'jabber:x:data\' type=\'form\'><title>Configuration for "coven" Room</title><instructions>Complete this form</instructions><field type=\'hidden\' var=\'FORM_TYPE\'><value>http://jabber.org/protocol/muc#roomconfig</value></field><field label=\'Natural-Language Room Name\' type=\'text-single\' var=\'muc#roomconfig_roomname\'><desc>shown in lists</desc><value>A Dark Cave</value></field><field label=\'Maximum Number of Occupants\' type=\'list-single\' var=\'muc#roomconfig_maxusers\'><desc>limit</desc><required/><value>10</value><option label=\'10\'><value>10</value></option><option label=\'None\'><value/></option></field></x></query></iq>',
    "<iq type='result' id='disco1' from='shakespeare.lit' to='juliet@capulet.com/chamber'><query xmlns='http://jabber.org/protocol/disco#info'><identity category='server' type='im' name='s'/><feature var='http://jabber.org/protocol/disco#info'/><x xmlns='jabber:x:data' type='result'><field var='FORM_TYPE' type='hidden'><value>http://jabber.org/network/serverinfo</value></field><field var='abuse-addresses' type='list-multi' label='Abuse'><desc>where to complain</desc><value>mailto:abuse@shakespeare.lit</value><value>xmpp:abuse@shakespeare.lit</value></field></x></query></iq>",
    "<iq type='set' id='mam1'><query xmlns='urn:xmpp:mam:2' queryid='f27'><x xmlns='jabber:x:data' type='submit'><field var='FORM_TYPE' type='hidden'><value>urn:xmpp:mam:2</value></field><field var='with' type='jid-single'><desc>conversation partner</desc><value>juliet@capulet.lit</value></field><field var='start' type='text-single'><desc>from</desc><required/><value>2010-06-07T00:00:00Z</value></field></x><set xmlns='http://jabber.org/protocol/rsm'><max>10</max></set></query></iq>",
    "<message to='foo@example.com/QXmpp' from='bar@example.com/QXmpp' type='chat'><body>hi!</body><html xmlns='http://jabber.org/protocol/xhtml-im'>"
    "<body xmlns='http://www.w3.org/1999/xhtml'><p style='font-weight:bold'>hi <a href='http://x/?a=1&amp;b=2'>&lt;there&gt;</a></p></body></html></message>",
]


def build(repo):
    seen, rows = set(), []
    files = sorted(glob.glob(os.path.join(repo, "tests", "*", "tst_*.cpp")) + glob.glob(os.path.join(repo, "tests", "*.h")))
    nlit = 0
    for f in files:
        stem = os.path.splitext(os.path.basename(f))[0]
        try:
            src = open(f, encoding="utf8", errors="replace").read()
        except OSError:
            continue
        k = 0
        for s in cxx_string_groups(src):
            nlit += 1
            if "<" not in s:
                continue
            x = as_element(s)
            if x is None or x in seen:
                continue
            seen.add(x)
            rows.append(("%s#%d" % (stem, k), x)); k += 1
    for i, s in enumerate(SEEDS):
        x = as_element(s)
        if x is None:
            raise SystemExit("seed %d is not a well-formed element: %s" % (i, s[:80]))
        if x in seen:
            continue
        seen.add(x)
        rows.append(("seed#%d" % i, x))
    return rows, len(files), nlit


def main():
    a = sys.argv[1:]
    repo = os.environ.get("VERIF_REPO", "/repo")
    out = os.path.join(ROOT, "corpus", "test_xml.txt")
    check = False
    i = 0
    while i < len(a):
        if a[i] == "--repo": repo = a[i + 1]; i += 2
        elif a[i] == "--out": out = a[i + 1]; i += 2
        elif a[i] == "--check": check = True; i += 1
        else: i += 1
    rows, nfiles, nlit = build(repo)
    text = "".join("%s\t%s\n" % (k, esc_line(x)) for k, x in rows)
    if check:
        old = open(out, encoding="utf8").read() if os.path.exists(out) else ""
        same = old == text
        print("corpus %s: %d documents (%d from %d test files, %d literal groups scanned)%s" %
              (out, len(rows), sum(1 for k, _ in rows if not k.startswith("seed#")), nfiles, nlit, "" if same else "  DIFFERS from committed file"))
        return 0 if same else 1
    os.makedirs(os.path.dirname(out), exist_ok=True)
    tmp = out + ".tmp%d" % os.getpid()
    with open(tmp, "w", encoding="utf8") as fh:
        fh.write(text)
    os.replace(tmp, out)
    print("wrote %s: %d documents (%d from %d test files, %d literal groups scanned, %d seeds)" %
          (out, len(rows), sum(1 for k, _ in rows if not k.startswith("seed#")), nfiles, nlit, sum(1 for k, _ in rows if k.startswith("seed#"))))
    return 0


if __name__ == "__main__":
    sys.exit(main())
