#!/bin/sh
# usage: tools/run_all.sh [tier]  — runs every claimed check once, prints one line per property
cd "$(dirname "$0")/.."
T=${1:-quick}
for P in $(python3 -c "import json; print(' '.join(json.load(open('claimed.json'))))"); do
  S=$(date +%s)
  ./check $P --tier $T > .build/all_$P.log 2>&1; RC=$?
  echo "$P rc=$RC $(( $(date +%s) - S ))s $(grep -c '^KNOWN-FINDING' .build/all_$P.log) known $(grep -m1 '^VIOLATION' .build/all_$P.log)"
done
