#!/bin/sh
# usage: tools/mutant_run.sh <patch.diff> <Cxx> [<Cxx> ...]
# Runs the named checks against a scratch worktree of /repo with the patch applied, in a scratch COPY of /verif
# (so translators, Lean build output and harness builds of the real /verif are not disturbed). Everything is removed afterwards.
# Output: one line per check "MUTANT <patch> <Cxx> rc=<rc> <VIOLATION line or OK>", full logs under /verif/.build/mutants/.
set -u
if [ "$1" = "--clean" ]; then for d in /var/tmp/vm_slot_*; do [ -d "$d/repo" ] && git -C /repo worktree remove --force $d/repo; rm -rf $d; done; exit 0; fi
PATCH=$(readlink -f "$1"); shift
V=$(cd "$(dirname "$0")/.." && pwd)
TAG=$(basename "$(dirname "$PATCH")")_$$
mkdir -p $V/.build/mutants
if [ -n "${MR_SLOT:-}" ]; then
  # persistent slot: the worktree and the library builds of the scratch copy are kept between runs, so only the files a
  # patch touches are recompiled (remove the slots with: tools/mutant_run.sh --clean)
  W=/var/tmp/vm_slot_$MR_SLOT
  mkdir -p $W
  exec 9> $W/.lock; flock 9
  HEAD=$(git -C /repo rev-parse HEAD)
  if [ ! -d $W/repo ]; then git -C /repo worktree add --detach -f $W/repo HEAD >/dev/null 2>&1 || { echo "worktree failed"; exit 2; }; fi
  git -C $W/repo checkout -q -- . && git -C $W/repo clean -fdq && git -C $W/repo checkout -q --detach $HEAD || { echo "cannot reset slot worktree"; exit 2; }
  if ! git -C $W/repo apply "$PATCH" 2>/dev/null && ! (cd $W/repo && patch -p1 -F3 --no-backup-if-mismatch -s < "$PATCH"); then echo "MUTANT $PATCH does-not-apply"; git -C $W/repo checkout -q -- .; exit 2; fi
  rsync -a --delete --exclude .git --exclude '.build/repo-asan' --exclude '.build/repo-rel' --exclude '.build/mutants' --exclude '.build/harness' --exclude '.build/locks' --exclude 'replays' $V/ $W/verif/
  rm -rf $W/verif/replays
else
  W=/var/tmp/vm_$TAG
  mkdir -p $W
  git -C /repo worktree add --detach -f $W/repo HEAD >/dev/null 2>&1 || { echo "worktree failed"; exit 2; }
  if ! git -C $W/repo apply "$PATCH" 2>/dev/null && ! (cd $W/repo && patch -p1 -F3 --no-backup-if-mismatch -s < "$PATCH"); then echo "MUTANT $PATCH does-not-apply"; git -C /repo worktree remove --force $W/repo; rm -rf $W; exit 2; fi
  rsync -a --exclude .git --exclude '.build/repo-asan' --exclude '.build/mutants' --exclude '.build/harness' $V/ $W/verif/
  # the copied cmake build dir refers to /repo as its source: reconfigure against the worktree (objects are rebuilt)
  rm -rf $W/verif/.build/repo-rel $W/verif/.build/locks
fi
for P in "$@"; do
  LOG=$V/.build/mutants/$TAG.$P.log
  (cd $W/verif && VERIF_REPO=$W/repo ./check $P --tier ${VERIF_TIER:-quick} > $LOG 2>&1); RC=$?
  LINE=$(grep -m1 '^VIOLATION' $LOG || echo "no-violation")
  echo "MUTANT $(basename $(dirname $PATCH)) $P rc=$RC $LINE"
  [ -n "$(ls $W/verif/replays 2>/dev/null)" ] && cp $W/verif/replays/* $V/.build/mutants/ 2>/dev/null
done
if [ -n "${MR_SLOT:-}" ]; then
  git -C $W/repo checkout -q -- .
else
  git -C /repo worktree remove --force $W/repo
  rm -rf $W
fi
