#!/bin/sh
# usage: tools/mutant_run.sh <patch.diff> <Cxx> [<Cxx> ...]
# Runs the named checks against a scratch worktree of /repo with the patch applied, in a scratch COPY of /verif
# (so translators, Lean build output and harness builds of the real /verif are not disturbed). Everything is removed afterwards.
# Output: one line per check "MUTANT <patch> <Cxx> rc=<rc> <VIOLATION line or OK>", full logs under /verif/.build/mutants/.
set -u
PATCH=$(readlink -f "$1"); shift
V=$(cd "$(dirname "$0")/.." && pwd)
TAG=$(basename "$(dirname "$PATCH")")_$$
W=/var/tmp/vm_$TAG
mkdir -p $W $V/.build/mutants
git -C /repo worktree add --detach -f $W/repo HEAD >/dev/null 2>&1 || { echo "worktree failed"; exit 2; }
if ! git -C $W/repo apply "$PATCH" 2>/dev/null && ! (cd $W/repo && patch -p1 -F3 --no-backup-if-mismatch -s < "$PATCH"); then echo "MUTANT $PATCH does-not-apply"; git -C /repo worktree remove --force $W/repo; rm -rf $W; exit 2; fi
rsync -a --exclude .git --exclude '.build/repo-asan' --exclude '.build/mutants' --exclude '.build/harness' $V/ $W/verif/
# the copied cmake build dir refers to /repo as its source: reconfigure against the worktree (objects are rebuilt)
rm -rf $W/verif/.build/repo-rel $W/verif/.build/locks
for P in "$@"; do
  LOG=$V/.build/mutants/$TAG.$P.log
  (cd $W/verif && VERIF_REPO=$W/repo ./check $P --tier ${VERIF_TIER:-quick} > $LOG 2>&1); RC=$?
  LINE=$(grep -m1 '^VIOLATION' $LOG || echo "no-violation")
  echo "MUTANT $(basename $(dirname $PATCH)) $P rc=$RC $LINE"
  [ -n "$(ls $W/verif/replays 2>/dev/null)" ] && cp $W/verif/replays/* $V/.build/mutants/ 2>/dev/null
done
git -C /repo worktree remove --force $W/repo
rm -rf $W
