#!/usr/bin/env python3
"""Measured coverage of harness/cxx/codec_table.h:   classes_in_table / toXml_definitions_found.

found   = distinct classes with an exported  toXml / toXmlElementFromChild / serializePayload  in the library built from the
          working tree (`nm -DC libQXmppQt5.so`), i.e. every hand-written serializer that is actually compiled;
table   = the `covers` lists printed by `.build/harness/parsers --list` (plus the serialize-only classes the table declares:
          they have no parser of any kind, so there is nothing to dispatch to).
Also cross-checks with a plain grep over src/base/*.cpp + src/client/*.cpp (definitions in source, built or not).

usage: codec_coverage.py [--json]
"""
import glob, json, os, re, subprocess, sys

ROOT = os.path.dirname(os.path.dirname(os.path.abspath(__file__)))
REPO = os.environ.get("VERIF_REPO", "/repo")


def library():
    for d in ("repo-asan", "repo-rel"):
        p = os.path.join(ROOT, ".build", d, "src", "libQXmppQt5.so")
        if os.path.exists(p):
            return p
    raise SystemExit("no built library under .build/")


def exported_serializers():
    out = subprocess.run(["nm", "-DC", "--defined-only", library()], stdout=subprocess.PIPE, text=True).stdout
    classes = {}
    for line in out.split("\n"):
        m = re.match(r"^[0-9a-f]+ [TW] (.+)::(toXml|toXmlElementFromChild|serializePayload)\(QXmlStreamWriter", line)
        if m:
            classes.setdefault(m.group(1), set()).add(m.group(2))
    return classes


def source_definitions():
    n = 0
    files = glob.glob(os.path.join(REPO, "src", "base", "*.cpp")) + glob.glob(os.path.join(REPO, "src", "client", "*.cpp")) + \
        glob.glob(os.path.join(REPO, "src", "base", "compat", "*.cpp"))
    for f in files:
        for line in open(f, encoding="utf8", errors="replace"):
            if re.match(r"^\S.*::(toXml|toXmlElementFromChild|serializePayload)\(", line) and not line.startswith("//"):
                n += 1
    return n


def table():
    exe = os.path.join(ROOT, ".build", "harness", "parsers")
    out = subprocess.run([exe, "--list"], stdout=subprocess.PIPE, stderr=subprocess.DEVNULL, text=True,
                         env=dict(os.environ, QT_QPA_PLATFORM="offscreen", ASAN_OPTIONS="detect_leaks=0")).stdout
    entries, covered, ser_only = [], set(), set()
    for line in out.strip().split("\n"):
        f = line.split("\t")
        if len(f) < 4:
            continue
        names = [x for x in f[3].split(";") if x]
        if f[1] == "serialize-only":
            ser_only.update(names)
        else:
            entries.append(f[0]); covered.update(names)
    return entries, covered, ser_only


def coverage():
    found = exported_serializers()
    entries, covered, ser_only = table()
    # IQ subclasses override toXmlElementFromChild; templates (PubSubIq<T>, QXmppPubSubEvent<T>) are header-only and show up
    # through their non-template bases (QXmpp::Private::PubSubIqBase, QXmppPubSubEventBase is a QXmppMessage).
    in_table = sorted(c for c in found if c in covered)
    serialize_only = sorted(c for c in found if c in ser_only)
    missing = sorted(c for c in found if c not in covered and c not in ser_only)
    return {
        "toXml_classes_found_in_built_library": len(found),
        "toXml_definitions_in_source_grep": source_definitions(),
        "classes_in_table": len(in_table),
        "serialize_only_no_parser_exists": serialize_only,
        "not_in_table": missing,
        "table_entries": len(entries),
        "ratio": "%d/%d" % (len(in_table), len(found)),
        "ratio_of_classes_that_have_a_parser": "%d/%d" % (len(in_table), len(found) - len(serialize_only)),
    }


if __name__ == "__main__":
    c = coverage()
    if "--json" in sys.argv:
        print(json.dumps(c, indent=1))
    else:
        for k, v in c.items():
            print("%-42s %s" % (k, v))
