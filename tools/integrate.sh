#!/bin/sh
# usage: tools/integrate.sh Cxx [Cyy ...] — regenerate manifest, run each check once, validate evidence, commit
cd "$(dirname "$0")/.."
python3 gen_manifest.py | tail -1
for P in "$@"; do
  ./check $P --tier quick > .build/integrate_$P.log 2>&1; RC=$?
  tail -3 .build/integrate_$P.log
  python3-vt -c "
import json,jsonschema,sys
jsonschema.validate(json.load(open('evidence/$P.json')), json.load(open('/root/.vp/EVIDENCE.schema.json')))
print('$P evidence valid, rc=$RC')"
done
python3-vt -c "
import json,jsonschema
jsonschema.validate(json.load(open('MANIFEST.json')), json.load(open('/root/.vp/MANIFEST.schema.json'))); print('manifest valid')"
