#!/bin/sh
# usage: tools/confirm_seed.sh <seed dir containing patch.diff, demo.cpp>
# Confirms independently that a seeded change (1) applies and compiles, (2) passes the existing stable test suite,
# (3) makes its demonstration fail while the unpatched tree passes it. Uses a scratch worktree; removes it afterwards.
# demo.cpp: standalone program (Qt5 Core/Network/Xml + libQXmpp, private headers allowed); exit 0 = property holds, else violated.
set -u
S=$(readlink -f "$1")
W=/var/tmp/cs_$(basename $S)_$$
FLAGS="-std=c++20 -O1 -g -fPIC $(pkg-config --cflags Qt5Core Qt5Network Qt5Xml Qt5Test)"
LIBS="$(pkg-config --libs Qt5Core Qt5Network Qt5Xml Qt5Test)"
res() { echo "CONFIRM $(basename $S): $*"; }
git -C /repo worktree add --detach -f $W/repo HEAD >/dev/null 2>&1 || { res "worktree failed"; exit 2; }
cleanup() { git -C /repo worktree remove --force $W/repo >/dev/null 2>&1; rm -rf $W; }
build_demo() { # $1 = build dir, $2 = output
  EXTRA=""; [ -f $S/demo.moc.h ] && EXTRA=""
  if grep -q Q_OBJECT $S/demo.cpp; then moc -I$W/repo/src/base -I$W/repo/src/client -I$W/repo/src/server -I$W/repo/tests -I$1/src $(pkg-config --cflags Qt5Core Qt5Network Qt5Xml Qt5Test) $S/demo.cpp -o $W/demo.moc; fi
  g++ $FLAGS -I$W -I$W/repo/src/base -I$W/repo/src/client -I$W/repo/src/server -I$W/repo/tests -I$1/src $S/demo.cpp -o $2 -L$1/src -lQXmppQt5 $LIBS -Wl,-rpath,$1/src
}
# unpatched build (library only) + demo must pass
cmake -G Ninja -S $W/repo -B $W/b0 -DCMAKE_BUILD_TYPE=RelWithDebInfo -DCMAKE_CXX_FLAGS=-Wno-error -DBUILD_TESTS=OFF -DBUILD_EXAMPLES=OFF >/dev/null 2>&1 && cmake --build $W/b0 -j16 >/dev/null 2>&1 || { res "clean build failed"; cleanup; exit 2; }
build_demo $W/b0 $W/demo0 > $W/demo0.log 2>&1 || { res "demo does not compile on clean tree"; tail -5 $W/demo0.log; cleanup; exit 2; }
(cd $W && QT_QPA_PLATFORM=offscreen timeout 300 ./demo0 > $W/run0.log 2>&1); RC0=$?
# patched build with tests
(git -C $W/repo apply $S/patch.diff 2>/dev/null || (cd $W/repo && patch -p1 -F3 --no-backup-if-mismatch -s < $S/patch.diff)) || { res "patch does not apply"; cleanup; exit 2; }
cmake -G Ninja -S $W/repo -B $W/b1 -DCMAKE_BUILD_TYPE=RelWithDebInfo -DCMAKE_CXX_FLAGS=-Wno-error -DBUILD_TESTS=ON -DBUILD_INTERNAL_TESTS=ON -DBUILD_EXAMPLES=OFF >/dev/null 2>&1 && cmake --build $W/b1 -j16 > $W/build1.log 2>&1 || { res "patched tree does not compile"; tail -5 $W/build1.log; cleanup; exit 2; }
(cd $W/b1 && QT_QPA_PLATFORM=offscreen ctest -j8 --timeout 300 -E "tst_qxmppiceconnection|tst_qxmppserver" > $W/ctest.log 2>&1); RCT=$?
build_demo $W/b1 $W/demo1 > $W/demo1.log 2>&1 || { res "demo does not compile on patched tree"; cleanup; exit 2; }
(cd $W && QT_QPA_PLATFORM=offscreen timeout 300 ./demo1 > $W/run1.log 2>&1); RC1=$?
res "clean-demo rc=$RC0 (want 0)  tests rc=$RCT (want 0: $(grep -c Passed $W/ctest.log) passed, $(grep -c '\*\*\*Failed\|Failed ' $W/ctest.log) failed)  patched-demo rc=$RC1 (want !=0)"
[ $RCT -ne 0 ] && grep -i "failed" $W/ctest.log | head -5
tail -3 $W/run1.log
cleanup
[ $RC0 -eq 0 ] && [ $RCT -eq 0 ] && [ $RC1 -ne 0 ]
