#!/bin/sh
# usage: [CS_SLOT=n] tools/confirm_seed.sh <seed dir containing patch.diff, demo.cpp>
# Confirms independently that a seeded change (1) applies and compiles, (2) passes the existing stable test suite,
# (3) makes its demonstration fail while the unpatched tree passes it.
# Uses a persistent scratch worktree + build per slot (/var/tmp/cs_base_<slot>, library AND tests, rebuilt incrementally and reset to
# /repo's HEAD before every use); remove these directories when done (tools/confirm_seed.sh --clean).
# demo.cpp: standalone program (Qt5 Core/Network/Xml + libQXmpp, private headers allowed); exit 0 = property holds, else violated.
set -u
if [ "$1" = "--clean" ]; then
  for d in /var/tmp/cs_base_*; do [ -d "$d/repo" ] && git -C /repo worktree remove --force $d/repo; rm -rf $d; done; exit 0
fi
S=$(readlink -f "$1")
SLOT=${CS_SLOT:-0}
W=/var/tmp/cs_base_$SLOT
FLAGS="-std=c++20 -O1 -g -fPIC $(pkg-config --cflags Qt5Core Qt5Network Qt5Xml Qt5Test)"
LIBS="$(pkg-config --libs Qt5Core Qt5Network Qt5Xml Qt5Test)"
res() { echo "CONFIRM $(basename $S): $*"; }
HEAD=$(git -C /repo rev-parse HEAD)
if [ ! -d $W/repo ]; then
  mkdir -p $W
  git -C /repo worktree add --detach -f $W/repo HEAD >/dev/null 2>&1 || { res "worktree failed"; exit 2; }
  cmake -G Ninja -S $W/repo -B $W/b -DCMAKE_BUILD_TYPE=RelWithDebInfo -DCMAKE_CXX_FLAGS=-Wno-error -DBUILD_TESTS=ON -DBUILD_INTERNAL_TESTS=ON -DBUILD_EXAMPLES=OFF >/dev/null 2>&1 || { res "configure failed"; exit 2; }
fi
git -C $W/repo checkout -q -- . && git -C $W/repo checkout -q --detach $HEAD || { res "cannot reset worktree"; exit 2; }
build() { cmake --build $W/b -j${CS_JOBS:-8} > $W/build.log 2>&1; }
build_demo() { # $1 = output
  if grep -q Q_OBJECT $S/demo.cpp; then moc -I$W/repo/src/base -I$W/repo/src/client -I$W/repo/src/server -I$W/repo/tests -I$W/b/src $(pkg-config --cflags Qt5Core Qt5Network Qt5Xml Qt5Test) $S/demo.cpp -o $W/demo.moc; fi
  g++ $FLAGS -I$W -I$W/repo/src/base -I$W/repo/src/client -I$W/repo/src/server -I$W/repo/tests -I$W/b/src $S/demo.cpp -o $1 -L$W/b/src -lQXmppQt5 $LIBS -Wl,-rpath,$W/b/src
}
# unpatched: build + demo must pass
build || { res "clean build failed"; tail -5 $W/build.log; exit 2; }
build_demo $W/demo0 > $W/demo0.log 2>&1 || { res "demo does not compile on clean tree"; tail -5 $W/demo0.log; exit 2; }
(cd $W && QT_QPA_PLATFORM=offscreen timeout 300 ./demo0 > $W/run0.log 2>&1); RC0=$?
# patched: build with tests, stable suite, demo must fail
(git -C $W/repo apply $S/patch.diff 2>/dev/null || (cd $W/repo && patch -p1 -F3 --no-backup-if-mismatch -s < $S/patch.diff)) || { res "patch does not apply"; git -C $W/repo checkout -q -- .; exit 2; }
build || { res "patched tree does not compile"; tail -5 $W/build.log; git -C $W/repo checkout -q -- .; exit 2; }
(cd $W/b && QT_QPA_PLATFORM=offscreen ctest -j4 --timeout 300 -E "tst_qxmppiceconnection|tst_qxmppserver" > $W/ctest.log 2>&1); RCT=$?
if [ $RCT -ne 0 ]; then  # loopback-port clashes with other ctest runs on the machine: re-run the failed ones alone
  (cd $W/b && QT_QPA_PLATFORM=offscreen ctest --rerun-failed --timeout 300 > $W/ctest2.log 2>&1); RCT=$?
fi
build_demo $W/demo1 > $W/demo1.log 2>&1 || { res "demo does not compile on patched tree"; git -C $W/repo checkout -q -- .; exit 2; }
(cd $W && QT_QPA_PLATFORM=offscreen timeout 300 ./demo1 > $W/run1.log 2>&1); RC1=$?
res "clean-demo rc=$RC0 (want 0)  tests rc=$RCT (want 0: $(grep -c Passed $W/ctest.log) passed, $(grep -c '\*\*\*Failed\|Failed ' $W/ctest.log) failed)  patched-demo rc=$RC1 (want !=0)"
[ $RCT -ne 0 ] && grep -i "failed" $W/ctest.log | head -5
tail -3 $W/run1.log
git -C $W/repo checkout -q -- .
[ $RC0 -eq 0 ] && [ $RCT -eq 0 ] && [ $RC1 -ne 0 ]
