#!/usr/bin/env python3
"""Cross-check of the Lean spec libraries (Qx.Crypto.*, Qx.Base.Utf8) against python's
hashlib / hmac / hashlib.pbkdf2_hmac / zlib.crc32 / base64 / codecs.

Usage:  VERIF_SEED=7 python3 tools/crypto_selftest.py [N]      (exit 0 = all vectors agree)
Import: from crypto_selftest import run;  ok, n_checked, first_mismatch = run(seed, n)

Every vector is one request line of /verif/lean/.lake/build/bin/qxdriver_crypto (see lean/Driver/Crypto.lean).
"""
import base64
import hashlib
import hmac
import os
import random
import subprocess
import sys
import zlib

DRIVER = os.path.join(os.path.dirname(os.path.abspath(__file__)), "..", "lean", ".lake", "build", "bin", "qxdriver_crypto")

# block-boundary lengths of MD5/SHA-1/SHA-256 (64), SHA-512 (128), SHA3-512 (72), SHA3-256 (136)
BOUNDARY = [0, 1, 55, 56, 63, 64, 65, 71, 72, 73, 111, 112, 119, 120, 127, 128, 129, 135, 136, 137,
            143, 144, 145, 183, 184, 191, 192, 193, 255, 256, 257, 271, 272, 273, 300]

HASHES = {"sha1": "sha1", "sha256": "sha256", "sha512": "sha512", "sha3-256": "sha3_256",
          "sha3-512": "sha3_512", "md5": "md5"}
PBKDF2 = {"pbkdf2-sha1": ("sha1", 20), "pbkdf2-sha256": ("sha256", 32), "pbkdf2-sha512": ("sha512", 64),
          "pbkdf2-sha3-512": ("sha3_512", 64)}
B64ALPHA = b"ABCDEFGHIJKLMNOPQRSTUVWXYZabcdefghijklmnopqrstuvwxyz0123456789+/"


def hx(b: bytes) -> str:
    return b.hex() if b else "-"


def rbytes(rng: random.Random, n: int) -> bytes:
    return bytes(rng.getrandbits(8) for _ in range(n))


def rlen(rng: random.Random) -> int:
    return rng.choice(BOUNDARY) if rng.random() < 0.5 else rng.randint(0, 300)


def b64_strict_expected(txt: bytes) -> str:
    """canonical RFC 4648: decodes under python's validating decoder AND re-encodes to the same text"""
    try:
        raw = base64.b64decode(txt, validate=True)
    except Exception:
        return "none"
    return hx(raw) if base64.b64encode(raw) == txt else "none"


def b64_lenient_expected(txt: bytes) -> str:
    """QByteArray::fromBase64 (Qt 5.15 default): skip non-alphabet characters, drop leftover bits"""
    buf = 0
    nbits = 0
    out = bytearray()
    for ch in txt:
        d = B64ALPHA.find(bytes([ch]))
        if d < 0:
            continue
        buf = (buf << 6) | d
        nbits += 6
        if nbits >= 8:
            nbits -= 8
            out.append(buf >> nbits)
            buf &= (1 << nbits) - 1
    return hx(bytes(out))


def cps(s: str) -> str:
    return " ".join("%x" % ord(c) for c in s) if s else "-"


def utf8_strict_expected(b: bytes) -> str:
    try:
        return cps(b.decode("utf-8", errors="strict"))
    except UnicodeDecodeError:
        return "none"


def rand_utf8ish(rng: random.Random) -> bytes:
    """mostly valid UTF-8 with some damage (truncation, stray continuation bytes, over-long forms, surrogates)"""
    out = bytearray()
    for _ in range(rng.randint(0, 12)):
        k = rng.random()
        if k < 0.55:
            cp = rng.choice([rng.randint(0, 0x7F), rng.randint(0x80, 0x7FF), rng.randint(0x800, 0xD7FF),
                             rng.randint(0xE000, 0xFFFF), rng.randint(0x10000, 0x10FFFF)])
            out += chr(cp).encode("utf-8")
        elif k < 0.65:
            out += rbytes(rng, 1)
        elif k < 0.75:
            enc = chr(rng.choice([rng.randint(0x80, 0x7FF), rng.randint(0x800, 0xD7FF), rng.randint(0xE000, 0xFFFF),
                                  rng.randint(0x10000, 0x10FFFF)])).encode("utf-8")
            out += enc[:rng.randint(1, len(enc) - 1)]          # truncated sequence
        elif k < 0.85:
            out += rng.choice([b"\xc0\x80", b"\xc1\xbf", b"\xe0\x80\x80", b"\xe0\x9f\xbf", b"\xed\xa0\x80", b"\xed\xbf\xbf",
                               b"\xf0\x80\x80\x80", b"\xf0\x8f\xbf\xbf", b"\xf4\x90\x80\x80", b"\xf5\x80\x80\x80",
                               b"\xef\xbb\xbf", b"\xef\xbf\xbe", b"\xff", b"\xfe", b"\xf8\x88\x80\x80\x80"])
        else:
            out.append(rng.randint(0x80, 0xBF))
    return bytes(out)


def vectors(seed: int, n: int):
    """yield (request line, expected answer)"""
    rng = random.Random(seed)
    # fixed vectors first: every boundary length for every hash, empty inputs everywhere
    for name, py in HASHES.items():
        for ln in BOUNDARY:
            m = rbytes(rng, ln)
            yield f"{name} {hx(m)}", hashlib.new(py, m).hexdigest()
        hname = "hmac-" + name
        for kl in BOUNDARY:
            k, m = rbytes(rng, kl), rbytes(rng, rlen(rng))
            yield f"{hname} {hx(k)} {hx(m)}", hmac.new(k, m, py).hexdigest()
    for ln in BOUNDARY:
        m = rbytes(rng, ln)
        yield f"crc32 {hx(m)}", "%08x" % (zlib.crc32(m) & 0xFFFFFFFF)
        yield f"crc32bit {hx(m)}", "%08x" % (zlib.crc32(m) & 0xFFFFFFFF)
    for ln in range(0, 8):
        m = rbytes(rng, ln)
        e = base64.b64encode(m)
        yield f"b64enc {hx(m)}", e.decode() if e else "-"
        yield f"b64dec {hx(e)}", hx(m)
        yield f"b64lenient {hx(e)}", hx(m)
    for name, (py, hl) in PBKDF2.items():
        yield f"{name} {hx(b'password')} {hx(b'salt')} 1 {hl}", hashlib.pbkdf2_hmac(py, b"password", b"salt", 1, hl).hex()
        yield f"{name} {hx(b'password')} {hx(b'salt')} 4096 {hl}", hashlib.pbkdf2_hmac(py, b"password", b"salt", 4096, hl).hex()
        yield f"{name} - - 3 {2 * hl + 5}", hashlib.pbkdf2_hmac(py, b"", b"", 3, 2 * hl + 5).hex()
    # random vectors
    for i in range(n):
        kind = i % 8
        if kind == 0:
            name = rng.choice(list(HASHES))
            m = rbytes(rng, rlen(rng))
            yield f"{name} {hx(m)}", hashlib.new(HASHES[name], m).hexdigest()
        elif kind == 1:
            name = rng.choice(list(HASHES))
            k, m = rbytes(rng, rlen(rng)), rbytes(rng, rlen(rng))
            yield f"hmac-{name} {hx(k)} {hx(m)}", hmac.new(k, m, HASHES[name]).hexdigest()
        elif kind == 2:
            name = rng.choice(list(PBKDF2))
            py, hl = PBKDF2[name]
            p, s = rbytes(rng, rlen(rng)), rbytes(rng, rng.randint(0, 40))
            c = rng.choice([1, 2, 3, 7, 10, 33]) if rng.random() < 0.95 else 4096
            dk = rng.choice([1, hl - 1, hl, hl + 1, 2 * hl, 2 * hl + 3, rng.randint(1, 3 * hl)])
            yield f"{name} {hx(p)} {hx(s)} {c} {dk}", hashlib.pbkdf2_hmac(py, p, s, c, dk).hex()
        elif kind == 3:
            m = rbytes(rng, rlen(rng))
            op = rng.choice(["crc32", "crc32bit"])
            yield f"{op} {hx(m)}", "%08x" % (zlib.crc32(m) & 0xFFFFFFFF)
        elif kind == 4:
            m = rbytes(rng, rng.randint(0, 60))
            e = base64.b64encode(m)
            yield f"b64enc {hx(m)}", e.decode() if e else "-"
            yield f"b64dec {hx(e)}", hx(m)
        elif kind == 5:
            # damaged base64 text: strict decoder must answer exactly like the canonical-form rule
            e = bytearray(base64.b64encode(rbytes(rng, rng.randint(0, 20))))
            for _ in range(rng.randint(0, 2)):
                r = rng.random()
                if e and r < 0.4:
                    e[rng.randrange(len(e))] = rng.choice(b"=AQgw/+-_ \n*Zz09")
                elif e and r < 0.6:
                    del e[rng.randrange(len(e))]
                elif r < 0.8:
                    e.insert(rng.randint(0, len(e)), rng.choice(b"=A \nB+/"))
                else:
                    e += rng.choice([b"=", b"==", b"A", b"AA", b"AA=", b"A==="])
            e = bytes(e)
            yield f"b64dec {hx(e)}", b64_strict_expected(e)
            yield f"b64lenient {hx(e)}", b64_lenient_expected(e)
        elif kind == 6:
            b = rand_utf8ish(rng)
            yield f"utf8strict {hx(b)}", utf8_strict_expected(b)
            try:
                s = b.decode("utf-8")
                yield f"utf8lossy {hx(b)}", cps(s)          # on valid input lossy = strict
                yield ("utf8enc " + " ".join("%x" % ord(c) for c in s)).strip(), hx(b)
            except UnicodeDecodeError:
                pass
        else:
            # stateful decoder: any chunking of any byte string == one-shot lossy decoding (asked from the driver itself)
            b = rand_utf8ish(rng)
            cuts = sorted(rng.randint(0, len(b)) for _ in range(rng.randint(0, 4)))
            chunks = [b[i:j] for i, j in zip([0] + cuts, cuts + [len(b)])]
            yield "utf8chunks " + " ".join(hx(c) for c in chunks), ("=utf8lossy " + hx(b))


def run(seed: int, n: int):
    """returns (ok, n_checked, first_mismatch)"""
    if not os.path.exists(DRIVER):
        return False, 0, f"driver missing: {DRIVER} (cd /verif/lean && flock /verif/.build/locks/lake lake build qxdriver_crypto)"
    reqs, exps = [], []
    for req, exp in vectors(seed, n):
        if exp.startswith("="):           # expected value is the driver's own answer to another request
            reqs.append(exp[1:]); exps.append(None)
            reqs.append(req); exps.append("=prev")
        else:
            reqs.append(req); exps.append(exp)
    p = subprocess.run([DRIVER], input="".join(r + "\n" for r in reqs).encode(), stdout=subprocess.PIPE,
                       stderr=subprocess.PIPE, timeout=3600)
    outs = p.stdout.decode().split("\n")
    if outs and outs[-1] == "":
        outs.pop()
    if p.returncode != 0 or len(outs) != len(reqs):
        return False, 0, f"driver exit {p.returncode}, {len(outs)} answers for {len(reqs)} requests: {p.stderr.decode()[:300]}"
    checked = 0
    for i, (req, exp, got) in enumerate(zip(reqs, exps, outs)):
        if exp is None:
            continue
        if exp == "=prev":
            exp = outs[i - 1]
        checked += 1
        if got != exp:
            return False, checked, f"request `{req[:400]}`: lean={got[:200]} expected={exp[:200]}"
    return True, checked, ""


def main():
    seed = int(os.environ.get("VERIF_SEED", "1"))
    n = int(sys.argv[1]) if len(sys.argv) > 1 else 2000
    ok, checked, bad = run(seed, n)
    if ok:
        print(f"crypto_selftest: OK seed={seed} vectors={checked}")
        return 0
    print(f"crypto_selftest: MISMATCH seed={seed} after {checked} vectors: {bad}")
    return 1


if __name__ == "__main__":
    sys.exit(main())
