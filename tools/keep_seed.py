#!/usr/bin/env python3
"""usage: keep_seed.py <seed_out dir> <Cxx> "<MUTANT result line(s)>" "<CONFIRM line>"
copies a confirmed seeded change into /verif/seeded/<name>/ with meta.json completed."""
import json, os, shutil, sys
src, pid, mutant_line, confirm_line = sys.argv[1:5]
name = os.path.basename(src.rstrip("/"))
dst = os.path.join(os.path.dirname(os.path.dirname(os.path.abspath(__file__))), "seeded", name)
os.makedirs(dst, exist_ok=True)
for f in ("patch.diff", "demo.cpp"):
    shutil.copy(os.path.join(src, f), dst)
meta = json.load(open(os.path.join(src, "meta.json")))
meta.update({"property": pid, "confirmed": confirm_line, "check_result": mutant_line,
             "what_was_run": "tools/confirm_seed.sh (scratch worktree: clean build + demo passes; patched build + stable test suite passes + demo fails) "
                             "and tools/mutant_run.sh (quick tier of the property's check against a scratch worktree with the patch applied)"})
json.dump(meta, open(os.path.join(dst, "meta.json"), "w"), indent=1)
print("kept", dst)
