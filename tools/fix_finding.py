#!/usr/bin/env python3
"""usage: fix_finding.py <Cxx> <key> <commit> [<fix diff>]  — moves an open finding to "fixed" in known_findings.json (under the lock)."""
import fcntl, json, os, sys
ROOT = os.path.dirname(os.path.dirname(os.path.abspath(__file__)))
pid, key, commit = sys.argv[1], sys.argv[2], sys.argv[3]
diff = sys.argv[4] if len(sys.argv) > 4 else None
with open(os.path.join(ROOT, ".build", "locks", "findings"), "w") as lk:
    fcntl.flock(lk, fcntl.LOCK_EX)
    p = os.path.join(ROOT, "known_findings.json")
    j = json.load(open(p))
    hit = [f for f in j["findings"] if f["property"] == pid and f["key"] == key]
    if not hit:
        sys.exit("no open finding %s %s" % (pid, key))
    j["findings"] = [f for f in j["findings"] if not (f["property"] == pid and f["key"] == key)]
    what = hit[0]["what"]
    j["fixed"].append({"property": pid, "commit": commit, "key": key,
                       "what": "fixed: property=%s %s %s%s" % (pid, commit, what, (" (fix: %s)" % diff) if diff else "")})
    tmp = p + ".tmp%d" % os.getpid()
    with open(tmp, "w") as fh:
        json.dump(j, fh, indent=1)
    os.replace(tmp, p)
print("moved to fixed", pid, key, commit)
