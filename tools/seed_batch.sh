#!/bin/sh
# usage: tools/seed_batch.sh <name> ...   (name = dir under /var/tmp/seed_out, e.g. C03_a1; property = prefix before _)
cd "$(dirname "$0")/.."
mkdir -p .build/seed_results
for N in "$@"; do
  P=${N%%_*}
  S=/var/tmp/seed_out/$N
  [ -f $S/patch.diff ] || { echo "$N: no patch"; continue; }
  C=$(CS_SLOT=${CS_SLOT:-0} tools/confirm_seed.sh $S 2>&1 | grep '^CONFIRM' | head -1)
  M=$(MR_SLOT=b${CS_SLOT:-0} tools/mutant_run.sh $S/patch.diff $P 2>&1 | grep '^MUTANT' | head -1)
  echo "$N | $C | $M" | tee .build/seed_results/$N.txt
  case "$C" in *"clean-demo rc=0"*"tests rc=0"*"patched-demo rc=0"*) ;; *"clean-demo rc=0"*"tests rc=0"*) python3 tools/keep_seed.py $S $P "$M" "$C" ;; esac
done
