#!/usr/bin/env python3
"""Development helper for the C02/C01 `parsers` harness (not used by ./check).

Takes the failing inputs the harness dumped into .build/harness/parsers.fail/ (one file per (key, parser, input)), minimizes the
smallest one per key with `parsers --shrink-*` and prints lines ready for corpus/c02_regress.txt:

    r-<n>@<parser family>\\t<minimized xml>        # key

usage: c02_triage.py [--append]      (--append adds keys not yet present in corpus/c02_regress.txt)
"""
import glob, os, re, subprocess, sys

ROOT = os.path.dirname(os.path.dirname(os.path.abspath(__file__)))
FAIL = os.path.join(ROOT, ".build", "harness", "parsers.fail")
EXE = os.path.join(ROOT, ".build", "harness", "parsers")
REG = os.path.join(ROOT, "corpus", "c02_regress.txt")


def esc(x):
    return x.replace("\\", "\\\\").replace("\n", "\\n").replace("\r", "\\r").replace("\t", "\\t")


def family(parser):
    return re.sub(r"/Sce.*$", "", re.sub(r"<.*$", "", parser))


def main():
    append = "--append" in sys.argv
    by_key = {}
    for f in sorted(glob.glob(os.path.join(FAIL, "*.xml"))):
        head = open(f, encoding="utf8", errors="replace").readline()
        m = re.match(r"<!-- key=(.*?) parser=(.*?) input=(.*) -->", head)
        if not m:
            continue
        by_key.setdefault(m.group(1), []).append((os.path.getsize(f), f, m.group(2), m.group(3)))
    have = open(REG, encoding="utf8").read() if os.path.exists(REG) else ""
    env = dict(os.environ, ASAN_OPTIONS="detect_leaks=0:abort_on_error=0:exitcode=99", UBSAN_OPTIONS="print_stacktrace=1:exitcode=98")
    out_lines = []
    for key in sorted(by_key):
        if "# " + key + "\n" in have or "# " + key + " " in have:
            continue
        size, f, parser, what = sorted(by_key[key])[0]
        p = subprocess.run([EXE, "--shrink-key", key, "--shrink-parser", parser, "--shrink-xml", f], env=env, cwd=os.path.join(ROOT, ".build"),
                           stdout=subprocess.PIPE, stderr=subprocess.DEVNULL, text=True, errors="replace", timeout=1800)
        lines = p.stdout.strip().split("\n")
        if p.returncode != 0 or len(lines) < 2 or not lines[-2].startswith("shrunk after"):
            print("# could not shrink %s (%s): %s" % (key, f, lines[-1][:200] if lines else ""), file=sys.stderr)
            continue
        xml = lines[-1]
        n = len(re.findall(r"^r-", have, re.M)) + len(out_lines)
        line = "r-%03d@%s\t%s\t# %s  (parser %s; minimized from %s)" % (n, family(parser), esc(xml), key, parser, what[:120])
        out_lines.append(line)
        print(line)
    if append and out_lines:
        with open(REG, "a", encoding="utf8") as fh:
            for l in out_lines:
                fh.write(l + "\n")


if __name__ == "__main__":
    main()
