#!/usr/bin/env python3
"""C01 translator (literal drift): string literals and ns_* constants used inside the toXml / parse / fromDom bodies of
every class that has a schema in lean/Qx/Xml/Codec/Classes.lean  ->  lean/Qx/Generated/CodecLiterals.lean

Why: the schemas are written by hand.  `theorem codec_literals_tied` (Qx/Props/C01Codec.lean, by `decide`) demands, per
class, that every tag / attribute name of the schema occurs among the literals of the C++ bodies and every literal of
the bodies is a name of the schema or is listed in the explicit per-class ignore table
(Qx/Xml/Codec/Literals.lean); the same for namespaces (`ns_*` constants resolved with Qx/Generated/NsConstants.lean).
A renamed attribute, a new field or a changed namespace in the C++ therefore breaks a Lean obligation after
regeneration.

Function bodies are found by name (`Class::function`, k-th definition in the file when a name occurs several times, as
`Success::fromDom` does in QXmppSasl.cpp) and brace matching on the comment-stripped source.  A function that cannot be
found is an ANCHOR LOST error (exit 3), never a pass.

Environment: VERIF_REPO (source tree, default /repo), VERIF_GEN_OUT (output file, for scratch experiments).
"""
import os, re, sys

ROOT = os.path.dirname(os.path.dirname(os.path.abspath(__file__)))
REPO = os.environ.get("VERIF_REPO", "/repo")
OUT = os.environ.get("VERIF_GEN_OUT", os.path.join(ROOT, "lean", "Qx", "Generated", "CodecLiterals.lean"))
BASE = "src/base/"

SM, SASL, STREAM = "QXmppStreamManagement.cpp", "QXmppSasl.cpp", "Stream.cpp"


def pair(f, cls, k=1, reader="fromDom"):
    return [(f, cls + "::" + reader, k), (f, cls + "::toXml", k)]


# schema name -> anchors (file, qualified function name, k-th definition) or "@Other" (the bodies of another entry:
# the class writes / reads that class as a nested element)
CLASSES = {
    "SmEnable": pair(SM, "SmEnable"), "SmEnabled": pair(SM, "SmEnabled"), "SmResume": pair(SM, "SmResume"),
    "SmResumed": pair(SM, "SmResumed"), "SmFailed": pair(SM, "SmFailed"), "SmAck": pair(SM, "SmAck"),
    "SmRequest": pair(SM, "SmRequest"),
    "SaslAuth": pair(SASL, "Auth"), "SaslChallenge": pair(SASL, "Challenge", 1), "SaslResponse": pair(SASL, "Response", 1),
    "SaslSuccess": pair(SASL, "Success", 1),
    "StarttlsRequest": pair(STREAM, "StarttlsRequest"), "StarttlsProceed": pair(STREAM, "StarttlsProceed"),
    "Bind2Feature": pair(SASL, "Bind2Feature"),
    "Bind2Request": pair(SASL, "Bind2Request") + ["@SmEnable"],
    "Bind2Bound": pair(SASL, "Bind2Bound") + ["@SmFailed", "@SmEnabled"],
    "FastFeature": pair(SASL, "FastFeature"), "FastTokenRequest": pair(SASL, "FastTokenRequest"),
    "FastToken": pair(SASL, "FastToken"), "FastRequest": pair(SASL, "FastRequest"),
    "Sasl2StreamFeature": pair(SASL, "StreamFeature") + ["@Bind2Feature", "@FastFeature"],
    "Sasl2Challenge": pair(SASL, "Challenge", 2), "Sasl2Response": pair(SASL, "Response", 2),
    "Sasl2Success": pair(SASL, "Success", 2) + ["@Bind2Bound", "@SmResumed", "@SmFailed", "@FastToken"],
    "Sasl2Failure": pair(SASL, "Failure", 2), "Sasl2Continue": pair(SASL, "Continue"), "Sasl2Abort": pair(SASL, "Abort"),
    "ExtendedAddress": pair("QXmppStanza.cpp", "QXmppExtendedAddress", 1, "parse"),
    "BindIq": [("QXmppBindIq.cpp", "QXmppBindIq::parseElementFromChild", 1), ("QXmppBindIq.cpp", "QXmppBindIq::toXmlElementFromChild", 1)],
    "VersionIq": [("QXmppVersionIq.cpp", "QXmppVersionIq::parseElementFromChild", 1), ("QXmppVersionIq.cpp", "QXmppVersionIq::toXmlElementFromChild", 1)],
    "IbbCloseIq": [("QXmppIbbIq.cpp", "QXmppIbbCloseIq::parseElementFromChild", 1), ("QXmppIbbIq.cpp", "QXmppIbbCloseIq::toXmlElementFromChild", 1)],
    "IbbDataIq": [("QXmppIbbIq.cpp", "QXmppIbbDataIq::parseElementFromChild", 1), ("QXmppIbbIq.cpp", "QXmppIbbDataIq::toXmlElementFromChild", 1)],
    "Hash": pair("QXmppHash.cpp", "QXmppHash", 1, "parse"), "HashUsed": pair("QXmppHash.cpp", "QXmppHashUsed", 1, "parse"),
    "MixInvitation": pair("QXmppMixInvitation.cpp", "QXmppMixInvitation", 1, "parse"),
    "OutOfBandUrl": pair("QXmppOutOfBandUrl.cpp", "QXmppOutOfBandUrl", 1, "parse"),
    "PubSubAffiliation": pair("QXmppPubSubAffiliation.cpp", "QXmppPubSubAffiliation", 1, "parse"),
    "SdpParameter": pair("QXmppJingleData.cpp", "QXmppSdpParameter", 1, "parse"),
    "RtpFeedbackInterval": pair("QXmppJingleData.cpp", "QXmppJingleRtpFeedbackInterval", 1, "parse"),
    "TrustMessageKeyOwner": pair("QXmppTrustMessages.cpp", "QXmppTrustMessageKeyOwner", 1, "parse"),
    "TrustMessageElement": pair("QXmppTrustMessages.cpp", "QXmppTrustMessageElement", 1, "parse") + ["@TrustMessageKeyOwner"],
    "StreamFeatures": pair("QXmppStreamFeatures.cpp", "QXmppStreamFeatures", 1, "parse")
        + [("QXmppStreamFeatures.cpp", "readFeature", 1), ("QXmppStreamFeatures.cpp", "writeFeature", 1), "@Sasl2StreamFeature"],
    "ResultSetQuery": pair("QXmppResultSet.cpp", "QXmppResultSetQuery", 1, "parse"),
    "ResultSetReply": pair("QXmppResultSet.cpp", "QXmppResultSetReply", 1, "parse"),
    "StanzaError": pair("QXmppStanza.cpp", "QXmppStanza::Error", 1, "parse"),
    "MucItem": pair("QXmppMucIq.cpp", "QXmppMucItem", 1, "parse"),
    "MucAdminIq": [("QXmppMucIq.cpp", "QXmppMucAdminIq::parseElementFromChild", 1), ("QXmppMucIq.cpp", "QXmppMucAdminIq::toXmlElementFromChild", 1), "@MucItem"],
    "JingleReason": pair("QXmppJingleData.cpp", "QXmppJingleReason", 1, "parse"),
    "MamResultIq": [("QXmppMamIq.cpp", "QXmppMamResultIq::parseElementFromChild", 1), ("QXmppMamIq.cpp", "QXmppMamResultIq::toXmlElementFromChild", 1), "@ResultSetReply"],
}
CLASSES["RosterItem"] = [("QXmppRosterIq.cpp", "QXmppRosterIq::Item::parse", 1), ("QXmppRosterIq.cpp", "QXmppRosterIq::Item::toXml", 2)]
CLASSES["RosterIq"] = [("QXmppRosterIq.cpp", "QXmppRosterIq::parseElementFromChild", 1), ("QXmppRosterIq.cpp", "QXmppRosterIq::toXmlElementFromChild", 1), "@RosterItem"]
CLASSES["DataForm"] = pair("QXmppDataForm.cpp", "QXmppDataForm", 1, "parse")
CLASSES["MucOwnerIq"] = [("QXmppMucIq.cpp", "QXmppMucOwnerIq::parseElementFromChild", 1), ("QXmppMucIq.cpp", "QXmppMucOwnerIq::toXmlElementFromChild", 1), "@DataForm"]
DISCO = [("QXmppDiscoveryIq.cpp", "QXmppDiscoveryIq::parseElementFromChild", 1), ("QXmppDiscoveryIq.cpp", "QXmppDiscoveryIq::toXmlElementFromChild", 1), "@DataForm"]
CLASSES["DiscoInfoIq"] = DISCO
CLASSES["DiscoItemsIq"] = DISCO
CLASSES["VCardAddress"] = pair("QXmppVCardIq.cpp", "QXmppVCardAddress", 1, "parse")
CLASSES["VCardEmail"] = pair("QXmppVCardIq.cpp", "QXmppVCardEmail", 1, "parse")
CLASSES["VCardPhone"] = pair("QXmppVCardIq.cpp", "QXmppVCardPhone", 1, "parse")
CLASSES["MamQueryIq"] = [("QXmppMamIq.cpp", "QXmppMamQueryIq::parseElementFromChild", 1), ("QXmppMamIq.cpp", "QXmppMamQueryIq::toXmlElementFromChild", 1),
                         "@DataForm", "@ResultSetQuery"]
SUBSCRIPTION = pair("QXmppPubSubSubscription.cpp", "QXmppPubSubSubscription", 1, "parse")
for v in ("", "Event", "Owner"):
    CLASSES["PubSubSubscription" + v] = SUBSCRIPTION
CLASSES["Iq"] = [("QXmppIq.cpp", "QXmppIq::parse", 1), ("QXmppIq.cpp", "QXmppIq::parseElementFromChild", 1), ("QXmppIq.cpp", "QXmppIq::toXml", 1),
                 ("QXmppStanza.cpp", "QXmppStanza::parse", 1), "@StanzaError"]
STANZA_EXT = [("QXmppStanza.cpp", "QXmppStanza::parse", 1), ("QXmppStanza.cpp", "QXmppStanza::extensionsToXml", 1), "@StanzaError", "@ExtendedAddress"]
CLASSES["Presence"] = [("QXmppPresence.cpp", "QXmppPresence::parse", 1), ("QXmppPresence.cpp", "QXmppPresence::parseExtension", 1),
                       ("QXmppPresence.cpp", "QXmppPresence::toXml", 1), "@MucItem"] + STANZA_EXT
CLASSES["Message"] = [("QXmppMessage.cpp", "QXmppMessage::parse", 2), ("QXmppMessage.cpp", "QXmppMessage::parseExtensions", 1),
                      ("QXmppMessage.cpp", "QXmppMessage::parseExtension", 1), ("QXmppMessage.cpp", "QXmppMessage::toXml", 2),
                      ("QXmppMessage.cpp", "QXmppMessage::serializeExtensions", 1), "@MixInvitation", "@TrustMessageElement", "@OutOfBandUrl"] + STANZA_EXT
CLASSES["JingleRtpEncryption"] = pair("QXmppJingleData.cpp", "QXmppJingleRtpEncryption", 1, "parse") + pair("QXmppJingleData.cpp", "QXmppJingleRtpCryptoElement", 1, "parse") + [
    ("QXmppJingleData.cpp", "QXmppJingleRtpCryptoElement::isJingleRtpCryptoElement", 1)]
PUBSUB = [("QXmppPubSubIq.cpp", "PubSubIqBase::parseElementFromChild", 1), ("QXmppPubSubIq.cpp", "PubSubIqBase::toXmlElementFromChild", 1)]
for v in ("Unsubscribe", "Subscribe", "Options", "Create", "Delete", "Purge", "Configure", "Default", "OwnerDefault"):
    CLASSES["PubSubIq" + v] = PUBSUB


def die(msg):
    sys.stderr.write("codec_literals.py: ANCHOR LOST: %s\n" % msg)
    sys.exit(3)


def strip_comments(src):
    out, i, n = [], 0, len(src)
    while i < n:
        c = src[i]
        if c == '"':
            j = i + 1
            while j < n and src[j] != '"':
                j += 2 if src[j] == "\\" else 1
            out.append(src[i:j + 1]); i = j + 1
        elif c == "'":
            j = i + 1
            while j < n and src[j] != "'":
                j += 2 if src[j] == "\\" else 1
            out.append(src[i:j + 1]); i = j + 1
        elif src.startswith("//", i):
            while i < n and src[i] != "\n":
                i += 1
        elif src.startswith("/*", i):
            j = src.find("*/", i + 2)
            j = n if j < 0 else j + 2
            out.append("\n" * src[i:j].count("\n")); i = j
        else:
            out.append(c); i += 1
    return "".join(out)


_src = {}


def source(f):
    if f not in _src:
        p = os.path.join(REPO, BASE, f)
        if not os.path.exists(p):
            die("file %s does not exist" % p)
        _src[f] = strip_comments(open(p, encoding="utf8").read())
    return _src[f]


def skip_group(s, i, open_c, close_c):
    """index just after the group that opens at s[i]"""
    depth, n = 0, len(s)
    while i < n:
        c = s[i]
        if c == '"' or c == "'":
            j = i + 1
            while j < n and s[j] != c:
                j += 2 if s[j] == "\\" else 1
            i = j + 1; continue
        if c == open_c:
            depth += 1
        elif c == close_c:
            depth -= 1
            if depth == 0:
                return i + 1
        i += 1
    return -1


def body_of(f, name, k):
    s = source(f)
    found = 0
    for m in re.finditer(r"(?<![\w:])" + re.escape(name) + r"\s*\(", s):
        # a definition: the name starts a declarator at statement level (previous non-blank text on the line is a return type)
        line_start = s.rfind("\n", 0, m.start()) + 1
        before = s[line_start:m.start()]
        if before.strip() == "" or not re.match(r"^[\w:<>,&\*\s]+$", before):
            continue
        if re.search(r"\b(return|else|case)\b", before) or before[:1] in " \t":
            continue
        e = skip_group(s, m.end() - 1, "(", ")")
        if e < 0:
            continue
        m2 = re.match(r"\s*(const)?\s*(noexcept)?\s*\{", s[e:])
        if not m2:
            continue
        found += 1
        if found == k:
            b = e + m2.end() - 1
            e2 = skip_group(s, b, "{", "}")
            if e2 < 0:
                die("unbalanced braces in %s %s" % (f, name))
            return s[b:e2]
    die("definition #%d of %s not found in %s%s" % (k, name, BASE, f))


LIT = re.compile(r'"((?:[^"\\]|\\.)*)"')


def unescape(t):
    return t.encode("utf8").decode("unicode_escape") if "\\" in t else t


def collect(name, seen=()):
    if name in seen:
        die("cyclic reference at %s" % name)
    if name not in CLASSES:
        die("no anchor table entry for schema %s" % name)
    lits, nss = [], []
    for a in CLASSES[name]:
        if isinstance(a, str):
            l2, n2 = collect(a[1:], seen + (name,))
        else:
            b = body_of(*a)
            l2 = [unescape(x) for x in LIT.findall(b)]
            n2 = re.findall(r"\bns_\w+", b)
        for x in l2:
            if x not in lits:
                lits.append(x)
        for x in n2:
            if x not in nss:
                nss.append(x)
    return lits, nss


def lean_str(t):
    o = ['"']
    for ch in t:
        if ch == "\\":
            o.append("\\\\")
        elif ch == '"':
            o.append('\\"')
        elif ch == "\n":
            o.append("\\n")
        elif ord(ch) < 32:
            o.append("\\x%02x" % ord(ch))
        else:
            o.append(ch)
    return "".join(o) + '"'


def modelled_classes():
    p = os.path.join(ROOT, "lean", "Qx", "Xml", "Codec", "Classes.lean")
    src = open(p, encoding="utf8").read()
    m = re.search(r"def all : List \(String × Schema\) := \[(.*?)\]\n", src, re.S)
    if not m:
        die("table `all` not found in Classes.lean")
    return re.findall(r'\("(\w+)",', m.group(1))


def main():
    names = modelled_classes()
    rows = []
    for n in names:
        lits, nss = collect(n)
        rows.append((n, lits, nss))
    unused = sorted(set(CLASSES) - set(names))
    if unused:
        die("anchor table has entries without a schema: %s" % ", ".join(unused))
    out = ["/-", "GENERATED by translators/codec_literals.py from the toXml / parse / fromDom bodies in src/base of every class that has a schema.",
           "Do not edit: rewritten by every check run.  Plain data only.", "-/", "namespace Qx.Generated.CodecLiterals", "",
           "/-- (schema name, string literals in the bodies, `ns_*` constants in the bodies) -/",
           "def table : List (String × List String × List String) := ["]
    for i, (n, lits, nss) in enumerate(rows):
        out.append("  (%s,\n    [%s],\n    [%s])%s" % (lean_str(n), ", ".join(lean_str(x) for x in lits), ", ".join(lean_str(x) for x in nss),
                                                      "," if i + 1 < len(rows) else ""))
    out += ["]", "", "end Qx.Generated.CodecLiterals", ""]
    text = "\n".join(out)
    old = open(OUT, encoding="utf8").read() if os.path.exists(OUT) else None
    if old != text:
        tmp = OUT + ".tmp%d" % os.getpid()
        with open(tmp, "w", encoding="utf8") as fh:
            fh.write(text)
        os.replace(tmp, OUT)
    print("codec_literals.py: %d classes, %d literals, %d namespace uses -> %s" % (len(rows), sum(len(r[1]) for r in rows), sum(len(r[2]) for r in rows), OUT))


if __name__ == "__main__":
    main()
