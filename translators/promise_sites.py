#!/usr/bin/env python3
"""C07 translator: promise and continuation-chaining sites of src/client -> lean/Qx/Generated/PromiseSites.lean

Reads every src/client/*.cpp and *.h of the working tree (VERIF_REPO, default /repo) and lists

  * every construction of a `QXmppPromise<…>` (local variable, member, element type of a container, assignment
    `x = QXmppPromise<…>()`),
  * every call of `chain(` / `chain<…>(` / `chainIq(` / `chainIq<…>(` / `chainSuccess(` / `chainMapSuccess(` and every use of
    `parseIq(` / `parseIq<…>(`,

with, per site: the file, the enclosing top-level function or struct (nearest preceding definition starting in column 0),
the kind, whether the call is the operand of a `return`, and for chain-like calls the shape of the FIRST argument (the source
task): `requestTable` when it is literally `[this->][client()->]send(Iq|GenericIq|SensitiveIq)(…)`, otherwise the name of the
outermost function called (e.g. `requestItems`, `verifyStatement`), or `variable` when it is no call at all.

Nothing is judged here. The judgement is made in Lean on the generated table (lean/Qx/Props/C07.lean):
`all_chain_sites_pure` (every chain-like site is `return chain*(<request-table task or a known task-returning API>, …)`),
`all_promise_sites_classified` (every promise construction is one of the explicitly listed hand-rolled sites).  A new
hand-rolled promise or a chain over an unrecognised source therefore breaks an obligation after regeneration.

Also writes the list of request-API functions found (one `file<TAB>function` per line) to .build/c07/promise_sites.txt for
the harness (coverage number: APIs exercised / sites found).

Anchors: the combinators must exist in src/base/QXmppFutureUtils_p.h with the expected shape, at least 40 chain-like sites
and 10 promise constructions must be found (today: see the generated file); otherwise the script exits non-zero
(a lost anchor is a broken tie, never a pass).

Environment: VERIF_REPO (source tree), VERIF_GEN_OUT (output file, for scratch experiments).
"""
import os, re, sys

ROOT = os.path.dirname(os.path.dirname(os.path.abspath(__file__)))
REPO = os.environ.get("VERIF_REPO", "/repo")
OUT = os.environ.get("VERIF_GEN_OUT", os.path.join(ROOT, "lean", "Qx", "Generated", "PromiseSites.lean"))
LIST_OUT = os.path.join(ROOT, ".build", "c07", "promise_sites.txt")


def die(msg):
    sys.stderr.write("promise_sites.py: ANCHOR LOST: %s\n" % msg)
    sys.exit(3)


def strip_comments(src):
    # keep line structure; string literals in these files never contain comment openers that matter here
    src = re.sub(r"/\*.*?\*/", lambda m: re.sub(r"[^\n]", " ", m.group(0)), src, flags=re.S)
    return re.sub(r"//[^\n]*", lambda m: " " * len(m.group(0)), src)


def match_paren(s, i):
    """s[i] == '(' -> index of the matching ')' (strings/chars are short and paren-free enough here; braces ignored)"""
    depth = 0
    j = i
    while j < len(s):
        c = s[j]
        if c == '"':
            j += 1
            while j < len(s) and s[j] != '"':
                j += 2 if s[j] == "\\" else 1
        elif c == "'":
            j += 1
            while j < len(s) and s[j] != "'":
                j += 2 if s[j] == "\\" else 1
        elif c == "(":
            depth += 1
        elif c == ")":
            depth -= 1
            if depth == 0:
                return j
        j += 1
    return -1


def first_arg(s, i, j):
    """text of the first top-level argument of the call s[i..j] ('(' at i, ')' at j)"""
    depth = 0
    k = i + 1
    while k < j:
        c = s[k]
        if c in "([{":
            depth += 1
        elif c in ")]}":
            depth -= 1
        elif c == "<":
            # template argument list only if it closes before the next top-level comma/paren (heuristic: identifier before it)
            pass
        elif c == "," and depth == 0:
            # a comma inside template angle brackets: count unmatched '<' that look like template openers
            seg = s[i + 1:k]
            if seg.count("<") - seg.count("->") > seg.count(">") - seg.count("->"):
                k += 1
                continue
            return s[i + 1:k]
        k += 1
    return s[i + 1:j]


DEF_RE = re.compile(r"^(?!\s)(?!#)(?!namespace\b)(?!using\b)(?!template\b)(?!typedef\b)(?!static_assert\b)(?!Q_[A-Z_]+\b)(?!\}|\{|\))(.*)$")


def enclosing(lines, ln):
    """nearest preceding column-0 definition: function name (Class::name) or struct/class name"""
    for k in range(ln, -1, -1):
        t = lines[k]
        if not t or t[0] in " \t#}{)":
            continue
        m = re.match(r"(?:struct|class)\s+(?:QXMPP_EXPORT\s+)?(\w+)", t)
        if m:
            return m.group(1)
        if re.match(r"(namespace|using|template|typedef|static_assert|extern|enum)\b", t):
            continue
        m = re.search(r"([\w:~]+)\s*\(", t)
        if m and not re.match(r"(if|for|while|switch|return)\b", t):
            return m.group(1)
    return "?"


CHAIN_RE = re.compile(r"(?<![\w:>.])(chainIq|chainSuccess|chainMapSuccess|chain|parseIq)\s*(<[^;(){}]*?>)?\s*\(")
PROMISE_RE = re.compile(r"QXmppPromise\s*<")


def source_shape(arg):
    a = re.sub(r"\s+", "", arg)
    if re.match(r"^(this->)?(client\(\)->)?send(Iq|GenericIq|SensitiveIq)\(", a):
        return "requestTable"
    if not a.endswith(")"):
        return "variable"
    # outermost call: the one whose closing parenthesis ends the argument
    depth = 0
    for k in range(len(a) - 1, -1, -1):
        if a[k] == ")":
            depth += 1
        elif a[k] == "(":
            depth -= 1
            if depth == 0:
                head = a[:k]
                head = re.sub(r"<[^<>]*(?:<[^<>]*>[^<>]*)*>$", "", head)  # template arguments of the call
                m = re.search(r"([A-Za-z_]\w*)$", head)
                if not m:
                    return "variable"
                name = m.group(1)
                return "variable" if name in ("move", "forward") else name
    return "variable"


def main():
    fu = os.path.join(REPO, "src", "base", "QXmppFutureUtils_p.h")
    if not os.path.exists(fu):
        die("src/base/QXmppFutureUtils_p.h does not exist")
    futils = re.sub(r"\s+", " ", strip_comments(open(fu, encoding="utf8").read()))
    # the combinator every chain-like helper is built on: one promise, one continuation on the source, finish inside it
    if not re.search(r"auto chain\(QXmppTask<Input> &&source, QObject \*context, Converter task\) -> QXmppTask<Result> \{ "
                     r"QXmppPromise<Result> promise; source\.then\(context, \[=\]\(Input &&input\) mutable \{ "
                     r"promise\.finish\(task\(std::move\(input\)\)\); \}\); return promise\.task\(\); \}", futils):
        die("`chain` in QXmppFutureUtils_p.h no longer has the shape promise; source.then(context, finish(convert(input))); return task")
    for name in ("chainIq", "chainSuccess", "chainMapSuccess"):
        starts = [m.end() for m in re.finditer(r"auto %s\(" % name, futils)]
        if not starts:
            die("combinator %s not found in QXmppFutureUtils_p.h" % name)
        for st in starts:
            r = futils.find("return ", st)
            nxt = futils.find("template<", st)
            if r < 0 or (nxt >= 0 and r > nxt) or not futils[r:].startswith("return chain<") or "QXmppPromise" in futils[st:r]:
                die("combinator %s is no longer `return chain<…>(…)`" % name)

    cdir = os.path.join(REPO, "src", "client")
    if not os.path.isdir(cdir):
        die("src/client does not exist")
    sites = []
    for fn in sorted(os.listdir(cdir)):
        if not (fn.endswith(".cpp") or fn.endswith(".h")):
            continue
        src = strip_comments(open(os.path.join(cdir, fn), encoding="utf8").read())
        lines = src.split("\n")
        starts = [0]
        for l in lines:
            starts.append(starts[-1] + len(l) + 1)

        def line_of(pos):
            lo, hi = 0, len(starts) - 1
            while lo + 1 < hi:
                mid = (lo + hi) // 2
                if starts[mid] <= pos:
                    lo = mid
                else:
                    hi = mid
            return lo
        for m in PROMISE_RE.finditer(src):
            ln = line_of(m.start())
            sites.append(dict(file=fn, func=enclosing(lines, ln), kind="promise", returned=False, source="-"))
        for m in CHAIN_RE.finditer(src):
            ln = line_of(m.start())
            before = src[starts[ln]:m.start()]
            # a definition of a local helper with that name (e.g. `auto parseIq(…) -> …` in QXmppCarbonManagerV2.cpp) is not a use
            if re.match(r"\s*(static\s+|inline\s+)*(auto|[\w:<>]+)\s+$", before) and not before.strip().startswith("return"):
                kind = "localDefinition"
                sites.append(dict(file=fn, func=m.group(1), kind=kind, returned=False, source="-"))
                continue
            i = m.end() - 1
            j = match_paren(src, i)
            if j < 0:
                die("unbalanced parentheses after %s in %s:%d" % (m.group(1), fn, ln + 1))
            returned = bool(re.search(r"\breturn\s*$", src[max(0, m.start() - 40):m.start()]))
            shape = source_shape(first_arg(src, i, j))
            sites.append(dict(file=fn, func=enclosing(lines, ln), kind=m.group(1), returned=returned, source=shape))

    nchain = sum(1 for s in sites if s["kind"] in ("chain", "chainIq", "chainSuccess", "chainMapSuccess"))
    nprom = sum(1 for s in sites if s["kind"] == "promise")
    if nchain < 40:
        die("only %d chain-like sites found in src/client (expected >= 40): the combinators were renamed or moved" % nchain)
    if nprom < 10:
        die("only %d QXmppPromise constructions found in src/client (expected >= 10)" % nprom)

    def q(s):
        return '"' + s.replace("\\", "\\\\").replace('"', '\\"') + '"'
    out = []
    out.append("/-! GENERATED by translators/promise_sites.py from src/client/*.cpp, *.h and src/base/QXmppFutureUtils_p.h — do not edit.")
    out.append("Every `QXmppPromise<` construction and every chain / chainIq / chainSuccess / chainMapSuccess / parseIq use. -/")
    out.append("namespace Qx.C07.Generated")
    out.append("")
    out.append("inductive SiteKind | promise | chain | chainIq | chainSuccess | chainMapSuccess | parseIq | localDefinition")
    out.append("  deriving DecidableEq, Repr")
    out.append("")
    out.append("/-- `source`: \"requestTable\" = the first argument is literally `[client()->]send(Iq|GenericIq|SensitiveIq)(…)`;")
    out.append("otherwise the name of the outermost function called in the first argument, \"variable\" if it is no call, \"-\" if n/a -/")
    out.append("structure Site where")
    out.append("  file : String")
    out.append("  func : String")
    out.append("  /-- `func` without its class qualifier -/")
    out.append("  name : String")
    out.append("  kind : SiteKind")
    out.append("  returned : Bool")
    out.append("  source : String")
    out.append("  deriving DecidableEq, Repr")
    out.append("")
    out.append("def sites : List Site := [")
    rows = []
    for s in sites:
        rows.append("  ⟨%s, %s, %s, .%s, %s, %s⟩" % (q(s["file"]), q(s["func"]), q(s["func"].split("::")[-1]), s["kind"], "true" if s["returned"] else "false", q(s["source"])))
    out.append(",\n".join(rows))
    out.append("]")
    out.append("")
    out.append("end Qx.C07.Generated")
    txt = "\n".join(out) + "\n"
    os.makedirs(os.path.dirname(OUT), exist_ok=True)
    old = open(OUT, encoding="utf8").read() if os.path.exists(OUT) else None
    if old != txt:
        tmp = OUT + ".tmp"
        open(tmp, "w", encoding="utf8").write(txt)
        os.replace(tmp, OUT)
    # request-API functions for the harness coverage number: every function holding a chain-like site or a promise construction,
    # outside the stream-internal files
    apis = sorted({(s["file"], s["func"]) for s in sites
                   if s["kind"] != "localDefinition" and not re.match(r"QXmppOutgoingClient|QXmppSaslManager", s["file"])})
    os.makedirs(os.path.dirname(LIST_OUT), exist_ok=True)
    open(LIST_OUT, "w", encoding="utf8").write("".join("%s\t%s\n" % a for a in apis))
    print("promise_sites.py: %d sites (%d chain-like, %d promise constructions), %d request-API functions" % (len(sites), nchain, nprom, len(apis)))


if __name__ == "__main__":
    main()
