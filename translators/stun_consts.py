#!/usr/bin/env python3
"""C14 translator: STUN wire constants of QXmppStun.cpp/.h -> lean/Qx/Generated/StunConsts.lean

Reads from the working tree of the repository (VERIF_REPO, default /repo):
  src/base/QXmppStun.cpp   `enum AttributeType { ... }` (all enumerators with their values),
                           STUN_MAGIC, STUN_HEADER, STUN_IPV4, STUN_IPV6, STUN_ID_SIZE,
                           the FINGERPRINT xor constant (must be the same literal in encode and decode),
                           the sizes added to the body length before MESSAGE-INTEGRITY / FINGERPRINT are computed
                           (encode: `buffer.size() - STUN_HEADER + N`, decode: `setBodyLength(copy, done + N)`),
                           the order in which QXmppStunMessage::encode emits the attribute types,
                           the masks of messageClass()/messageMethod()
  src/base/QXmppStun.h     enum MethodType, enum ClassType of QXmppStunMessage
and writes plain Lean data.  Any anchor that is not found exactly as expected makes the script exit non-zero
(a lost anchor is a broken tie, never a pass).

Environment: VERIF_REPO (source tree), VERIF_GEN_OUT (output file, for scratch experiments).
"""
import os, re, sys

ROOT = os.path.dirname(os.path.dirname(os.path.abspath(__file__)))
REPO = os.environ.get("VERIF_REPO", "/repo")
OUT = os.environ.get("VERIF_GEN_OUT", os.path.join(ROOT, "lean", "Qx", "Generated", "StunConsts.lean"))

# every attribute the Lean model knows; the enum must contain exactly these names
EXPECTED_ATTRS = ["MappedAddress", "ChangeRequest", "SourceAddress", "ChangedAddress", "Username", "MessageIntegrity",
                  "ErrorCode", "ChannelNumber", "Lifetime", "XorPeerAddress", "DataAttr", "Realm", "Nonce",
                  "XorRelayedAddress", "EvenPort", "RequestedTransport", "XorMappedAddress", "ReservationToken",
                  "Priority", "UseCandidate", "Software", "Fingerprint", "IceControlled", "IceControlling", "OtherAddress"]


def die(msg):
    sys.stderr.write("stun_consts.py: ANCHOR LOST: %s\n" % msg)
    sys.exit(3)


def read(rel):
    p = os.path.join(REPO, rel)
    if not os.path.exists(p):
        die("file %s does not exist" % p)
    return open(p, encoding="utf8").read()


def strip_comments(src):
    src = re.sub(r"/\*.*?\*/", lambda m: "\n" * m.group(0).count("\n"), src, flags=re.S)
    return re.sub(r"//[^\n]*", "", src)


def num(s, where):
    m = re.fullmatch(r"(0[xX][0-9a-fA-F]+|\d+)[uUlL]*", s.strip())
    if not m:
        die("%s: not an integer literal: %r" % (where, s))
    return int(m.group(1), 0)


def enum(src, name, where):
    ms = list(re.finditer(r"\benum\s+%s\s*\{([^}]*)\}" % re.escape(name), src))
    if len(ms) != 1:
        die("expected exactly one `enum %s {...}` in %s, found %d" % (name, where, len(ms)))
    out = []
    for it in ms[0].group(1).split(","):
        it = it.strip()
        if not it:
            continue
        m = re.fullmatch(r"(\w+)\s*=\s*(\S+)", it)
        if not m:
            die("enum %s: enumerator without explicit value: %r" % (name, it))
        out.append((m.group(1), num(m.group(2), "enum %s::%s" % (name, m.group(1)))))
    return out


def const(src, ctype, name):
    ms = list(re.finditer(r"static\s+const\s+%s\s+%s\s*=\s*([^;]+);" % (ctype, name), src))
    if len(ms) != 1:
        die("expected exactly one `static const %s %s = ...;`, found %d" % (ctype, name, len(ms)))
    return num(ms[0].group(1), name)


def function_body(src, header_re, where):
    m = re.search(header_re, src)
    if not m:
        die("%s not found" % where)
    i = src.find("{", m.end() - 1)
    depth, j = 0, i
    while j < len(src):
        if src[j] == "{":
            depth += 1
        elif src[j] == "}":
            depth -= 1
            if depth == 0:
                return src[i + 1:j]
        j += 1
    die("unbalanced braces in %s" % where)


def main():
    cpp = strip_comments(read("src/base/QXmppStun.cpp"))
    hdr = strip_comments(read("src/base/QXmppStun.h"))

    attrs = enum(cpp, "AttributeType", "QXmppStun.cpp")
    names = [n for n, _ in attrs]
    if sorted(names) != sorted(EXPECTED_ATTRS):
        die("enum AttributeType changed: missing %s, new %s (the Lean model has to be extended)" %
            (sorted(set(EXPECTED_ATTRS) - set(names)), sorted(set(names) - set(EXPECTED_ATTRS))))
    if len(set(v for _, v in attrs)) != len(attrs):
        die("enum AttributeType has duplicate values")
    aval = dict(attrs)

    magic = const(cpp, "quint32", "STUN_MAGIC")
    header = const(cpp, "quint16", "STUN_HEADER")
    ipv4 = const(cpp, "quint8", "STUN_IPV4")
    ipv6 = const(cpp, "quint8", "STUN_IPV6")
    m = re.findall(r"#define\s+STUN_ID_SIZE\s+(\d+)", cpp)
    if len(m) != 1:
        die("#define STUN_ID_SIZE not found exactly once")
    idsize = int(m[0])

    enc = function_body(cpp, r"QByteArray\s+QXmppStunMessage::encode\s*\([^)]*\)\s*const\s*\{", "QXmppStunMessage::encode")
    dec = function_body(cpp, r"bool\s+QXmppStunMessage::decode\s*\([^)]*\)\s*\{", "QXmppStunMessage::decode")

    # fingerprint xor constant: same literal on both sides
    fe = re.findall(r"generateCrc32\s*\(\s*buffer\s*\)\s*\^\s*(0[xX][0-9a-fA-F]+)[uUlL]*", enc)
    fd = re.findall(r"generateCrc32\s*\(\s*copy\s*\)\s*\^\s*(0[xX][0-9a-fA-F]+)[uUlL]*", dec)
    if len(fe) != 1 or len(fd) != 1:
        die("FINGERPRINT computation `generateCrc32(...) ^ 0x...` not found exactly once in encode (%d) and decode (%d)" % (len(fe), len(fd)))
    if int(fe[0], 16) != int(fd[0], 16):
        die("FINGERPRINT xor constant differs between encode (%s) and decode (%s)" % (fe[0], fd[0]))
    fpxor = int(fe[0], 16)

    # sizes added to the body length before the MI / FP value is computed
    eadd = [int(x) for x in re.findall(r"setBodyLength\s*\(\s*buffer\s*,\s*buffer\.size\(\)\s*-\s*STUN_HEADER\s*\+\s*(\d+)\s*\)", enc)]
    dadd = [int(x) for x in re.findall(r"setBodyLength\s*\(\s*copy\s*,\s*done\s*\+\s*(\d+)\s*\)", dec)]
    if len(eadd) != 2 or len(dadd) != 2:
        die("expected two adjusted-length computations in encode and in decode, found %s and %s" % (eadd, dadd))
    if eadd != dadd:
        die("adjusted lengths differ between encode %s and decode %s" % (eadd, dadd))
    mi_add, fp_add = eadd
    if not re.search(r"generateHmacSha1\s*\(\s*key\s*,\s*buffer\s*\)", enc) or not re.search(r"generateHmacSha1\s*\(\s*key\s*,\s*copy\s*\)", dec):
        die("MESSAGE-INTEGRITY is no longer computed by QXmppUtils::generateHmacSha1(key, ...) in encode/decode")

    # order in which encode emits attribute types
    order = []
    for mm in re.finditer(r"addAddress\s*\(\s*stream\s*,\s*(\w+)\s*,|encodeString\s*\(\s*stream\s*,\s*(\w+)\s*,|stream\s*<<\s*quint16\s*\(\s*([A-Z]\w+)\s*\)", enc):
        n = mm.group(1) or mm.group(2) or mm.group(3)
        if n not in aval:
            die("encode emits %r which is not an AttributeType enumerator" % n)
        order.append(n)
    if len(set(order)) != len(order):
        die("encode emits an attribute type twice: %s" % order)
    never = sorted(set(names) - set(order))
    if never != ["EvenPort"]:
        die("attributes never emitted by encode changed: %s (expected only EvenPort)" % never)

    # class / method masks and public enums
    mc = re.search(r"QXmppStunMessage::messageClass\s*\(\s*\)\s*const\s*\{\s*return\s+m_type\s*&\s*(0[xX][0-9a-fA-F]+)\s*;", cpp)
    mm_ = re.search(r"QXmppStunMessage::messageMethod\s*\(\s*\)\s*const\s*\{\s*return\s+m_type\s*&\s*(0[xX][0-9a-fA-F]+)\s*;", cpp)
    if not mc or not mm_:
        die("messageClass()/messageMethod() masks not found")
    methods = enum(hdr, "MethodType", "QXmppStun.h")
    classes = enum(hdr, "ClassType", "QXmppStun.h")

    def lname(n):
        return n[0].lower() + n[1:]

    L = []
    L.append("/-")
    L.append("GENERATED by translators/stun_consts.py from src/base/QXmppStun.cpp and QXmppStun.h.")
    L.append("Do not edit: rewritten by every check run.  Plain data only.")
    L.append("-/")
    L.append("namespace Qx.Generated.Stun")
    L.append("")
    L.append("/-- STUN_MAGIC -/")
    L.append("def magicCookie : Nat := 0x%08X" % magic)
    L.append("/-- STUN_HEADER -/")
    L.append("def headerSize : Nat := %d" % header)
    L.append("/-- STUN_ID_SIZE -/")
    L.append("def idSize : Nat := %d" % idsize)
    L.append("/-- STUN_IPV4 -/")
    L.append("def familyIPv4 : Nat := %d" % ipv4)
    L.append("/-- STUN_IPV6 -/")
    L.append("def familyIPv6 : Nat := %d" % ipv6)
    L.append("/-- the constant xor-ed onto the CRC-32 for FINGERPRINT (same literal in encode and decode) -/")
    L.append("def fingerprintXor : Nat := 0x%08X" % fpxor)
    L.append("/-- added to the body length before MESSAGE-INTEGRITY is computed (attribute header + 20 bytes of HMAC-SHA1) -/")
    L.append("def miAdjust : Nat := %d" % mi_add)
    L.append("/-- added to the body length before FINGERPRINT is computed (attribute header + 4 bytes) -/")
    L.append("def fpAdjust : Nat := %d" % fp_add)
    L.append("/-- mask of QXmppStunMessage::messageClass() -/")
    L.append("def classMask : Nat := 0x%04X" % int(mc.group(1), 16))
    L.append("/-- mask of QXmppStunMessage::messageMethod() -/")
    L.append("def methodMask : Nat := 0x%04X" % int(mm_.group(1), 16))
    L.append("")
    L.append("/-! ### enum AttributeType -/")
    for n, v in attrs:
        L.append("def %s : Nat := 0x%04X" % (lname(n), v))
    L.append("")
    L.append("/-- all enumerators of AttributeType with their values, in source order -/")
    L.append("def attributeTypes : List (String × Nat) := [")
    L.append(",\n".join('  ("%s", 0x%04X)' % (n, v) for n, v in attrs) + "]")
    L.append("")
    L.append("/-- attribute types in the order in which QXmppStunMessage::encode emits them -/")
    L.append("def encodeOrder : List Nat := [")
    L.append(",\n".join("  %s" % lname(n) for n in order) + "]")
    L.append("")
    L.append("/-- QXmppStunMessage::MethodType -/")
    L.append("def methodTypes : List (String × Nat) := [" + ", ".join('("%s", 0x%X)' % (n, v) for n, v in methods) + "]")
    L.append("/-- QXmppStunMessage::ClassType -/")
    L.append("def classTypes : List (String × Nat) := [" + ", ".join('("%s", 0x%03X)' % (n, v) for n, v in classes) + "]")
    L.append("")
    L.append("end Qx.Generated.Stun")
    out = "\n".join(L) + "\n"
    os.makedirs(os.path.dirname(OUT), exist_ok=True)
    old = open(OUT, encoding="utf8").read() if os.path.exists(OUT) else None
    if old != out:
        with open(OUT, "w", encoding="utf8") as f:
            f.write(out)
    print("stun_consts.py: %d attribute types, encode order of %d -> %s%s" % (len(attrs), len(order), OUT, "" if old != out else " (unchanged)"))


if __name__ == "__main__":
    main()
