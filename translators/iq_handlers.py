#!/usr/bin/env python3
"""C08 translator: reads /repo/src/client and regenerates lean/Qx/Generated/IqHandlers.lean.

Extracted on every run:
  * every class that overrides handleStanza (old style `(const QDomElement &)` or new style with
    `std::optional<QXmppE2eeMetadata>`), i.e. every place an incoming IQ can be consumed by an extension;
  * the extensions QXmppClient installs by default, in registration order;
  * the shape of the two fallbacks (QXmppOutgoingClient::handleStanza, QXmppClient::injectIq) and of
    StanzaPipeline::process is checked textually (anchors); a lost anchor is a broken tie (exit 1).
Theorems in Qx/Props/C08.lean state that every extracted handler class has a model row with the same
style and that the model's default set is the extracted one; a new or changed handler site therefore makes
`lake build` fail instead of passing silently.
"""
import hashlib, json, os, re, sys

REPO = os.environ.get("VERIF_REPO", "/repo")
ROOT = os.path.dirname(os.path.dirname(os.path.abspath(__file__)))
OUT = os.path.join(ROOT, "lean", "Qx", "Generated", "IqHandlers.lean")

# class → constructor of Qx.C08.Mgr (the model row). A class missing here is emitted as `none`.
ROWS = {
    "QXmppArchiveManager": "archive", "QXmppBlockingManager": "blocking", "QXmppBookmarkManager": "bookmark",
    "QXmppCarbonManager": "carbon", "QXmppCarbonManagerV2": "carbonV2", "QXmppDiscoveryManager": "discovery",
    "QXmppEntityTimeManager": "entityTime", "QXmppMamManager": "mam", "QXmppMucManager": "muc",
    "QXmppPubSubManager": "pubsub", "QXmppRegistrationManager": "registration", "QXmppRosterManager": "roster",
    "QXmppRpcManager": "rpc", "QXmppTransferManager": "transfer", "QXmppUploadRequestManager": "uploadRequest",
    "QXmppVCardManager": "vcard", "QXmppVersionManager": "version",
}
# not part of the library built for the checks (cmake option off), hence neither modelled nor measured
NOT_BUILT = {"QXmppCallManager": "WITH_GSTREAMER=OFF"}
# not extensions: the pipeline stages themselves and the base class
NOT_EXTENSIONS = {"QXmppOutgoingClient", "OutgoingIqManager", "QXmppClientExtension"}


# Functions whose bodies the model rows transcribe (beyond each class's handleStanza): their normalised text is
# hashed into .build/c08_body_hashes.json; props/C08.py compares the hashes with translators/iq_handlers_reviewed.json
# and reports every body that changed since the rows were last reviewed against the source.
REVIEWED_FUNCS = [
    ("QXmppOutgoingClient.cpp", r"void QXmppOutgoingClient::handlePacketReceived\("),
    ("QXmppOutgoingClient.cpp", r"HandleElementResult QXmppOutgoingClient::handleElement\("),
    ("QXmppOutgoingClient.cpp", r"bool QXmppOutgoingClient::handleStanza\("),
    ("QXmppOutgoingClient.cpp", r"bool OutgoingIqManager::handleStanza\("),
    ("QXmppClient.cpp", r"void QXmppClient::injectIq\("),
    ("QXmppClient.cpp", r"bool process\(const QList<QXmppClientExtension \*> &extensions, const QDomElement &element"),
    ("QXmppClient.cpp", r"QXmppTask<QXmpp::SendResult> QXmppClient::reply\("),
    ("QXmppIqHandling.cpp", r"void QXmpp::Private::sendIqReply\("),
    ("QXmppIqHandling.cpp", r"std::tuple<bool, QString, QString> QXmpp::Private::checkIsIqRequest\("),
    ("QXmppTransferManager.cpp", r"void QXmppTransferManager::ibbCloseIqReceived\("),
    ("QXmppTransferManager.cpp", r"void QXmppTransferManager::ibbDataIqReceived\("),
    ("QXmppTransferManager.cpp", r"void QXmppTransferManager::ibbOpenIqReceived\("),
    ("QXmppTransferManager.cpp", r"void QXmppTransferManager::byteStreamIqReceived\("),
    ("QXmppTransferManager.cpp", r"void QXmppTransferManager::byteStreamSetReceived\("),
    ("QXmppTransferManager.cpp", r"void QXmppTransferManager::streamInitiationIqReceived\("),
    ("QXmppTransferManager.cpp", r"void QXmppTransferManager::streamInitiationSetReceived\("),
    ("QXmppTransferManager.cpp", r"void QXmppTransferManager::_q_jobStateChanged\("),
    ("QXmppRpcManager.cpp", r"void QXmppRpcManager::invokeInterfaceMethod\("),
    ("QXmppDiscoveryManager.cpp", r"QXmppDiscoveryManager::handleIq\("),
    ("QXmppEntityTimeManager.cpp", r"QXmppEntityTimeManager::handleIq\("),
    ("QXmppVersionManager.cpp", r"QXmppVersionManager::handleIq\("),
]
HASHES = os.path.join(ROOT, ".build", "c08_body_hashes.json")


def body_after(txt, pos):
    i = txt.index("{", pos); depth = 0; j = i
    while True:
        if txt[j] == "{": depth += 1
        elif txt[j] == "}":
            depth -= 1
            if depth == 0: break
        j += 1
    return txt[i:j + 1]


def norm_hash(body):
    body = re.sub(r"/\*.*?\*/", "", re.sub(r"//[^\n]*", "", body), flags=re.S)
    return hashlib.sha256(re.sub(r"\s+", " ", body).strip().encode("utf8")).hexdigest()[:16]


def fail(msg):
    print("iq_handlers.py: anchor lost:", msg)
    sys.exit(1)


def main():
    cdir = os.path.join(REPO, "src", "client")
    sites = []
    hashes = {}
    counts = {"isIqType": 0, "checkIqType": 0, "handleIqRequests": 0}
    for fn in sorted(os.listdir(cdir)):
        if not fn.endswith(".cpp") or fn.startswith("compat"):
            continue
        txt = open(os.path.join(cdir, fn), encoding="utf8", errors="replace").read()
        for k in counts:
            counts[k] += len(re.findall(r"\b%s\s*[<(]" % k, txt))
        for m in re.finditer(r"^bool\s+([A-Za-z0-9_:]+)::handleStanza\(([^)]*)\)", txt, re.M):
            cls = m.group(1).split("::")[-1]
            new_style = "QXmppE2eeMetadata" in m.group(2)
            # body of the function (brace matching from the first '{' after the signature)
            i = txt.index("{", m.end()); depth = 0; j = i
            while True:
                if txt[j] == "{": depth += 1
                elif txt[j] == "}":
                    depth -= 1
                    if depth == 0: break
                j += 1
            body = re.sub(r"//[^\n]*", "", txt[i:j + 1])
            hashes[cls + "::handleStanza"] = norm_hash(txt[i:j + 1])
            # what decides whether the handler claims a stanza: `isXyz(` predicates and handleIqRequests<…> type lists
            preds = []
            for pm in re.finditer(r"\b((?:\w+::)*is[A-Z]\w*)\s*\(|handleIqRequests<([^>]*)>", body):
                if pm.group(1):
                    name = pm.group(1).split("::")[-1]
                    if name in ("isNull", "isEmpty", "isValid"):
                        continue
                    preds.append(name)
                else:
                    preds += ["requests<" + t.strip() + ">" for t in pm.group(2).split(",")]
            seen = []
            for q in preds:
                if q not in seen: seen.append(q)
            sites.append((cls, new_style, fn, seen))
    if len(sites) < 10:
        fail("fewer than 10 handleStanza definitions found in src/client")
    client = open(os.path.join(cdir, "QXmppClient.cpp"), encoding="utf8").read()
    m = re.search(r"case BasicExtensions:(.*?)break;", client, re.S)
    if not m:
        fail("QXmppClient constructor: `case BasicExtensions:` block")
    default = re.findall(r"addNewExtension<(\w+)>", m.group(1))
    if not default:
        fail("no addNewExtension<> in the BasicExtensions block")
    # pipeline anchors
    if not re.search(r"extension->handleStanza\(element, e2eeMetadata\)\s*\|\|\s*\(unencrypted && extension->handleStanza\(element\)\)", client):
        fail("StanzaPipeline::process: new-style handler, then old-style when unencrypted")
    inj = re.search(r"void QXmppClient::injectIq\(.*?\n}\n", client, re.S)
    if not inj or not re.search(r'iqType == u"get" \|\| iqType == u"set"', inj.group(0)) or "FeatureNotImplemented" not in inj.group(0):
        fail("QXmppClient::injectIq: error reply for get/set only")
    oc = open(os.path.join(cdir, "QXmppOutgoingClient.cpp"), encoding="utf8").read()
    hs = re.search(r"bool QXmppOutgoingClient::handleStanza\(.*?\n}\n", oc, re.S)
    if not hs or not re.search(r'type == u"result" \|\| type == u"error"', hs.group(0)) or \
       not re.search(r'type == u"get" \|\| type == u"set"', hs.group(0)) or "FeatureNotImplemented" not in hs.group(0):
        fail("QXmppOutgoingClient::handleStanza: iqReceived for result/error, error reply for get/set")
    if not re.search(r"streamAckManager\(\)\.handleStanza\(nodeRecv\)\s*\|\|\s*iqManager\(\)\.handleStanza\(nodeRecv\)", oc):
        fail("QXmppOutgoingClient::handleElement: ack manager, then IQ table, before the extensions")

    for fn, pat in REVIEWED_FUNCS:
        txt = open(os.path.join(cdir, fn), encoding="utf8", errors="replace").read()
        m = re.search(pat, txt)
        if not m:
            fail("reviewed function not found: %s in %s" % (pat, fn))
        name = re.sub(r"\\", "", pat).rstrip("(").split(" ")[-1] if "process" not in pat else "StanzaPipeline::process"
        hashes[name.split("(")[0]] = norm_hash(body_after(txt, m.end()))
    os.makedirs(os.path.dirname(HASHES), exist_ok=True)
    with open(HASHES, "w") as fh:
        json.dump(hashes, fh, indent=1, sort_keys=True)
    lines = []
    skipped = []
    pred_lines = []
    for cls, new_style, fn, preds in sites:
        if cls in NOT_EXTENSIONS:
            continue
        if cls in NOT_BUILT:
            skipped.append((cls, NOT_BUILT[cls]))
            continue
        row = ROWS.get(cls)
        lines.append('  ("%s", %s, %s)' % (cls, ("some .%s" % row) if row else "none", "true" if new_style else "false"))
        pred_lines.append('  ("%s", [%s])' % (cls, ", ".join('"%s"' % q for q in preds)))
    dflt = []
    for cls in default:
        row = ROWS.get(cls)
        dflt.append(("some .%s" % row) if row else "none")
    out = []
    out.append("import Qx.Model.C08Dispatch")
    out.append("/-! GENERATED by translators/iq_handlers.py from %s/src/client — do not edit. -/" % REPO)
    out.append("namespace Qx.C08.Generated")
    out.append("open Qx.C08")
    out.append("")
    out.append("/-- (class, model row, overrides the new-style handleStanza(el, e2eeMetadata)) for every")
    out.append("`bool X::handleStanza(` definition in src/client/*.cpp that is an extension of the built library -/")
    out.append("def handlerSites : List (String × Option Mgr × Bool) := [")
    out.append(",\n".join(lines))
    out.append("]")
    out.append("")
    out.append("/-- per handler class: the `isXyz(` predicates called in the body of its handleStanza and the IQ types given to")
    out.append("`handleIqRequests<…>`, in order of first appearance — what decides whether the handler claims a stanza -/")
    out.append("def handlerPredicates : List (String × List String) := [")
    out.append(",\n".join(pred_lines))
    out.append("]")
    out.append("")
    out.append("/-- `case BasicExtensions:` of the QXmppClient constructor, in order -/")
    out.append("def defaultExtensions : List (Option Mgr) := [" + ", ".join(dflt) + "]")
    out.append("")
    out.append("/-- handler classes present in the source but not in the built library (not modelled, not measured) -/")
    out.append("def notBuilt : List (String × String) := [" + ", ".join('("%s", "%s")' % s for s in skipped) + "]")
    out.append("")
    out.append("end Qx.C08.Generated")
    new = "\n".join(out) + "\n"
    old = open(OUT, encoding="utf8").read() if os.path.exists(OUT) else None
    if new != old:
        os.makedirs(os.path.dirname(OUT), exist_ok=True)
        with open(OUT, "w", encoding="utf8") as fh:
            fh.write(new)
    print("iq_handlers.py: %d handler sites (%d without a model row), %d skipped as not built; default set %s; "
          "isIqType sites %d, checkIqType sites %d, handleIqRequests sites %d" %
          (len(lines), sum(1 for l in lines if ", none," in l), len(skipped), default,
           counts["isIqType"], counts["checkIqType"], counts["handleIqRequests"]))
    return 0


if __name__ == "__main__":
    sys.exit(main())
