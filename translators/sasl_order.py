#!/usr/bin/env python3
"""C05 translator: SASL mechanism strength order and name tables -> lean/Qx/Generated/SaslOrder.lean

Reads from the working tree of the repository (VERIF_REPO, default /repo):
  src/base/QXmppSasl_p.h        alternative order of `struct SaslMechanism : std::variant<...>`,
                                enumerator order of SaslScramMechanism::Algorithm, IanaHashAlgorithm,
                                SaslHtMechanism::ChannelBindingType, member order of SaslHtMechanism,
                                presence of the defaulted operator<=> in every mechanism struct
  src/base/QXmppSasl.cpp        ianaHashAlgorithms string table, literals of SaslScramMechanism::fromString/toString,
                                SaslHtMechanism::fromString/toString, channelBindingTypeToString,
                                SaslMechanism::fromString/toString
  src/client/QXmppConfiguration.cpp   default of disabledSaslMechanisms
and writes plain Lean data (lists of strings).  Any anchor that is not found exactly as expected makes the
script exit non-zero (a lost anchor is a broken tie, never a pass).  Nothing is interpreted here: which
alternative is "stronger" is decided in Lean (Qx.Model.C05Sasl.rank) from the positions in these lists.

The harness and the library are built against Qt 5 (harness/build.sh), so `#if QT_VERSION >= QT_VERSION_CHECK(6, 0, 0)`
blocks are dropped and `#if QT_VERSION < QT_VERSION_CHECK(6, ...)` blocks kept; any other preprocessor condition
inside an anchor is an error.

Environment: VERIF_REPO (source tree), VERIF_GEN_OUT (output file, for scratch experiments).
"""
import os, re, sys

ROOT = os.path.dirname(os.path.dirname(os.path.abspath(__file__)))
REPO = os.environ.get("VERIF_REPO", "/repo")
OUT = os.environ.get("VERIF_GEN_OUT", os.path.join(ROOT, "lean", "Qx", "Generated", "SaslOrder.lean"))
QT_MAJOR = 5


def die(msg):
    sys.stderr.write("sasl_order.py: ANCHOR LOST: %s\n" % msg)
    sys.exit(3)


def read(rel):
    p = os.path.join(REPO, rel)
    if not os.path.exists(p):
        die("file %s does not exist" % p)
    return open(p, encoding="utf8").read()


def strip_comments(src):
    src = re.sub(r"/\*.*?\*/", lambda m: "\n" * m.group(0).count("\n"), src, flags=re.S)
    return re.sub(r"//[^\n]*", "", src)


def preprocess(block, where):
    """Resolve the Qt-version conditionals inside an anchored block for Qt 5."""
    out, keep = [], [True]
    for line in block.split("\n"):
        s = line.strip()
        if s.startswith("#"):
            m = re.match(r"#\s*if\s+QT_VERSION\s*(>=|<)\s*QT_VERSION_CHECK\(\s*(\d+)\s*,\s*\d+\s*,\s*\d+\s*\)\s*$", s)
            if m:
                ge, major = m.group(1) == ">=", int(m.group(2))
                if major != 6:
                    die("unexpected Qt version condition %r in %s" % (s, where))
                keep.append((QT_MAJOR >= major) if ge else (QT_MAJOR < major))
            elif re.match(r"#\s*else\s*$", s):
                if len(keep) < 2:
                    die("#else without #if in %s" % where)
                keep[-1] = not keep[-1]
            elif re.match(r"#\s*endif\s*$", s):
                if len(keep) < 2:
                    die("#endif without #if in %s" % where)
                keep.pop()
            else:
                die("unexpected preprocessor line %r in %s" % (s, where))
            continue
        if all(keep):
            out.append(line)
    if len(keep) != 1:
        die("unbalanced #if in %s" % where)
    return "\n".join(out)


def brace_block(src, start, where):
    """text between the '{' at/after `start` and its matching '}'"""
    i = src.find("{", start)
    if i < 0:
        die("no '{' after %s" % where)
    depth, j = 0, i
    while j < len(src):
        if src[j] == "{":
            depth += 1
        elif src[j] == "}":
            depth -= 1
            if depth == 0:
                return src[i + 1:j]
        j += 1
    die("unbalanced braces in %s" % where)


def find_one(pattern, src, where, flags=0):
    ms = list(re.finditer(pattern, src, flags))
    if len(ms) != 1:
        die("%s: expected exactly one match of /%s/, found %d" % (where, pattern, len(ms)))
    return ms[0]


def idents(body, where):
    body = preprocess(body, where)
    items = [x.strip() for x in body.replace("\n", " ").split(",")]
    items = [x for x in items if x]
    for x in items:
        if not re.match(r"^[A-Za-z_][A-Za-z0-9_]*$", x):
            die("%s: enumerator/alternative %r is not a plain identifier (explicit values are not supported)" % (where, x))
    if not items:
        die("%s: empty list" % where)
    if len(set(items)) != len(items):
        die("%s: duplicate entries %r" % (where, items))
    return items


def function_body(src, signature_re, where):
    m = find_one(signature_re, src, where)
    return preprocess(brace_block(src, m.end() - 1 if src[m.end() - 1] == "{" else m.end(), where), where)


def consumed(body, matches, where, allowed_rest=r""):
    """every non-blank piece of the function body must be covered by a recognised statement"""
    rest = body
    for m in sorted(matches, key=lambda m: -m.start()):
        rest = rest[:m.start()] + rest[m.end():]
    rest = re.sub(allowed_rest, "", rest, flags=re.S) if allowed_rest else rest
    if rest.strip():
        die("%s: unrecognised code in anchored function: %r" % (where, " ".join(rest.split())[:200]))


# ------------------------------------------------------------------------------------------ header
hdr = strip_comments(read("src/base/QXmppSasl_p.h"))

m = find_one(r"struct\s+SaslMechanism\s*:\s*std::variant\s*<([^<>]*)>\s*\{", hdr, "SaslMechanism variant")
variant_order = idents(m.group(1), "SaslMechanism variant alternatives")

m = find_one(r"enum\s+class\s+IanaHashAlgorithm\s*\{", hdr, "enum class IanaHashAlgorithm")
iana_order = idents(brace_block(hdr, m.end() - 1, "IanaHashAlgorithm"), "IanaHashAlgorithm enumerators")

m = find_one(r"struct\s+SaslScramMechanism\s*\{", hdr, "struct SaslScramMechanism")
scram_body = brace_block(hdr, m.end() - 1, "SaslScramMechanism")
m = find_one(r"enum\s+Algorithm\s*\{", scram_body, "SaslScramMechanism::Algorithm")
scram_alg_order = idents(brace_block(scram_body, m.end() - 1, "Algorithm"), "SaslScramMechanism::Algorithm enumerators")
# the only data member must be the enum itself
sm = re.sub(r"enum\s+Algorithm\s*\{[^}]*\}\s*algorithm\s*;", "@MEMBER@", scram_body, flags=re.S)
if sm.count("@MEMBER@") != 1:
    die("SaslScramMechanism: `enum Algorithm {...} algorithm;` member not found")
scram_members = ["algorithm"]
for mm in re.finditer(r"^\s*(?!static|return|using|auto|enum)([A-Za-z_:][\w:<>]*)\s+(\w+)\s*(?:=[^;]*)?;", sm, re.M):
    scram_members.append(mm.group(2))
if scram_members != ["algorithm"]:
    die("SaslScramMechanism has data members %r, expected only `algorithm`" % scram_members)

m = find_one(r"struct\s+SaslHtMechanism\s*\{", hdr, "struct SaslHtMechanism")
ht_body = brace_block(hdr, m.end() - 1, "SaslHtMechanism")
m = find_one(r"enum\s+ChannelBindingType\s*\{", ht_body, "SaslHtMechanism::ChannelBindingType")
cb_order = idents(brace_block(ht_body, m.end() - 1, "ChannelBindingType"), "ChannelBindingType enumerators")
ht_wo_enum = re.sub(r"enum\s+ChannelBindingType\s*\{[^}]*\}\s*;", "", ht_body, flags=re.S)
ht_fields = []
for mm in re.finditer(r"^\s*(?!static|return|using|auto|enum)([A-Za-z_:][\w:<>]*)\s+(\w+)\s*(?:=[^;]*)?;", ht_wo_enum, re.M):
    ht_fields.append((mm.group(1), mm.group(2)))
if sorted(ht_fields) != sorted([("IanaHashAlgorithm", "hashAlgorithm"), ("ChannelBindingType", "channelBindingType")]):
    die("SaslHtMechanism data members are %r, expected hashAlgorithm and channelBindingType" % ht_fields)
ht_field_order = [f for _, f in ht_fields]

# every alternative (and the two structured ones) must order by the compiler-generated member-wise <=>
defaulted = []
for alt in variant_order:
    m = find_one(r"struct\s+%s\s*\{" % re.escape(alt), hdr, "struct " + alt)
    body = brace_block(hdr, m.end() - 1, alt)
    if not re.search(r"auto\s+operator\s*<=>\s*\(\s*const\s+%s\s*&\s*\)\s*const\s*=\s*default\s*;" % re.escape(alt), body):
        die("struct %s no longer has `auto operator<=>(const %s &) const = default;`" % (alt, alt))
    if re.search(r"operator\s*(==|<|>|<=|>=)\s*\(", body):
        die("struct %s declares a hand-written comparison operator" % alt)
    defaulted.append(alt)
sm_m = find_one(r"struct\s+SaslMechanism\s*:\s*std::variant\s*<[^<>]*>\s*\{", hdr, "SaslMechanism body")
sm_body = brace_block(hdr, sm_m.end() - 1, "SaslMechanism")
if re.search(r"operator\s*(<=>|==|<|>)", sm_body):
    die("struct SaslMechanism declares its own comparison operator (std::variant's is no longer used)")

# ------------------------------------------------------------------------------------------ QXmppSasl.cpp
cpp = strip_comments(read("src/base/QXmppSasl.cpp"))

m = find_one(r"constexpr\s+auto\s+ianaHashAlgorithms\s*=\s*to_array<QStringView>\(\{", cpp, "ianaHashAlgorithms table")
tbl = preprocess(brace_block(cpp, m.end() - 1, "ianaHashAlgorithms"), "ianaHashAlgorithms")
iana_names = re.findall(r'u"([^"\\]*)"', tbl)
if re.sub(r'u"[^"\\]*"\s*,?', "", tbl).strip():
    die("ianaHashAlgorithms: unrecognised table entries: %r" % tbl)
if not iana_names:
    die("ianaHashAlgorithms: empty")

LIT = r'u"([^"\\]*)"'

# SaslScramMechanism::fromString
body = function_body(cpp, r"std::optional<SaslScramMechanism>\s+SaslScramMechanism::fromString\s*\(\s*QStringView\s+str\s*\)\s*\{", "SaslScramMechanism::fromString")
ms = list(re.finditer(r"if\s*\(\s*str\s*==\s*" + LIT + r"\s*\)\s*\{\s*return\s*\{\s*\{\s*(\w+)\s*\}\s*\}\s*;\s*\}", body))
consumed(body, ms, "SaslScramMechanism::fromString", r"return\s*\{\s*\}\s*;")
scram_from = [(x.group(1), x.group(2)) for x in ms]
if not scram_from:
    die("SaslScramMechanism::fromString: no `if (str == u\"...\")` found")

# SaslScramMechanism::toString
body = function_body(cpp, r"QString\s+SaslScramMechanism::toString\s*\(\s*\)\s*const\s*\{", "SaslScramMechanism::toString")
m = find_one(r"switch\s*\(\s*algorithm\s*\)\s*\{", body, "SaslScramMechanism::toString switch")
sw = brace_block(body, m.end() - 1, "switch")
ms = list(re.finditer(r"case\s+(\w+)\s*:\s*return\s+" + LIT + r"_s\s*;", sw))
consumed(sw, ms, "SaslScramMechanism::toString")
scram_to = [(x.group(1), x.group(2)) for x in ms]

# SaslHtMechanism::fromString
body = function_body(cpp, r"std::optional<SaslHtMechanism>\s+SaslHtMechanism::fromString\s*\(\s*QStringView\s+string\s*\)\s*\{", "SaslHtMechanism::fromString")
m = find_one(r"static\s+constexpr\s+QStringView\s+prefix\s*=\s*" + LIT + r"\s*;", body, "SaslHtMechanism::fromString prefix")
ht_prefix = m.group(1)
find_one(r"if\s*\(\s*!\s*string\.startsWith\(\s*prefix\s*\)\s*\)\s*\{\s*return\s*\{\s*\}\s*;\s*\}", body, "SaslHtMechanism::fromString prefix test")
find_one(r"string\s*=\s*string\.mid\(\s*prefix\.size\(\)\s*\)\s*;", body, "SaslHtMechanism::fromString prefix strip")
find_one(r"for\s*\(\s*size_t\s+i\s*=\s*0\s*;\s*i\s*<\s*ianaHashAlgorithms\.size\(\)\s*;\s*\+\+i\s*\)", body, "SaslHtMechanism::fromString hash loop")
find_one(r"algorithm\s*=\s*IanaHashAlgorithm\(\s*i\s*\)\s*;", body, "SaslHtMechanism::fromString: enum value = table index")
ms = list(re.finditer(r"if\s*\(\s*string\s*==\s*" + LIT + r"\s*\)\s*\{\s*return\s+SaslHtMechanism\s*\{\s*\*algorithm\s*,\s*(\w+)\s*\}\s*;\s*\}", body))
ht_cb_from = [(x.group(1), x.group(2)) for x in ms]
if not ht_cb_from:
    die("SaslHtMechanism::fromString: no channel-binding suffix tests found")
# whether the hash loop stops at the first match is behaviour the model has to follow
loop_m = find_one(r"for\s*\(\s*size_t\s+i\s*=\s*0\s*;\s*i\s*<\s*ianaHashAlgorithms\.size\(\)\s*;\s*\+\+i\s*\)\s*\{", body, "hash loop body")
loop_body = brace_block(body, loop_m.end() - 1, "hash loop")
ht_loop_breaks = bool(re.search(r"\bbreak\s*;", loop_body))

# channelBindingTypeToString
body = function_body(cpp, r"static\s+QStringView\s+channelBindingTypeToString\s*\(\s*SaslHtMechanism::ChannelBindingType\s+t\s*\)\s*\{", "channelBindingTypeToString")
m = find_one(r"switch\s*\(\s*t\s*\)\s*\{", body, "channelBindingTypeToString switch")
sw = brace_block(body, m.end() - 1, "switch")
ms = list(re.finditer(r"case\s+SaslHtMechanism::(\w+)\s*:\s*return\s+" + LIT + r"\s*;", sw))
consumed(sw, ms, "channelBindingTypeToString")
cb_to = [(x.group(1), x.group(2)) for x in ms]

# SaslHtMechanism::toString
body = function_body(cpp, r"QString\s+SaslHtMechanism::toString\s*\(\s*\)\s*const\s*\{", "SaslHtMechanism::toString")
m = find_one(r"return\s+" + LIT + r"\s*\+\s*ianaHashAlgorithms\.at\(\s*size_t\(\s*hashAlgorithm\s*\)\s*\)\s*\+\s*u'([^'\\])'\s*\+\s*channelBindingTypeToString\(\s*channelBindingType\s*\)\s*;",
             body, "SaslHtMechanism::toString expression")
consumed(body, [m], "SaslHtMechanism::toString")
ht_to_prefix, ht_to_sep = m.group(1), m.group(2)

# SaslMechanism::fromString  (order of the tests matters: first match returns)
body = function_body(cpp, r"std::optional<SaslMechanism>\s+SaslMechanism::fromString\s*\(\s*QStringView\s+str\s*\)\s*\{", "SaslMechanism::fromString")
pat_prefix = r"if\s*\(\s*str\.startsWith\(\s*" + LIT + r"\s*\)\s*\)\s*\{\s*return\s+into<SaslMechanism>\(\s*(\w+)::fromString\(\s*str\s*\)\s*\)\s*;\s*\}"
pat_eq = r"if\s*\(\s*str\s*==\s*" + LIT + r"\s*\)\s*\{\s*return\s*\{\s*\{\s*(\w+)\(\)\s*\}\s*\}\s*;\s*\}"
ms = []
for x in re.finditer(pat_prefix, body):
    ms.append((x, "prefix"))
for x in re.finditer(pat_eq, body):
    ms.append((x, "eq"))
ms.sort(key=lambda p: p[0].start())
consumed(body, [x for x, _ in ms], "SaslMechanism::fromString", r"return\s*\{\s*\}\s*;")
mech_from = [(k, x.group(1), x.group(2)) for x, k in ms]
if not mech_from:
    die("SaslMechanism::fromString: no tests found")

# SaslMechanism::toString
body = function_body(cpp, r"QString\s+SaslMechanism::toString\s*\(\s*\)\s*const\s*\{", "SaslMechanism::toString")
mech_to_lit = [(x.group(1), x.group(2)) for x in re.finditer(r"\[\]\s*\(\s*(\w+)\s*\)\s*\{\s*return\s+" + LIT + r"_s\s*;\s*\}", body)]
mech_to_deleg = [x.group(1) for x in re.finditer(r"\[\]\s*\(\s*(\w+)\s+(\w+)\s*\)\s*\{\s*return\s+\2\.toString\(\)\s*;\s*\}", body)]
if sorted([a for a, _ in mech_to_lit] + mech_to_deleg) != sorted(variant_order):
    die("SaslMechanism::toString: visitor alternatives %r + %r do not cover the variant alternatives %r" % (mech_to_lit, mech_to_deleg, variant_order))

# ------------------------------------------------------------------------------------------ configuration default
cfg = strip_comments(read("src/client/QXmppConfiguration.cpp"))
m = find_one(r"QList<QString>\s+disabledSaslMechanisms\s*=\s*\{([^}]*)\}\s*;", cfg, "disabledSaslMechanisms default")
default_disabled = re.findall(LIT + r"_s", m.group(1))
if re.sub(LIT + r"_s\s*,?", "", m.group(1)).strip():
    die("disabledSaslMechanisms default: unrecognised initialiser %r" % m.group(1))
find_one(r"QString\s+saslAuthMechanism\s*;", cfg, "saslAuthMechanism default (empty)")

# ------------------------------------------------------------------------------------------ chooseMechanism skeleton (anchor presence only)
mgr = strip_comments(read("src/client/QXmppSaslManager.cpp"))
find_one(r"using\s+std::ranges::max\s*;", mgr, "QXmppSaslManager.cpp: `using std::ranges::max;`")
body = function_body(mgr, r"static\s+auto\s+chooseMechanism\s*\([^)]*\)\s*->\s*std::tuple<[^{]*\{", "chooseMechanism")
for pat, what in [(r"disabled\.contains\(\s*mechanism\s*\)", "disabled.contains(mechanism)"),
                  (r"views::transform\(\s*&SaslMechanism::fromString\s*\)", "transform(&SaslMechanism::fromString)"),
                  (r"&QXmppSaslClient::isMechanismAvailable", "isMechanismAvailable filter"),
                  (r"config\.saslAuthMechanism\(\)", "config.saslAuthMechanism()"),
                  (r"return\s*\{\s*max\(\s*mechanisms\s*\)\s*,", "return { max(mechanisms), ... }")]:
    find_one(pat, body, "chooseMechanism: " + what)


# ------------------------------------------------------------------------------------------ output
def s(x):
    for ch in x:
        if ch in '"\\' or ord(ch) < 32 or ord(ch) > 126:
            die("literal %r contains a character this translator does not escape" % x)
    return '"%s"' % x


def lst(xs):
    return "[" + ", ".join(s(x) for x in xs) + "]"


def pairs(ps):
    return "[" + ", ".join("(%s, %s)" % (s(a), s(b)) for a, b in ps) + "]"


def triples(ts):
    return "[" + ", ".join("(%s, %s, %s)" % (s(a), s(b), s(c)) for a, b, c in ts) + "]"


text = """/-
GENERATED by translators/sasl_order.py from the working tree of the C++ repository — do not edit.
Sources: src/base/QXmppSasl_p.h, src/base/QXmppSasl.cpp, src/client/QXmppConfiguration.cpp (Qt %d branch of #if blocks).
Plain data only; its meaning (which position is "stronger") is given in Qx/Model/C05Sasl.lean.
-/
namespace Qx.SaslOrder

/-- alternatives of `struct SaslMechanism : std::variant<...>` in declaration order (later = preferred by `max`) -/
def variantOrder : List String := %s

/-- enumerators of `SaslScramMechanism::Algorithm` in declaration order -/
def scramAlgOrder : List String := %s

/-- enumerators of `enum class IanaHashAlgorithm` in declaration order -/
def ianaHashOrder : List String := %s

/-- entries of the `ianaHashAlgorithms` string table (index = enum value used by `SaslHtMechanism::fromString`) -/
def ianaHashNames : List String := %s

/-- enumerators of `SaslHtMechanism::ChannelBindingType` in declaration order -/
def channelBindingOrder : List String := %s

/-- data members of `SaslHtMechanism` in declaration order (the defaulted `<=>` compares in this order) -/
def htFieldOrder : List String := %s

/-- mechanism structs whose ordering is the defaulted member-wise `operator<=>` -/
def defaultedOrdering : List String := %s

/-- `SaslScramMechanism::fromString`: (name, enumerator) in test order -/
def scramFromString : List (String × String) := %s

/-- `SaslScramMechanism::toString`: (enumerator, name) -/
def scramToString : List (String × String) := %s

/-- `SaslHtMechanism::fromString`: literal prefix -/
def htPrefix : String := %s

/-- `SaslHtMechanism::fromString`: (suffix, ChannelBindingType enumerator) in test order -/
def htCbFromString : List (String × String) := %s

/-- `SaslHtMechanism::fromString`: does the loop over the hash names stop at the first match? -/
def htHashLoopBreaks : Bool := %s

/-- `channelBindingTypeToString`: (enumerator, text) -/
def channelBindingToString : List (String × String) := %s

/-- `SaslHtMechanism::toString`: prefix and separator literals -/
def htToStringPrefix : String := %s
def htToStringSep : String := %s

/-- `SaslMechanism::fromString`: (kind, literal, alternative) in test order; kind "prefix" delegates to the
alternative's own `fromString`, kind "eq" is an exact comparison -/
def mechFromString : List (String × String × String) := %s

/-- `SaslMechanism::toString`: (alternative, name) for the alternatives with a literal name -/
def mechToString : List (String × String) := %s

/-- alternatives whose `toString` is delegated to the alternative's own `toString` -/
def mechToStringDelegated : List String := %s

/-- default value of `QXmppConfigurationPrivate::disabledSaslMechanisms` -/
def defaultDisabled : List String := %s

end Qx.SaslOrder
""" % (QT_MAJOR, lst(variant_order), lst(scram_alg_order), lst(iana_order), lst(iana_names), lst(cb_order), lst(ht_field_order),
       lst(defaulted), pairs(scram_from), pairs(scram_to), s(ht_prefix), pairs(ht_cb_from),
       "true" if ht_loop_breaks else "false", pairs(cb_to), s(ht_to_prefix), s(ht_to_sep),
       triples(mech_from), pairs(mech_to_lit), lst(mech_to_deleg), lst(default_disabled))

old = None
if os.path.exists(OUT):
    old = open(OUT, encoding="utf8").read()
if old != text:
    os.makedirs(os.path.dirname(OUT), exist_ok=True)
    tmp = OUT + ".tmp%d" % os.getpid()
    with open(tmp, "w", encoding="utf8") as fh:
        fh.write(text)
    os.replace(tmp, OUT)
    print("sasl_order.py: wrote %s (changed)" % OUT)
else:
    print("sasl_order.py: %s up to date" % OUT)
