#!/usr/bin/env python3
"""C01 translator: namespace URIs that qxmpp hands to QXmlStreamWriter::writeDefaultNamespace / writeNamespace
-> lean/Qx/Generated/NsConstants.lean

Why: Qt writes a namespace URI verbatim (no escaping; measured by harness/cxx/xmllayer.cpp).  The Lean model of the
writer (`renderAttrs`, Qx/Xml/Tree.lean) escapes every attribute value, `xmlns` included.  The two agree exactly when the
URI contains nothing `escAttr` would change.  This script (1) extracts every `ns_*` constant of
src/base/QXmppConstants_p.h and every string literal passed directly to the two calls, and (2) checks that EVERY call of
writeDefaultNamespace / writeNamespace in src/ has an argument that is built only from such constants — or is one of the
listed pass-through parameters of a helper, whose call sites are checked the same way.  A data-valued argument
(`d->type`, `element.namespaceURI()`, …) is an ANCHOR LOST error (exit 3): the tie is broken, never a pass.
`theorem ns_constants_ok` in Qx/Props/C01Xml.lean then proves, for the generated list, `escAttr v = v`.

Environment: VERIF_REPO (source tree, default /repo), VERIF_GEN_OUT (output file, for scratch experiments).
"""
import os, re, sys

ROOT = os.path.dirname(os.path.dirname(os.path.abspath(__file__)))
REPO = os.environ.get("VERIF_REPO", "/repo")
OUT = os.environ.get("VERIF_GEN_OUT", os.path.join(ROOT, "lean", "Qx", "Generated", "NsConstants.lean"))
CONSTANTS = "src/base/QXmppConstants_p.h"

# helper functions that forward one of their parameters to writeDefaultNamespace: (file, function name, index of the
# forwarded argument at the call sites (0-based), the expression inside the helper, number of arguments that selects the overload)
PASS_THROUGH = [
    ("src/base/QXmppUtils.cpp", "writeXmlTextElement", 2, "toString65(xmlns)", 4),
    ("src/base/QXmppUtils.cpp", "writeEmptyElement", 2, "toString65(xmlns)", 3),
    ("src/base/QXmppStreamFeatures.cpp", "writeFeature", 2, "toString65(tagNs)", 4),
    ("src/base/QXmppStreamFeatures.cpp", "writeBoolenFeature", 2, "toString65(xmlns)", 4),
    ("src/base/QXmppMessage.cpp", "serializeExtensions", 2, "baseNamespace", 3),
]
# aggregate-initialised structs whose field is written as a namespace: (file of toXml, expression, struct name, field index)
STRUCT_FIELDS = [("src/base/Stream.cpp", "toString65(xmlns)", "StreamOpen", 2)]
# the overriding/forwarding definitions themselves pass the parameter on unchanged
FORWARDED_PARAMS = {"baseNamespace", "xmlns", "tagNs"}


def die(msg):
    sys.stderr.write("ns_constants.py: ANCHOR LOST: %s\n" % msg)
    sys.exit(3)


def strip_comments(src):
    out, i, n = [], 0, len(src)
    while i < n:
        c = src[i]
        if c == '"':  # string literal: copy verbatim
            j = i + 1
            while j < n and src[j] != '"':
                j += 2 if src[j] == "\\" else 1
            out.append(src[i:j + 1]); i = j + 1
        elif src.startswith("//", i):
            while i < n and src[i] != "\n":
                i += 1
        elif src.startswith("/*", i):
            j = src.find("*/", i + 2)
            j = n if j < 0 else j + 2
            out.append("\n" * src[i:j].count("\n")); i = j
        else:
            out.append(c); i += 1
    return "".join(out)


def call_args(src, pos):
    """src[pos] is '(' ; returns (list of top-level argument strings, index after the closing paren)"""
    depth, i, n, cur, args = 0, pos, len(src), [], []
    while i < n:
        c = src[i]
        if c == '"':
            j = i + 1
            while j < n and src[j] != '"':
                j += 2 if src[j] == "\\" else 1
            cur.append(src[i:j + 1]); i = j + 1; continue
        if c in "([{":
            depth += 1
            if depth > 1: cur.append(c)
        elif c in ")]}":
            depth -= 1
            if depth == 0:
                a = "".join(cur).strip()
                if a or args: args.append(a)
                return args, i + 1
            cur.append(c)
        elif c == "," and depth == 1:
            args.append("".join(cur).strip()); cur = []
        else:
            cur.append(c)
        i += 1
    die("unbalanced parentheses")


def unescape_c(lit):
    if "\\" in lit:
        die("string literal with escape sequence used as a namespace: %r" % lit)
    return lit


def const_values(expr, consts, where):
    """values an argument expression can take if it is built from constants only; None otherwise"""
    e = expr.strip()
    m = re.fullmatch(r"(?:toString65|QString|QStringView)\s*\((.*)\)", e, re.S)
    if m: return const_values(m.group(1), consts, where)
    m = re.fullmatch(r"(.*)\.toString\(\)", e, re.S)
    if m: return const_values(m.group(1), consts, where)
    m = re.fullmatch(r"(?:QSL65|QStringLiteral|QLatin1String)\s*\(\s*\"([^\"]*)\"\s*\)", e)
    if m: return [unescape_c(m.group(1))]
    m = re.fullmatch(r"u?\"([^\"]*)\"(?:_s|_L1)?", e)
    if m: return [unescape_c(m.group(1))]
    if re.fullmatch(r"ns_\w+", e):
        if e not in consts: die("%s: %s is not a constant of %s" % (where, e, CONSTANTS))
        return [consts[e]]
    if "?" in e:  # cond ? a : b  (top level)
        depth, q, colon = 0, -1, -1
        for i, c in enumerate(e):
            if c in "([": depth += 1
            elif c in ")]": depth -= 1
            elif c == "?" and depth == 0 and q < 0: q = i
            elif c == ":" and depth == 0 and q >= 0 and colon < 0 and e[i - 1:i + 2].count(":") == 1: colon = i
        if q >= 0 and colon > q:
            a, b = const_values(e[q + 1:colon], consts, where), const_values(e[colon + 1:], consts, where)
            if a is not None and b is not None: return a + b
    return None


def main():
    p = os.path.join(REPO, CONSTANTS)
    if not os.path.exists(p): die("file %s does not exist" % p)
    consts = {}
    for m in re.finditer(r"inline\s+constexpr\s+(?:QStringView|auto)\s+(ns_\w+)\s*=\s*u\"([^\"]*)\"\s*;", strip_comments(open(p, encoding="utf8").read())):
        consts[m.group(1)] = unescape_c(m.group(2))
    if len(consts) < 100 or "ns_client" not in consts or "ns_stream" not in consts:
        die("expected > 100 ns_* constants incl. ns_client, ns_stream in %s, found %d" % (CONSTANTS, len(consts)))

    literals, ncalls, nhelper = set(), 0, 0
    pass_exprs = {(f, ex) for f, _, _, ex, _ in PASS_THROUGH} | {(f, ex) for f, ex, _, _ in STRUCT_FIELDS}
    seen_pass = set()
    files = []
    for dp, _, fs in os.walk(os.path.join(REPO, "src")):
        for f in sorted(fs):
            if f.endswith((".cpp", ".h")): files.append(os.path.join(dp, f))
    for path in sorted(files):
        rel = os.path.relpath(path, REPO)
        src = strip_comments(open(path, encoding="utf8", errors="replace").read())
        # (a) direct calls of the Qt primitives
        for m in re.finditer(r"\b(writeDefaultNamespace|writeNamespace)\s*\(", src):
            args, _ = call_args(src, m.end() - 1)
            line = src.count("\n", 0, m.start()) + 1
            where = "%s:%d" % (rel, line)
            if not args: die("%s: %s() without argument" % (where, m.group(1)))
            ncalls += 1
            vals = const_values(args[0], consts, where)
            if vals is not None:
                literals.update(v for v in vals if v not in consts.values())
                continue
            if (rel, args[0]) in pass_exprs:
                seen_pass.add((rel, args[0])); continue
            die("%s: %s(%s): the namespace is not a compile-time constant (data-valued namespaces must be written with "
                "writeAttribute, which escapes)" % (where, m.group(1), args[0]))
        # (b) call sites of the forwarding helpers
        for _, fn, idx, _, arity in PASS_THROUGH:
            for m in re.finditer(r"(?<![\w>.])(?:QXmpp::Private::|QXmppMessage::|stanza\.|message\.)?%s\s*\(" % fn, src):
                before = src[max(0, m.start() - 2):m.start()]
                if before.endswith("->") or before.endswith("."): continue           # QXmlStreamWriter::writeEmptyElement etc.
                args, _ = call_args(src, m.end() - 1)
                if len(args) != arity: continue                                       # other overload / default argument
                where = "%s:%d" % (rel, src.count("\n", 0, m.start()) + 1)
                a = args[idx]
                if re.match(r"(const\s+)?(QStringView|QString|QXmpp::SceMode)\b", a): continue   # a declaration, not a call
                if a in FORWARDED_PARAMS: continue                                     # forwarding override
                vals = const_values(a, consts, where)
                if vals is None:
                    die("%s: %s(…, %s, …): the namespace argument is not a compile-time constant" % (where, fn, a))
                nhelper += 1
                literals.update(v for v in vals if v not in consts.values())
    # aggregate initialisations  StreamOpen { to, from, ns }
    for path in sorted(files):
        rel = os.path.relpath(path, REPO)
        src = strip_comments(open(path, encoding="utf8", errors="replace").read())
        for _, _, st, idx in STRUCT_FIELDS:
            for m in re.finditer(r"(?<!struct )\b%s\s*\{" % st, src):
                args, _ = call_args(src, m.end() - 1)
                where = "%s:%d" % (rel, src.count("\n", 0, m.start()) + 1)
                if len(args) <= idx or const_values(args[idx], consts, where) is None:
                    die("%s: %s{…}: the namespace field is not a compile-time constant: %r" % (where, st, args))
                nhelper += 1
    # member-call form  obj.serializeExtensions(&writer, mode, ns)
    for path in sorted(files):
        rel = os.path.relpath(path, REPO)
        src = strip_comments(open(path, encoding="utf8", errors="replace").read())
        for m in re.finditer(r"(?:\.|->)serializeExtensions\s*\(", src):
            args, _ = call_args(src, m.end() - 1)
            if len(args) == 3:
                where = "%s:%d" % (rel, src.count("\n", 0, m.start()) + 1)
                if const_values(args[2], consts, where) is None and args[2] not in FORWARDED_PARAMS:
                    die("%s: serializeExtensions(…, %s): the namespace argument is not a compile-time constant" % (where, args[2]))
                nhelper += 1
    missing = pass_exprs - seen_pass
    if missing: die("forwarding helpers not found any more: %s" % sorted(missing))
    if ncalls < 50: die("only %d namespace writer calls found in src/ (expected > 50)" % ncalls)

    def lean_str(s):
        if any(ord(c) < 0x20 or c in '"\\' for c in s):
            return '"' + "".join("\\x%02x" % ord(c) if ord(c) < 0x20 else ("\\" + c if c in '"\\' else c) for c in s) + '"'
        return '"' + s + '"'
    names = sorted(consts)
    lits = sorted(literals)
    with open(OUT, "w", encoding="utf8") as f:
        f.write("/-\nGENERATED by translators/ns_constants.py from %s and every writeDefaultNamespace / writeNamespace call in src/.\n"
                "Do not edit: rewritten by every check run.  Plain data only.\n-/\nnamespace Qx.Generated.Ns\n\n" % CONSTANTS)
        f.write("/-- every `ns_*` constant (name, value) -/\ndef constants : List (String × String) := [\n")
        f.write(",\n".join("  (%s, %s)" % (lean_str(n), lean_str(consts[n])) for n in names))
        f.write("]\n\n/-- string literals passed directly to the namespace writer calls -/\ndef literals : List String := [")
        f.write(", ".join(lean_str(s) for s in lits))
        f.write("]\n\n/-- everything qxmpp can hand to `writeDefaultNamespace` / `writeNamespace` -/\n"
                "def allNamespaces : List String := constants.map (·.2) ++ literals\n\n")
        f.write("/-- calls of the two Qt primitives found / call sites of forwarding helpers checked -/\n"
                "def primitiveCalls : Nat := %d\ndef helperCallSites : Nat := %d\n\nend Qx.Generated.Ns\n" % (ncalls, nhelper))
    print("ns_constants.py: %d constants, %d literals, %d primitive calls, %d helper call sites -> %s" % (len(names), len(lits), ncalls, nhelper, OUT))


if __name__ == "__main__":
    main()
