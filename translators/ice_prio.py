#!/usr/bin/env python3
"""C15 translator: ICE candidate / pair priority constants of QXmppStun.cpp -> lean/Qx/Generated/IcePrio.lean

Reads from the working tree of the repository (VERIF_REPO, default /repo):
  src/base/QXmppStun.cpp
     static quint32 candidatePriority(const QXmppJingleCandidate &candidate, int localPref = 65535)
        switch (candidate.type()) { case ...HostType: typePref = 126; ... default: typePref = 0; }
        return (1 << 24) * typePref + (1 << 8) * localPref + (256 - candidate.component());
     quint64 CandidatePair::priority() const
        G = m_controlling ? local.priority() : remote.priority();  D = m_controlling ? remote.priority() : local.priority();
        return (quint64(1) << 32) * qMin(G, D) + 2 * qMax(G, D) + (G > D ? 1 : 0);
     the two call sites that fix the local preference / candidate type: QXmppUdpTransport::localCandidate
     (HostType, candidatePriority(candidate) with the default localPref) and the peer-reflexive priority computed in
     the QXmppIceComponent constructor.
Writes plain Lean data (numbers).  That these numbers are the RFC 5245 ones (126/110/100/0, 2^24, 2^8, 256, 2^32, 2) is
the theorem `candidate_priority_rfc` / `pair_priority_rfc` in Qx/Props/C15.lean, so a changed constant makes that theorem fail.

The *shape* of both return expressions is matched literally (whitespace-insensitive); if the expression is restructured the
script exits non-zero: a lost anchor is a broken tie, never a pass.

Environment: VERIF_REPO (source tree), VERIF_GEN_OUT (output file, for scratch experiments).
"""
import os, re, sys

ROOT = os.path.dirname(os.path.dirname(os.path.abspath(__file__)))
REPO = os.environ.get("VERIF_REPO", "/repo")
OUT = os.environ.get("VERIF_GEN_OUT", os.path.join(ROOT, "lean", "Qx", "Generated", "IcePrio.lean"))


def die(msg):
    sys.stderr.write("ice_prio.py: ANCHOR LOST: %s\n" % msg)
    sys.exit(3)


def read(rel):
    p = os.path.join(REPO, rel)
    if not os.path.exists(p):
        die("file %s does not exist" % p)
    return open(p, encoding="utf8").read()


def strip_comments(src):
    src = re.sub(r"/\*.*?\*/", lambda m: "\n" * m.group(0).count("\n"), src, flags=re.S)
    return re.sub(r"//[^\n]*", "", src)


def brace_block(src, start, where):
    i = src.find("{", start)
    if i < 0:
        die("no '{' after %s" % where)
    depth, j = 0, i
    while j < len(src):
        if src[j] == "{":
            depth += 1
        elif src[j] == "}":
            depth -= 1
            if depth == 0:
                return src[i + 1:j]
        j += 1
    die("unbalanced braces in %s" % where)


def find_one(pattern, src, where, flags=0):
    ms = list(re.finditer(pattern, src, flags))
    if len(ms) != 1:
        die("%s: expected exactly one match of /%s/, found %d" % (where, pattern, len(ms)))
    return ms[0]


def squash(s):
    return re.sub(r"\s+", "", s)


def main():
    src = strip_comments(read("src/base/QXmppStun.cpp"))

    # ---- candidatePriority
    m = find_one(r"static\s+quint32\s+candidatePriority\s*\(\s*const\s+QXmppJingleCandidate\s*&\s*candidate\s*,\s*int\s+localPref\s*=\s*(\d+)\s*\)\s*\{",
                 src, "candidatePriority signature (with default localPref)")
    default_local_pref = int(m.group(1))
    body = brace_block(src, m.end() - 1, "candidatePriority")
    sm = find_one(r"switch\s*\(\s*candidate\.type\(\)\s*\)\s*\{", body, "candidatePriority: switch (candidate.type())")
    sw = brace_block(body, sm.end() - 1, "candidatePriority switch")
    cases = {}
    rest = sw
    for cm in re.finditer(r"case\s+QXmppJingleCandidate::(\w+)\s*:\s*typePref\s*=\s*(\d+)\s*;\s*break\s*;", sw):
        if cm.group(1) in cases:
            die("candidatePriority: duplicate case %s" % cm.group(1))
        cases[cm.group(1)] = int(cm.group(2))
        rest = rest.replace(cm.group(0), "", 1)
    dm = find_one(r"default\s*:\s*typePref\s*=\s*(\d+)\s*;", sw, "candidatePriority: default case")
    rest = rest.replace(dm.group(0), "", 1)
    if rest.strip():
        die("candidatePriority: unrecognised code in the switch: %r" % " ".join(rest.split())[:200])
    default_pref = int(dm.group(1))
    for need in ("HostType", "PeerReflexiveType", "ServerReflexiveType"):
        if need not in cases:
            die("candidatePriority: no `case QXmppJingleCandidate::%s`" % need)
    extra = sorted(set(cases) - {"HostType", "PeerReflexiveType", "ServerReflexiveType", "RelayedType"})
    if extra:
        die("candidatePriority: unexpected candidate types %r" % extra)
    relayed = cases.get("RelayedType", default_pref)
    rm = find_one(r"return\s*([^;]*);", body, "candidatePriority: return expression")
    em = re.fullmatch(r"\(1<<(\d+)\)\*typePref\+\(1<<(\d+)\)\*localPref\+\((\d+)-candidate\.component\(\)\)", squash(rm.group(1)))
    if not em:
        die("candidatePriority: return expression %r is not `(1 << a) * typePref + (1 << b) * localPref + (c - candidate.component())`" % squash(rm.group(1)))
    type_shift, local_shift, comp_base = int(em.group(1)), int(em.group(2)), int(em.group(3))
    # nothing else in the function may touch typePref / the result
    leftover = body.replace(sm.group(0) + sw + "}", "", 1).replace(rm.group(0), "", 1)
    if squash(leftover) != "inttypePref;":
        die("candidatePriority: unrecognised statements %r" % " ".join(leftover.split())[:200])

    # ---- call sites that fix type / local preference
    lm = find_one(r"QXmppJingleCandidate\s+QXmppUdpTransport::localCandidate\s*\(\s*int\s+component\s*\)\s*const\s*\{", src, "QXmppUdpTransport::localCandidate")
    lbody = brace_block(src, lm.end() - 1, "QXmppUdpTransport::localCandidate")
    find_one(r"candidate\.setType\(\s*QXmppJingleCandidate::HostType\s*\)\s*;", lbody, "localCandidate: setType(HostType)")
    find_one(r"candidate\.setComponent\(\s*component\s*\)\s*;", lbody, "localCandidate: setComponent(component)")
    pm = find_one(r"candidate\.setPriority\(\s*candidatePriority\(\s*candidate\s*\)\s*\)\s*;", lbody, "localCandidate: setPriority(candidatePriority(candidate))")
    if lbody.find("setType") > pm.start() or lbody.find("setComponent") > pm.start():
        die("localCandidate: priority is computed before type/component are set")
    find_one(r"reflexive\.setType\(\s*QXmppJingleCandidate::PeerReflexiveType\s*\)\s*;\s*d->peerReflexivePriority\s*=\s*candidatePriority\(\s*reflexive\s*\)\s*;",
             src, "QXmppIceComponent ctor: peerReflexivePriority = candidatePriority(reflexive of PeerReflexiveType)")
    find_one(r"message\.setPriority\(\s*peerReflexivePriority\s*\)\s*;", src, "performCheck: message.setPriority(peerReflexivePriority)")

    # ---- CandidatePair::priority
    m = find_one(r"quint64\s+CandidatePair::priority\s*\(\s*\)\s*const\s*\{", src, "CandidatePair::priority")
    pbody = brace_block(src, m.end() - 1, "CandidatePair::priority")
    sq = squash(pbody)
    if "constquint32G=m_controlling?local.priority():remote.priority();" not in sq:
        die("CandidatePair::priority: `G = m_controlling ? local.priority() : remote.priority()` not found")
    if "constquint32D=m_controlling?remote.priority():local.priority();" not in sq:
        die("CandidatePair::priority: `D = m_controlling ? remote.priority() : local.priority()` not found")
    rm = find_one(r"return\s*([^;]*);", pbody, "CandidatePair::priority: return expression")
    em = re.fullmatch(r"\(quint64\(1\)<<(\d+)\)\*qMin\(G,D\)\+(\d+)\*qMax\(G,D\)\+\(G>D\?(\d+):(\d+)\)", squash(rm.group(1)))
    if not em:
        die("CandidatePair::priority: return expression %r is not `(quint64(1) << a) * qMin(G, D) + b * qMax(G, D) + (G > D ? c : d)`" % squash(rm.group(1)))
    pair_shift, pair_max_factor, tie_gt, tie_le = (int(em.group(i)) for i in (1, 2, 3, 4))
    # ordering of the check list: higher pair priority first
    find_one(r"static\s+bool\s+candidatePairPtrLessThan\s*\(\s*const\s+CandidatePair\s*\*\s*p1\s*,\s*const\s+CandidatePair\s*\*\s*p2\s*\)\s*\{\s*return\s+p1->priority\(\)\s*>\s*p2->priority\(\)\s*;\s*\}",
             src, "candidatePairPtrLessThan: p1->priority() > p2->priority()")

    text = """/-
GENERATED by translators/ice_prio.py from the working tree of the C++ repository — do not edit.
Source: src/base/QXmppStun.cpp (candidatePriority, CandidatePair::priority).  Plain numbers only; that they are the
RFC 5245 ones is proved in Qx/Props/C15.lean.
-/
namespace Qx.IcePrio

/-- `typePref` assigned by the switch in `candidatePriority` -/
def typePrefHost : Nat := %d
def typePrefPeerReflexive : Nat := %d
def typePrefServerReflexive : Nat := %d
/-- relayed candidates (the `default:` branch unless an explicit case exists) -/
def typePrefRelayed : Nat := %d
/-- default value of the `localPref` parameter (every call site uses the default) -/
def defaultLocalPref : Nat := %d
/-- `(1 << typeShift) * typePref + (1 << localShift) * localPref + (componentBase - component)` -/
def typeShift : Nat := %d
def localShift : Nat := %d
def componentBase : Nat := %d
/-- `(1 << pairShift) * min G D + pairMaxFactor * max G D + (if G > D then pairTieGt else pairTieLe)` -/
def pairShift : Nat := %d
def pairMaxFactor : Nat := %d
def pairTieGt : Nat := %d
def pairTieLe : Nat := %d

end Qx.IcePrio
""" % (cases["HostType"], cases["PeerReflexiveType"], cases["ServerReflexiveType"], relayed, default_local_pref,
       type_shift, local_shift, comp_base, pair_shift, pair_max_factor, tie_gt, tie_le)

    old = open(OUT, encoding="utf8").read() if os.path.exists(OUT) else None
    if old != text:
        os.makedirs(os.path.dirname(OUT), exist_ok=True)
        tmp = OUT + ".tmp%d" % os.getpid()
        with open(tmp, "w", encoding="utf8") as fh:
            fh.write(text)
        os.replace(tmp, OUT)
        print("ice_prio.py: wrote %s (changed)" % OUT)
    else:
        print("ice_prio.py: %s up to date" % OUT)


main()
