#!/usr/bin/env python3
"""C17 translator: QXmppMessage.cpp / QXmppStanza.cpp (+ QXmppGlobal.h, QXmppClient.cpp, QXmppOmemoManager_p.cpp call sites)
->  lean/Qx/Generated/SceTable.lean

Cuts `QXmppMessage::serializeExtensions` and `QXmppMessage::parseExtension` at their top-level
`if (sceMode & QXmpp::ScePublic)` / `if (sceMode & QXmpp::SceSensitive)` blocks and the unguarded tail,
extracts per block every top-level element emission (writer) and every recogniser (parser), joins them by the
`d->member` they read/assign, and writes one Lean `Row` per emitted element kind:

    name (the d-> member, ':tag' appended when one member has several element kinds), tags, namespaces,
    recogniser, parseGuard, writeGuard, wrapper (written by toXml / parsed by QXmppStanza::parse, i.e. outside
    serializeExtensions), multi (list-valued), unless (members whose presence suppresses this emission: `else if`),
    compiled (false for rows under `#ifdef BUILD_OMEMO` when the check build does not define it).

Also two lists: write order (= emission order of toXml) and parse order (= order of the recogniser chain).
Nothing about the *classification* of a row (routing/hint/id/fallback/payload) is decided here: that is a hand table
in lean/Qx/Model/C17Sce.lean with default `payload`.

Source root: $VERIF_REPO (default /repo).  Output: $VERIF_SCE_OUT (default <verif>/lean/Qx/Generated/SceTable.lean).
Exits non-zero (loudly) whenever the guard structure it relies on is not found.
"""
import os, re, sys

ROOT = os.path.dirname(os.path.dirname(os.path.abspath(__file__)))
REPO = os.environ.get("VERIF_REPO", "/repo")
OUT = os.environ.get("VERIF_SCE_OUT", os.path.join(ROOT, "lean", "Qx", "Generated", "SceTable.lean"))
BASE = os.path.join(REPO, "src", "base")


class Lost(Exception):
    pass


def lost(msg):
    raise Lost(msg)


# ----------------------------------------------------------------------------- lexical helpers
def strip_comments(src):
    """remove // and /* */ comments (string/char-literal aware), keep layout (newlines)"""
    out, i, n = [], 0, len(src)
    while i < n:
        c = src[i]
        if c == '"' or c == "'":
            q = c; j = i + 1
            while j < n and src[j] != q:
                j += 2 if src[j] == "\\" else 1
            out.append(src[i:j + 1]); i = j + 1
        elif src.startswith("//", i):
            while i < n and src[i] != "\n":
                i += 1
        elif src.startswith("/*", i):
            j = src.find("*/", i + 2)
            j = n if j < 0 else j + 2
            out.append("".join(ch if ch == "\n" else " " for ch in src[i:j])); i = j
        else:
            out.append(c); i += 1
    return "".join(out)


def blank_preprocessor(src):
    """blank #-lines; return (text, [(start, end, symbol)] ranges that sit under `#ifdef SYMBOL`)"""
    ranges, stack, out, pos = [], [], [], 0
    for line in src.split("\n"):
        s = line.strip()
        if s.startswith("#"):
            m = re.match(r"#\s*ifdef\s+(\w+)", s)
            if m:
                stack.append((m.group(1), pos))
            elif re.match(r"#\s*if", s):
                stack.append((None, pos))
            elif re.match(r"#\s*endif", s) and stack:
                sym, st = stack.pop()
                if sym:
                    ranges.append((st, pos, sym))
            out.append(" " * len(line))
        else:
            out.append(line)
        pos += len(line) + 1
    return "\n".join(out), ranges


def match_close(s, i, open_ch, close_ch):
    """s[i] == open_ch; index of the matching close (string aware)"""
    assert s[i] == open_ch, (s[i:i + 30], open_ch)
    depth, n = 0, len(s)
    while i < n:
        c = s[i]
        if c == '"' or c == "'":
            q = c; i += 1
            while i < n and s[i] != q:
                i += 2 if s[i] == "\\" else 1
        elif c == open_ch:
            depth += 1
        elif c == close_ch:
            depth -= 1
            if depth == 0:
                return i
        i += 1
    lost("unbalanced %s%s" % (open_ch, close_ch))


def function_body(src, signature_re, what):
    ms = list(re.finditer(signature_re, src))
    if len(ms) != 1:
        lost("anchor %s: expected exactly one definition, found %d" % (what, len(ms)))
    i = src.index("{", ms[0].end() - 1)
    j = match_close(src, i, "{", "}")
    return src[i + 1:j], i + 1


class Stmt:
    """kind: 'if' (branches = [(cond|None, body, bodyoff)]), 'for' (header, body), 'plain' (text)"""
    def __init__(self, kind, text, off):
        self.kind, self.text, self.off = kind, text, off
        self.branches, self.header, self.body, self.bodyoff = [], None, None, None


def skip_ws(s, i):
    while i < len(s) and s[i].isspace():
        i += 1
    return i


def read_simple(s, i):
    """a statement ending with ';' at nesting depth 0"""
    n, j = len(s), i
    while j < n:
        c = s[j]
        if c in "\"'":
            q = c; j += 1
            while j < n and s[j] != q:
                j += 2 if s[j] == "\\" else 1
        elif c == "(":
            j = match_close(s, j, "(", ")")
        elif c == "{":
            j = match_close(s, j, "{", "}")
        elif c == "[":
            j = match_close(s, j, "[", "]")
        elif c == ";":
            return j + 1
        j += 1
    lost("statement without ';': " + s[i:i + 60])


def read_body(s, i):
    """after an if/for header: `{...}` or a single statement; returns (body text, body offset, end index)"""
    i = skip_ws(s, i)
    if s[i] == "{":
        j = match_close(s, i, "{", "}")
        return s[i + 1:j], i + 1, j + 1
    st, e = read_stmt(s, i)
    return s[i:e], i, e


def read_stmt(s, i):
    m = re.match(r"(if|for|while)\s*\(", s[i:])
    if m:
        p = i + m.end() - 1
        q = match_close(s, p, "(", ")")
        header = s[p + 1:q]
        body, boff, e = read_body(s, q + 1)
        if m.group(1) != "if":
            st = Stmt("for", None, i)
            st.header, st.body, st.bodyoff = header, body, boff
            st.text = s[i:e]
            return st, e
        st = Stmt("if", None, i)
        st.branches.append((header, body, boff))
        while True:
            k = skip_ws(s, e)
            m2 = re.match(r"else\b", s[k:])
            if not m2:
                break
            k = skip_ws(s, k + 4)
            m3 = re.match(r"if\s*\(", s[k:])
            if m3:
                p = k + m3.end() - 1
                q = match_close(s, p, "(", ")")
                body, boff, e = read_body(s, q + 1)
                st.branches.append((s[p + 1:q], body, boff))
            else:
                body, boff, e = read_body(s, k)
                st.branches.append((None, body, boff))
                break
        st.text = s[i:e]
        return st, e
    e = read_simple(s, i)
    return Stmt("plain", s[i:e], i), e


def statements(s, base=0):
    out, i = [], skip_ws(s, 0)
    while i < len(s):
        st, e = read_stmt(s, i)
        st.off += base
        st.branches = [(c, b, o + base) for (c, b, o) in st.branches]
        if st.bodyoff is not None:
            st.bodyoff += base
        out.append(st)
        i = skip_ws(s, e)
    return out


# ----------------------------------------------------------------------------- source facts
def load(path):
    if not os.path.exists(path):
        lost("source file missing: " + path)
    return open(path, encoding="utf8").read()


def all_sources():
    srcs = {}
    for sub in ("base", "omemo", "client"):
        d = os.path.join(REPO, "src", sub)
        if not os.path.isdir(d):
            continue
        for f in sorted(os.listdir(d)):
            if f.endswith(".cpp") or f.endswith(".h"):
                srcs[os.path.join(d, f)] = None
    return srcs


_SRC_CACHE = {}


def src_of(path):
    if path not in _SRC_CACHE:
        _SRC_CACHE[path] = blank_preprocessor(strip_comments(load(path)))[0]
    return _SRC_CACHE[path]


def find_function(sig_re, what):
    hits = []
    for p in all_sources():
        if not p.endswith(".cpp"):
            continue
        t = src_of(p)
        for m in re.finditer(sig_re, t):
            i = t.find("{", m.end() - 1)
            semi = t.find(";", m.end() - 1)
            if i < 0 or (0 <= semi < i):
                continue
            hits.append(t[i + 1:match_close(t, i, "{", "}")])
    if len(hits) != 1:
        lost("helper %s: expected one definition, found %d" % (what, len(hits)))
    return hits[0]


def namespaces():
    t = src_of(os.path.join(BASE, "QXmppConstants_p.h"))
    ns = dict(re.findall(r"inline\s+constexpr\s+QStringView\s+(ns_\w+)\s*=\s*u\"([^\"]*)\"", t))
    if len(ns) < 50:
        lost("QXmppConstants_p.h: namespace constants not found")
    return ns


def string_tables(msg_src):
    tabs = {}
    for m in re.finditer(r"(\w+)\s*=\s*to_array<QStringView>\(\{(.*?)\}\);", msg_src, re.S):
        tabs[m.group(1)] = re.findall(r'u"([^"]*)"', m.group(2))
    for m in re.finditer(r"QVector<QStringView>\s+(\w+)\s*=\s*\{(.*?)\};", msg_src, re.S):
        tabs[m.group(1)] = re.findall(r'u"([^"]*)"', m.group(2))
    return tabs


def member_types(msg_src):
    body, _ = function_body(msg_src, r"class\s+QXmppMessagePrivate\s*:\s*public\s+QSharedData\s*\{", "QXmppMessagePrivate")
    types = {}
    for m in re.finditer(r"^\s*([\w:<>, ]+?)\s+(\w+)(?:\s*=\s*[^;]+)?;", body, re.M):
        types[m.group(2)] = m.group(1).strip()
    return types


def element_class(tp):
    """QVector<QXmppFoo> / std::optional<QXmppFoo> / QXmppFooList -> class whose toXml writes ONE element"""
    m = re.match(r"(?:QVector|QList|std::optional)<\s*([\w:]+)\s*>$", tp)
    if m:
        return m.group(1)
    if tp.endswith("List"):
        return tp[:-4]
    return tp


# ----------------------------------------------------------------------------- tag / namespace expressions
class Ctx:
    pass


def tags_of_expr(e, C):
    e = e.strip()
    m = re.fullmatch(r'QSL65\("([^"]+)"\)|u"([^"]+)"(?:_s)?|QStringLiteral\("([^"]+)"\)', e)
    if m:
        return [next(g for g in m.groups() if g)]
    m = re.fullmatch(r"toString65\((\w+)\.at\(.*\)\)", e)
    if m and m.group(1) in C.tables:
        return [t for t in C.tables[m.group(1)] if t]
    m = re.fullmatch(r"(\w+)\(d->\w+\)", e)      # jmiElementTypeToString(d->type)
    if m:
        body = find_function(r"QString\s+\w+::%s\s*\(" % m.group(1), m.group(1))
        tags = re.findall(r'return\s+u"([^"]+)"_s', body) or re.findall(r'return\s+QStringLiteral\("([^"]+)"\)', body)
        if tags:
            return tags
    lost("cannot resolve element name expression: " + e)


def ns_of_expr(e, C):
    e = e.strip()
    if e == "baseNamespace":
        return "BASE"
    m = re.fullmatch(r"toString65\((ns_\w+)\)|(ns_\w+)(?:\.toString\(\))?", e)
    if m:
        k = m.group(1) or m.group(2)
        if k not in C.ns:
            lost("unknown namespace constant " + k)
        return C.ns[k]
    m = re.fullmatch(r'QSL65\("([^"]+)"\)|QStringLiteral\("([^"]+)"\)', e)
    if m:
        return m.group(1) or m.group(2)
    lost("cannot resolve namespace expression: " + e)


EMIT_RE = re.compile(
    r"(?P<start>\bwriter->writeStartElement\((?P<stag>[^;]*?)\);)"
    r"|(?P<end>\bwriter->writeEndElement\(\))"
    r"|(?P<ns>\bwriter->writeDefaultNamespace\((?P<nsx>[^;]*?)\);)"
    r"|(?P<wtext>\bwriter->writeTextElement\((?P<wtag>[^,;]*?),)"
    r"|(?P<helper>(?P<obj>[\w>\-\.\*\(\)]+?)(?:->|\.)(?P<meth>toXml|toXmlElementFromChild)\(\s*(?:writer|xmlWriter)\s*\))"
    r"|(?P<free>\b(?P<fname>writeXmlTextElement|writeOptionalXmlTextElement)\(\s*(?:writer|xmlWriter)\s*,\s*(?P<ftag>[^,;]*?),)"
    r"|(?P<lam>(?<![\w>\.])(?P<lname>\w+)\((?P<ltag>QSL65\(\"[^\"]+\"\))\s*,)")


def helper_emission(cls, meth, C):
    body = find_function(r"void\s+%s::%s\s*\(\s*QXmlStreamWriter" % (re.escape(cls), meth), "%s::%s" % (cls, meth))
    ems = emissions(body, C, lambdas={}, loopvars={}, where="%s::%s" % (cls, meth))
    if len(ems) != 1:
        lost("%s::%s: expected exactly one top-level element, found %d" % (cls, meth, len(ems)))
    return ems[0]["tags"], ems[0]["ns"]


def emissions(text, C, lambdas, loopvars, where):
    """top-level (depth 0) elements written by a piece of code, in order"""
    text = text.replace("xmlWriter->", "writer->")
    out, depth, cur = [], 0, None
    for m in EMIT_RE.finditer(text):
        if m.group("start"):
            if depth == 0:
                cur = dict(tags=tags_of_expr(m.group("stag"), C) if m.group("stag").strip() != "tagName" else None, ns=None, pos=m.start())
                out.append(cur)
            depth += 1
        elif m.group("end"):
            depth -= 1
            if depth < 0:
                lost("%s: writeEndElement without start" % where)
            if depth == 0:
                cur = None
        elif m.group("ns"):
            if depth == 1 and cur is not None and cur["ns"] is None:
                cur["ns"] = ns_of_expr(m.group("nsx"), C)
        elif m.group("wtext"):
            if depth == 0:
                out.append(dict(tags=tags_of_expr(m.group("wtag"), C), ns="", pos=m.start()))
        elif m.group("free"):
            if depth == 0:
                out.append(dict(tags=tags_of_expr(m.group("ftag"), C), ns="", pos=m.start()))
        elif m.group("helper"):
            if depth == 0:
                obj = m.group("obj")
                mm = re.fullmatch(r"\(?\*?d->(\w+)\)?", obj)
                if mm:
                    member = mm.group(1)
                elif obj in loopvars:
                    member = loopvars[obj]
                elif obj in ("error()",):
                    continue
                else:
                    lost("%s: cannot resolve object of helper call `%s`" % (where, m.group(0)))
                if member not in C.types:
                    lost("%s: d->%s is not a member of QXmppMessagePrivate" % (where, member))
                tags, ns = helper_emission(element_class(C.types[member]), m.group("meth"), C)
                out.append(dict(tags=tags, ns=ns, pos=m.start(), member=member))
        elif m.group("lam"):
            if depth == 0 and m.group("lname") in lambdas:
                out.append(dict(tags=tags_of_expr(m.group("ltag"), C), ns=lambdas[m.group("lname")], pos=m.start()))
    if depth != 0:
        lost("%s: unbalanced writeStartElement/writeEndElement" % where)
    for e in out:
        if e["tags"] is None:
            lost("%s: element name is a parameter outside a known lambda" % where)
        if e["ns"] is None:
            e["ns"] = ""
    return out


ALIASES = [(r"\bhasHint\(", "hints"), (r"\baddHint\(", "hints"), (r"\bencryptionName\(\)", "encryptionName")]


def members_of(text):
    ms = re.findall(r"\bd->(\w+)", text)
    for rx, name in ALIASES:
        if re.search(rx, text):
            ms.append(name)
    seen, out = set(), []
    for m in ms:
        if m not in seen:
            seen.add(m); out.append(m)
    return out


def set_condition_member(cond):
    """`!d->x.isEmpty()` / `d->x` / `!d->x.isNull()`  ->  x   (the branch runs iff member x is set)"""
    m = re.fullmatch(r"\s*(?:!\s*d->(\w+)\.(?:isEmpty|isNull)\(\)|d->(\w+))\s*", cond)
    return (m.group(1) or m.group(2)) if m else None


# ----------------------------------------------------------------------------- guard blocks
def guard_blocks(body, base, what):
    """[(guard, text, offset)] for the public block, the sensitive block and the unguarded tail"""
    sts = statements(body, base)
    blocks, tail = [], []
    for st in sts:
        if st.kind == "if" and "sceMode" in (st.branches[0][0] or ""):
            cond = re.sub(r"\s+", " ", st.branches[0][0].strip())
            if len(st.branches) != 1:
                lost("%s: mode guard `%s` has an else branch" % (what, cond))
            if tail:
                inner = statements(st.branches[0][1], st.branches[0][2])
                if inner and all(is_unknown_loop(x) for x in inner):
                    tail.append(st); continue      # `if (<mode>) { for (… : extensions()) … }` after the tail: handled by the caller
                lost("%s: mode guard `%s` follows unguarded statements" % (what, cond))
            if cond == "sceMode & QXmpp::ScePublic":
                blocks.append(("pub", st.branches[0][1], st.branches[0][2]))
            elif cond == "sceMode & QXmpp::SceSensitive":
                blocks.append(("sens", st.branches[0][1], st.branches[0][2]))
            else:
                lost("%s: unknown top-level mode guard `%s`" % (what, cond))
        else:
            if "sceMode" in st.text:
                lost("%s: sceMode used outside a recognised guard: %s" % (what, st.text[:80]))
            tail.append(st)
    if [g for g, _, _ in blocks] != ["pub", "sens"]:
        lost("%s: expected one `sceMode & QXmpp::ScePublic` block followed by one `sceMode & QXmpp::SceSensitive` block, found %s"
             % (what, [g for g, _, _ in blocks]))
    return blocks, tail


PUBONLY_RE = re.compile(r"^\s*sceMode\s*==\s*QXmpp::ScePublic\s*&&\s*")


def split_pubonly(cond, guard, what):
    """`sceMode == QXmpp::ScePublic && rest` inside the public block -> ('pubOnly', rest)"""
    if cond is not None and "sceMode" in cond:
        m = PUBONLY_RE.match(cond)
        if not m or guard != "pub" or "sceMode" in cond[m.end():]:
            lost("%s: unrecognised nested mode condition `%s` in %s block" % (what, cond.strip(), guard))
        return "pubOnly", cond[m.end():]
    return guard, cond


# ----------------------------------------------------------------------------- writers
def writers_of_block(guard, sts, C, omemo_ranges, what):
    rows = []
    lambdas = {}
    for st in sts:
        if st.kind == "plain":
            m = re.match(r"\s*const\s+auto\s+(\w+)\s*=\s*\[", st.text)
            if m:   # local lambda that writes one element named by its first parameter
                inner = emissions(st.text.replace("writer->writeStartElement(tagName)", 'writer->writeStartElement(QSL65("__param__"))'),
                                  C, {}, {}, what + " lambda " + m.group(1))
                if len(inner) != 1 or inner[0]["tags"] != ["__param__"]:
                    lost("%s: lambda %s does not write exactly one element named by its parameter" % (what, m.group(1)))
                lambdas[m.group(1)] = inner[0]["ns"]
                continue
            if re.match(r"\s*return\b", st.text):
                continue
        if "sceMode" in st.text and not (st.kind == "if" and PUBONLY_RE.match(st.branches[0][0] or "")):
            lost("%s: unrecognised use of sceMode: %s" % (what, st.text[:80]))
        compiled = not any(a <= st.off < b for (a, b, _) in omemo_ranges)
        loopvars = {}
        multi = st.kind == "for"
        if multi:
            m = re.match(r"\s*const\s+auto\s*&\s*(\w+)\s*:\s*(?:std::as_const\()?d->(\w+)\)?\s*$", st.header)
            if m:
                loopvars[m.group(1)] = m.group(2)
        # if / else-if chain whose branches each write elements: one row group per branch, later ones suppressed by earlier
        groups = []
        if st.kind == "if" and len(st.branches) > 1:
            prior = []
            for cond, body, _ in st.branches:
                ems = emissions(body, C, lambdas, loopvars, what)
                groups.append((guard, (cond or "") + " " + body, ems, list(prior), cond))
                if cond is not None:
                    cm = set_condition_member(cond)
                    if cm is None:
                        lost("%s: cannot read `%s` as 'member is set' (needed for the else-branch)" % (what, cond))
                    prior.append(cm)
        elif st.kind == "if":
            g, cond = split_pubonly(st.branches[0][0], guard, what)
            groups.append((g, (cond or "") + " " + st.branches[0][1], emissions(st.branches[0][1], C, lambdas, loopvars, what), [], cond))
        else:
            groups.append((guard, st.text, emissions(st.body if st.kind == "for" else st.text, C, lambdas, loopvars, what), [], None))
        total = sum(len(g[2]) for g in groups)
        if total == 0:
            lost("%s: statement writes no element and is not understood: %s" % (what, re.sub(r"\s+", " ", st.text)[:100]))
        for g, text, ems, unless, cond in groups:
            mem = members_of((st.header or "") + " " + text) if st.kind == "for" else members_of(text)
            for e in ems:
                if "member" in e and e["member"] not in mem:
                    mem.append(e["member"])
            if not mem:
                lost("%s: no d-> member found for emission in: %s" % (what, re.sub(r"\s+", " ", text)[:100]))
            for e in ems:
                rows.append(dict(members=mem, primary=mem[0], tags=e["tags"], ns=e["ns"], guard=g, multi=multi,
                                 unless=unless, compiled=compiled, nsib=len(ems), off=st.off + e["pos"]))
    return rows


# ----------------------------------------------------------------------------- recognisers
def recogniser(cond, C, what):
    """cond text -> ('tagNs', tag, ns) | ('tag', tag) | ('ns', ns) | ('nsTags', ns, tags)"""
    c = re.sub(r"\s+", " ", cond.strip())
    m = re.fullmatch(r'checkElement\(element, u"([^"]+)", (ns_\w+)\)', c)
    if m:
        return ("tagNs", m.group(1), ns_of_expr(m.group(2), C))
    m = re.fullmatch(r'element\.tagName\(\) == u"([^"]+)"', c)
    if m:
        return ("tag", m.group(1))
    m = re.fullmatch(r"element\.namespaceURI\(\) == (ns_\w+)", c)
    if m:
        return ("ns", ns_of_expr(m.group(1), C))
    m = re.fullmatch(r"element\.namespaceURI\(\) == (ns_\w+) && (\w+)\.contains\(element\.tagName\(\)\)", c)
    if m and m.group(2) in C.tables:
        return ("nsTags", ns_of_expr(m.group(1), C), [t for t in C.tables[m.group(2)] if t])
    m = re.fullmatch(r"(\w+)::(is\w+)\(element\)", c)
    if m:
        body = find_function(r"bool\s+%s::%s\s*\(" % (m.group(1), m.group(2)), "%s::%s" % m.groups())
        b = re.sub(r"\s+", " ", body)
        nsm = re.search(r"element\.namespaceURI\(\) == (ns_\w+)", b)
        if not nsm:
            lost("%s::%s: no namespace test found" % m.groups())
        ns = ns_of_expr(nsm.group(1), C)
        tm = re.search(r'element\.tagName\(\) == u"([^"]+)"', b)
        fm = re.search(r"(\w+)\(element\.tagName\(\)\)\.has_value\(\)", b)
        if fm:
            fb = find_function(r"std::optional<[\w:]+>\s+%s::%s\s*\(" % (m.group(1), fm.group(1)), fm.group(1))
            tags = re.findall(r'==\s*u"([^"]+)"', fb)
            if not tags:
                lost("%s: no tag names found" % fm.group(1))
            return ("nsTags", ns, tags)
        if tm:
            return ("tagNs", tm.group(1), ns)
        lost("%s::%s: no tag test found" % m.groups())
    lost("%s: unrecognised recogniser condition `%s`" % (what, c))


def ends_with_return_true(body):
    return re.search(r"return\s+true\s*;\s*$", body.strip()) is not None


def is_multi(body):
    return re.search(r"d->\w+\s*<<|d->\w+\.(push_back|append)\(|\baddHint\(", body) is not None


def recognisers_of_block(guard, sts, C, omemo_ranges, what):
    leaves = []
    for st in sts:
        if st.kind == "plain" and re.fullmatch(r"\s*return\s+false\s*;\s*", st.text):
            continue
        if st.kind != "if" or len(st.branches) != 1:
            lost("%s: expected `if (<recogniser>) { ...; return true; }`, found: %s" % (what, re.sub(r"\s+", " ", st.text)[:100]))
        cond, body, boff = st.branches[0]
        g, cond = split_pubonly(cond, guard, what)
        if "sceMode" in body:
            lost("%s: sceMode used inside a recogniser body" % what)
        compiled = not any(a <= st.off < b for (a, b, _) in omemo_ranges)
        rec = recogniser(cond, C, what)
        inner = statements(body, boff)
        if rec[0] == "tag" and not ends_with_return_true(body):
            # `if (tagName == "x") { if (namespaceURI == ns_a) {...; return true;} ... }`  -> one leaf per namespace
            for ist in inner:
                if ist.kind != "if" or len(ist.branches) != 1:
                    lost("%s: unexpected statement under tag-only recogniser `%s`" % (what, rec[1]))
                r2 = recogniser(ist.branches[0][0], C, what)
                if r2[0] != "ns" or not ends_with_return_true(ist.branches[0][1]):
                    lost("%s: nested recogniser under `%s` is not `namespaceURI() == ns` ending in return true" % (what, rec[1]))
                leaves.append(dict(rec=("tagNs", rec[1], r2[1]), members=members_of(ist.branches[0][1]), guard=g,
                                   multi=is_multi(ist.branches[0][1]), compiled=compiled, off=ist.off))
            continue
        if not ends_with_return_true(body):
            lost("%s: recogniser `%s` does not end in `return true`" % (what, re.sub(r"\s+", " ", cond)[:80]))
        split = [ist for ist in inner if ist.kind == "if" and len(ist.branches) == 2 and ist.branches[1][0] is None
                 and re.fullmatch(r'\s*element\.tagName\(\)\s*==\s*u"[^"]+"\s*', ist.branches[0][0] or "")]
        if rec[0] == "ns" and split:
            # `if (ns) { if (tagName == "t") {A} else {B}; return true; }`  -> leaf (t, ns) for A, leaf (TABLE tags, ns) for B
            ist = split[0]
            t = re.search(r'u"([^"]+)"', ist.branches[0][0]).group(1)
            leaves.append(dict(rec=("tagNs", t, rec[1]), members=members_of(ist.branches[0][1]), guard=g,
                               multi=is_multi(ist.branches[0][1]), compiled=compiled, off=ist.off))
            b = ist.branches[1][1]
            tm = re.search(r"enumFromString<\w+>\((\w+),\s*element\.tagName\(\)\)", b)
            if not tm or tm.group(1) not in C.tables:
                lost("%s: else-branch under namespace recogniser has no enumFromString<T>(TABLE, element.tagName())" % what)
            leaves.append(dict(rec=("nsTags", rec[1], [x for x in C.tables[tm.group(1)] if x and x != t]), members=members_of(b), guard=g,
                               multi=is_multi(b), compiled=compiled, off=ist.branches[1][2]))
            continue
        leaves.append(dict(rec=rec, members=members_of(body), guard=g, multi=is_multi(body), compiled=compiled, off=st.off))
    return leaves


def accepts(rec, tag, ns):
    if rec[0] == "tagNs":
        return tag == rec[1] and (ns == rec[2])
    if rec[0] == "tag":
        return tag == rec[1]
    if rec[0] == "ns":
        return ns == rec[1]
    if rec[0] == "nsTags":
        return ns == rec[1] and tag in rec[2]
    return False



ALL_MODES = ("all", "pub", "sens")
UNKNOWN_LOOP_RE = re.compile(r":\s*(?:std::as_const\()?(?:d->extensions|extensions\(\))\)?\s*$")


def modes_of_cond(cond, what):
    """a pure mode condition -> the set of modes in which it holds"""
    c = re.sub(r"\s+", " ", cond.strip())
    m = re.fullmatch(r"sceMode & QXmpp::(ScePublic|SceSensitive)", c)
    if m:
        return {"all", "pub" if m.group(1) == "ScePublic" else "sens"}
    m = re.fullmatch(r"sceMode == QXmpp::(SceAll|ScePublic|SceSensitive)", c)
    if m:
        return {{"SceAll": "all", "ScePublic": "pub", "SceSensitive": "sens"}[m.group(1)]}
    lost("%s: `%s` is not a pure mode condition" % (what, c))


def is_unknown_loop(st):
    return st.kind == "for" and UNKNOWN_LOOP_RE.search(st.header) is not None and re.search(r"\.toXml\(\s*(?:writer|xmlWriter)\s*\)", st.body) is not None


def take_unknown_loops(sts, outer_modes, what):
    """remove the loop(s) writing the unknown extensions (bare, or wrapped in a pure mode `if`) from a statement list;
    returns (remaining statements, [set of modes in which each loop runs])"""
    rest, found = [], []
    for st in sts:
        if is_unknown_loop(st):
            found.append(set(outer_modes)); continue
        if st.kind == "if" and len(st.branches) == 1 and "sceMode" in (st.branches[0][0] or ""):
            inner = statements(st.branches[0][1], st.branches[0][2])
            if inner and all(is_unknown_loop(x) for x in inner):
                ms = modes_of_cond(st.branches[0][0], what) & set(outer_modes)
                found += [set(ms) for _ in inner]; continue
        rest.append(st)
    return rest, found

# ----------------------------------------------------------------------------- main
def lean_str(s):
    return '"' + s.replace("\\", "\\\\").replace('"', '\\"') + '"'


def lean_list(xs):
    return "[" + ", ".join(lean_str(x) for x in xs) + "]"


def lean_recog(r):
    if r is None:
        return ".never"
    if r[0] == "tagNs":
        return ".tagNs %s %s" % (lean_str(r[1]), lean_str(r[2]))
    if r[0] == "tag":
        return ".tag %s" % lean_str(r[1])
    if r[0] == "ns":
        return ".ns %s" % lean_str(r[1])
    return ".nsTags %s %s" % (lean_str(r[1]), lean_list(r[2]))


def ident(name):
    return "r_" + re.sub(r"\W", "_", name)


def translate():
    C = Ctx()
    msg_path = os.path.join(BASE, "QXmppMessage.cpp")
    raw = strip_comments(load(msg_path))
    msg, ifdefs = blank_preprocessor(raw)
    omemo_built = False
    cache = os.path.join(ROOT, ".build", "repo-rel", "CMakeCache.txt")
    if os.path.exists(cache):
        omemo_built = re.search(r"^BUILD_OMEMO:BOOL=(ON|1|TRUE)\s*$", open(cache).read(), re.M) is not None
    omemo_ranges = [] if omemo_built else [r for r in ifdefs if r[2] == "BUILD_OMEMO"]
    C.ns = namespaces()
    C.tables = string_tables(msg)
    C.types = member_types(msg)
    for t in ("HINT_TYPES", "CHAT_STATES", "MARKER_TYPES"):
        if t not in C.tables:
            lost("string table %s not found in QXmppMessage.cpp" % t)

    # ---- serializeExtensions
    body, off = function_body(msg, r"void\s+QXmppMessage::serializeExtensions\s*\(", "QXmppMessage::serializeExtensions")
    blocks, tail = guard_blocks(body, off, "serializeExtensions")
    writers = []
    ser_unknown = []      # mode sets of loops over the unknown extensions inside serializeExtensions
    for g, text, boff in blocks:
        sts, found = take_unknown_loops(statements(text, boff), {"pub": ("all", "pub"), "sens": ("all", "sens")}[g], "serializeExtensions[%s]" % g)
        ser_unknown += found
        writers += writers_of_block(g, sts, C, omemo_ranges, "serializeExtensions[%s]" % g)
    tail, found = take_unknown_loops(tail, ALL_MODES, "serializeExtensions[tail]")
    ser_unknown += found
    tw = writers_of_block("both", tail, C, omemo_ranges, "serializeExtensions[tail]")
    if not tw:
        lost("serializeExtensions: unguarded tail writes nothing (fallback markers expected)")
    writers += tw
    for w in writers:
        w["wrapper"] = False

    # ---- toXml(writer, sceMode): what surrounds serializeExtensions
    body, off = function_body(msg, r"void\s+QXmppMessage::toXml\s*\(\s*QXmlStreamWriter\s*\*\s*writer\s*,\s*QXmpp::SceMode\s+sceMode\s*\)\s*const",
                              "QXmppMessage::toXml(writer, sceMode)")
    flat = re.sub(r"\s+", " ", body)
    m = re.search(r"serializeExtensions\(writer, sceMode\);", flat)
    if not m:
        lost("toXml: call `serializeExtensions(writer, sceMode)` not found")
    before, after = flat[:m.start()], flat[m.end():]
    error_written = "both" if re.search(r"error\(\)\.toXml\(writer\);", before) else "none"
    m = re.search(r"QXmppStanza::extensionsToXml\(writer(, sceMode)?\);", after)
    if not m:
        lost("toXml: call `QXmppStanza::extensionsToXml(writer[, sceMode])` not found after serializeExtensions")
    passes_mode = m.group(1) is not None
    if "sceMode" in before or "sceMode" in after.replace(m.group(0), ""):
        lost("toXml: sceMode used in an unrecognised way")
    st_src = src_of(os.path.join(BASE, "QXmppStanza.cpp"))
    hdr = src_of(os.path.join(BASE, "QXmppStanza.h"))
    dm = re.search(r"void\s+extensionsToXml\(QXmlStreamWriter \*\w*,\s*QXmpp::SceMode(?:\s+\w+)?\s*=\s*QXmpp::(\w+)\)", hdr)
    if not dm:
        lost("QXmppStanza.h: declaration of extensionsToXml with default mode not found")
    default_mode = dm.group(1)
    ebody, eoff = function_body(st_src, r"void\s+QXmppStanza::extensionsToXml\s*\(", "QXmppStanza::extensionsToXml")
    ests = statements(ebody, eoff)
    wrappers, unknown_written = [], None
    ests, tail_unknown = take_unknown_loops(ests, ALL_MODES, "extensionsToXml")
    if len(tail_unknown) > 1:
        lost("extensionsToXml: unknown extensions written more than once")
    for st in ests:
        if st.kind == "if":
            cond = re.sub(r"\s+", " ", st.branches[0][0])
            gm = re.match(r"sceMode & QXmpp::(ScePublic|SceSensitive) && (.*)$", cond)
            if gm:
                declared = "pub" if gm.group(1) == "ScePublic" else "sens"
                rest = gm.group(2)
            elif "sceMode" in cond:
                lost("extensionsToXml: unrecognised mode guard `%s`" % cond)
            else:
                declared, rest = "both", cond
            # effective guard inside QXmppMessage::toXml: the declared one if the mode is forwarded, else evaluated at the default
            if passes_mode:
                eff = declared
            else:
                eff = {"SceAll": "both", "ScePublic": "both" if declared != "sens" else "none",
                       "SceSensitive": "both" if declared != "pub" else "none"}[default_mode] if declared != "both" else "both"
            ems = emissions(st.branches[0][1], C, {}, {}, "extensionsToXml")
            mem = [x for x in re.findall(r"\bd->(\w+)", rest + " " + st.branches[0][1])]
            if len(ems) != 1 or not mem:
                lost("extensionsToXml: guarded block does not write exactly one element")
            wrappers.append(dict(members=[mem[0]], primary=mem[0], tags=ems[0]["tags"], ns=ems[0]["ns"], guard=eff, declared=declared,
                                 multi=False, unless=[], compiled=True, nsib=1, wrapper=True, off=10 ** 9 + st.off))
        else:
            lost("extensionsToXml: unexpected statement: " + re.sub(r"\s+", " ", st.text)[:80])
    # where the unknown extensions (QXmppStanza::extensions()) are written: per toXml mode and in the envelope content
    tail_modes = set()
    if tail_unknown:
        tail_modes = set(tail_unknown[0]) if passes_mode else (set(ALL_MODES) if {"SceAll": "all", "ScePublic": "pub", "SceSensitive": "sens"}[default_mode] in tail_unknown[0] else set())
    if len(ser_unknown) > 1:
        lost("serializeExtensions: unknown extensions written more than once")
    ser_modes = set(ser_unknown[0]) if ser_unknown else set()
    if tail_modes & ser_modes:
        lost("unknown extensions written twice by toXml in mode(s) %s" % sorted(tail_modes & ser_modes))
    toxml_modes, in_content = tail_modes | ser_modes, "sens" in ser_modes
    if not toxml_modes:
        lost("no writer of the unknown extensions (QXmppStanza::extensions()) found in toXml / serializeExtensions")
    key = (tuple(m for m in ALL_MODES if m in toxml_modes), in_content)
    placement = {(("all", "pub", "sens"), False): ("both", True),      # toXml writes them in every mode, the envelope never has them
                 (("all", "sens"), True): ("sens", False),             # sensitive, also through serializeExtensions
                 (("all", "sens"), False): ("sens", True),             # sensitive for toXml, but missing from the envelope content
                 (("all", "pub"), False): ("pub", True)}.get(key)
    if placement is None:
        lost("unknown extensions: unsupported combination toXml modes %s, in envelope content: %s" % key)
    unknown_written = placement[0]
    ext_row = dict(name="extensions", primary="extensions", members=["extensions"], tags=[], ns="", guard=placement[0], wrapper=placement[1],
                   multi=True, unless=[], compiled=True, off=3 * 10 ** 9, catchAll=True)
    if not wrappers:
        lost("extensionsToXml: extended addresses block not found")

    # ---- parseExtension
    body, off = function_body(msg, r"bool\s+QXmppMessage::parseExtension\s*\(", "QXmppMessage::parseExtension")
    blocks, tail = guard_blocks(body, off, "parseExtension")
    leaves = []
    for g, text, boff in blocks:
        leaves += recognisers_of_block(g, statements(text, boff), C, omemo_ranges, "parseExtension[%s]" % g)
    tl = recognisers_of_block("both", tail, C, omemo_ranges, "parseExtension[tail]")
    if not tl:
        lost("parseExtension: unguarded tail recognises nothing (fallback markers expected)")
    leaves += tl

    # ---- parseExtensions / QXmppStanza::parse: elements handled outside parseExtension, in every mode
    body, _ = function_body(msg, r"void\s+QXmppMessage::parseExtensions\s*\(", "QXmppMessage::parseExtensions")
    flat = re.sub(r"\s+", " ", body)
    skip = re.search(r'if \(!checkElement\(childElement, u"(\w+)", (ns_\w+)\) && childElement\.tagName\(\) != u"error"\)', flat)
    if not re.search(r"if \(!parseExtension\(childElement, sceMode\)\) \{ unknownExtensions << QXmppElement\(childElement\); \}", flat) \
            or not re.search(r"setExtensions\(unknownExtensions\);", flat):
        lost("parseExtensions: collection of unrecognised children into setExtensions(unknownExtensions) not found")
    if not skip or "sceMode" in flat.replace("parseExtension(childElement, sceMode)", "").replace("const QXmpp::SceMode sceMode", ""):
        lost("parseExtensions: skip of <addresses/> and <error/> (handled by QXmppStanza::parse) not found, or sceMode used unexpectedly")
    pbody, _ = function_body(msg, r"void\s+QXmppMessage::parse\s*\(\s*const\s+QDomElement\s*&\s*element\s*,\s*QXmpp::SceMode\s+sceMode\s*\)",
                             "QXmppMessage::parse(element, sceMode)")
    pflat = re.sub(r"\s+", " ", pbody)
    if not re.search(r"QXmppStanza::parse\(element\);", pflat) or not re.search(r"parseExtensions\(element, sceMode\);", pflat):
        lost("QXmppMessage::parse(element, sceMode): QXmppStanza::parse + parseExtensions(element, sceMode) not found")
    sbody, _ = function_body(st_src, r"void\s+QXmppStanza::parse\s*\(\s*const\s+QDomElement", "QXmppStanza::parse")
    sflat = re.sub(r"\s+", " ", sbody)
    am = re.search(r'iterChildElements\(firstChildElement\(element, u"(\w+)"\), u"address"\)\) \{(.*?)\}', sflat)
    if not am or am.group(1) != skip.group(1) or "sceMode" in sflat:
        lost("QXmppStanza::parse: unguarded parsing of <addresses/> not found")
    wleaves = [dict(rec=("tagNs", skip.group(1), ns_of_expr(skip.group(2), C)), members=re.findall(r"\bd->(\w+)", am.group(2)),
                    guard="both", multi=True, compiled=True, off=-1, wrapper=True)]
    for lf in leaves:
        lf["wrapper"] = False
    leaves = wleaves + leaves

    # ---- join writers with recognisers by shared member, disambiguated by acceptance of the written element
    all_w = writers + wrappers
    prim_count = {}
    for w in all_w:
        prim_count[w["primary"]] = prim_count.get(w["primary"], 0) + 1
    names = set()
    for w in all_w:
        w["name"] = w["primary"] if prim_count[w["primary"]] == 1 else "%s:%s" % (w["primary"], w["tags"][0])
        if w["name"] in names:
            lost("duplicate row name " + w["name"])
        names.add(w["name"])
        cands = [l for l in leaves if set(l["members"]) & set(w["members"]) and l.get("wrapper", False) == w["wrapper"]]
        if len(cands) > 1:
            acc = [l for l in cands if all(accepts(l["rec"], t, ("" if w["ns"] == "BASE" else w["ns"])) for t in w["tags"])]
            if len(acc) >= 1:
                cands = acc
        if len(cands) > 1:
            cands = [l for l in cands if w["primary"] in l["members"]] or cands
        if len(cands) > 1:
            lost("writer of row %s matches several recognisers by member: %s" % (w["name"], [c["rec"] for c in cands]))
        w["leaf"] = cands[0] if cands else None
        if w["leaf"] is not None:
            w["leaf"].setdefault("rows", []).append(w["name"])
    orphan = [l for l in leaves if not l.get("rows")]
    # a recogniser without writer becomes a row that is never written (guard none): WFtable will name it
    extra_rows = []
    for l in orphan:
        nm = (l["members"][0] if l["members"] else "anonymous") + ":parse-only"
        extra_rows.append(dict(name=nm, tags=[], ns="", guard="none", leaf=l, multi=l["multi"], unless=[], compiled=l["compiled"],
                               wrapper=l.get("wrapper", False), members=l["members"], primary=nm, off=2 * 10 ** 9))
        l["rows"] = [nm]
    ext_row["leaf"] = dict(rec=None, guard="both", multi=True, rows=["extensions"])    # collected by parseExtensions in every mode
    if "extensions" in names:
        lost("a known row is already called `extensions`")
    rows = all_w + extra_rows + [ext_row]
    # unless: member names -> row names
    by_primary = {}
    for w in rows:
        by_primary.setdefault(w["primary"], []).append(w["name"])
    for w in rows:
        w["unless_rows"] = [n for u in w["unless"] for n in by_primary.get(u, [])]
        if w["unless"] and not w["unless_rows"]:
            lost("row %s is suppressed by member(s) %s that no row writes" % (w["name"], w["unless"]))
    if len(rows) < 20:
        lost("only %d rows extracted: the guard structure was not understood" % len(rows))

    parse_order = []
    for l in leaves:
        for n in l["rows"]:
            if n not in parse_order:
                parse_order.append(n)
    for w in rows:
        if w["name"] not in parse_order:
            parse_order.append(w["name"])      # rows nobody recognises: position irrelevant (recogniser .never)

    # ---- the mode predicate (QXmppGlobal.h) must be the one the model's `Guard.on` transcribes
    g = re.sub(r"\s+", " ", src_of(os.path.join(BASE, "QXmppGlobal.h")))
    if not re.search(r"enum SceMode : uint8_t \{ SceAll, ScePublic, SceSensitive, \};", g):
        lost("QXmppGlobal.h: enum SceMode { SceAll, ScePublic, SceSensitive } not found")
    if not re.search(r"inline constexpr bool operator&\(SceMode mode1, SceMode mode2\) \{ return mode1 == SceAll \|\| mode1 == mode2; \}", g):
        lost("QXmppGlobal.h: operator&(SceMode, SceMode) is not `mode1 == SceAll || mode1 == mode2` (model: Guard.on)")

    # ---- where the split is used: send path, SCE envelope content, receive path
    MODE = {"SceAll": "all", "ScePublic": "pub", "SceSensitive": "sens"}
    cl = src_of(os.path.join(REPO, "src", "client", "QXmppClient.cpp"))
    sbody, _ = function_body(cl, r"QXmppTask<QXmpp::SendResult>\s+QXmppClient::sendSensitive\s*\(", "QXmppClient::sendSensitive")
    calls = re.findall(r"->toXml\(\s*&writer\s*(?:,\s*(?:QXmpp::)?(\w+))?\s*\)", sbody)
    if len(calls) != 1 or calls[0] not in MODE:
        lost("QXmppClient::sendSensitive: expected exactly one `message->toXml(&writer, QXmpp::<mode>)`, found %s" % calls)
    send_mode = MODE[calls[0]]
    pm = re.search(r"message\.parse\(element,\s*e2eeExt->isEncrypted\(element\)\s*\?\s*(?:QXmpp::)?(\w+)\s*:\s*(?:QXmpp::)?(\w+)\)", cl)
    if not pm or pm.group(1) not in MODE:
        lost("QXmppClient.cpp: `message.parse(element, e2eeExt->isEncrypted(element) ? <mode> : <mode>)` not found")
    recv_outer = MODE[pm.group(1)]
    om = src_of(os.path.join(REPO, "src", "omemo", "QXmppOmemoManager_p.cpp"))
    em = re.findall(r"stanza\.serializeExtensions\(&writer,\s*(?:QXmpp::)?(\w+),\s*ns_client\.toString\(\)\)", om)
    rm = re.findall(r"stanza\.parseExtensions\(decryptionResult\.sceContent,\s*(?:QXmpp::)?(\w+)\)", om)
    if len(em) != 1 or len(rm) != 1 or em[0] not in MODE or rm[0] not in MODE:
        lost("QXmppOmemoManager_p.cpp: serializeExtensions(&writer, <mode>, ns_client) / parseExtensions(sceContent, <mode>) not found")
    env_mode, recv_content = MODE[em[0]], MODE[rm[0]]

    # ---- encrypted IQs (OMEMO): the outer <iq/> is built from scratch, the payload (or the error) goes into the envelope content
    omgr = src_of(os.path.join(REPO, "src", "omemo", "QXmppOmemoManager.cpp"))
    ibody, _ = function_body(omgr, r"QXmppTask<QXmppE2eeExtension::IqEncryptResult>\s+Manager::encryptIq\s*\(", "QXmppOmemoManager::encryptIq")
    if not re.search(r"auto\s+omemoIq\s*=\s*std::make_unique<QXmppOmemoIq>\(\)\s*;", ibody) or not re.search(r"interface\.finish\(std::move\(omemoIq\)\)", ibody):
        lost("QXmppOmemoManager::encryptIq: outer IQ is not a fresh QXmppOmemoIq handed to the result")
    iq_setters = re.findall(r"omemoIq->(\w+)\(", ibody)
    ebody2, _ = function_body(om, r"QByteArray\s+ManagerPrivate::createSceEnvelope\s*\(", "ManagerPrivate::createSceEnvelope")
    eflat = re.sub(r"\s+", " ", ebody2)
    iq_in_env = re.search(r"if \(auto err = stanza\.errorOptional\(\)\) \{ err->toXml\(&writer\); \} else \{ stanza\.toXmlElementFromChild\(&writer\); \}", eflat) is not None

    # ---- emit Lean
    L = []
    L.append("/- GENERATED by translators/sce_table.py from src/base/QXmppMessage.cpp, QXmppStanza.{h,cpp}, QXmppConstants_p.h,")
    L.append("   and the helper classes' toXml / isX functions.  Do not edit: rewritten by every check run. -/")
    L.append("import Qx.Model.C17Sce")
    L.append("namespace Qx.Generated.SceTable")
    L.append("open Qx.C17")
    L.append("")
    for w in rows:
        lf = w["leaf"]
        nss = [] if w.get("catchAll") else ["", C.ns["ns_client"]] if w["ns"] == "BASE" else [w["ns"]]
        L.append("/-- writer: %s block%s; recogniser: %s -/" % (
            w["guard"], " (toXml wrapper, declared %s, mode %s)" % (w.get("declared"), "forwarded" if passes_mode else "not forwarded, default " + default_mode) if w["wrapper"] else "",
            ("%s block" % lf["guard"]) if lf else "none"))
        L.append("def %s : Row :=" % ident(w["name"]))
        L.append("  { name := %s, tags := %s, nss := %s," % (lean_str(w["name"]), lean_list(w["tags"]), lean_list(nss)))
        L.append("    recog := %s," % lean_recog(lf["rec"] if lf else None))
        L.append("    parseGuard := .%s, writeGuard := .%s," % (lf["guard"] if lf else "none", w["guard"]))
        L.append("    wrapper := %s, multi := %s, suppressedBy := %s, compiled := %s, catchAll := %s }" % (
            "true" if w["wrapper"] else "false", "true" if (w["multi"] or (lf and lf["multi"])) else "false",
            lean_list(w["unless_rows"]), "true" if w["compiled"] else "false", "true" if w.get("catchAll") else "false"))
        L.append("")
    L.append("/-- rows in the order `QXmppMessage::toXml` emits them -/")
    L.append("def rows : List Row :=\n  [" + ",\n   ".join(ident(w["name"]) for w in rows) + "]")
    L.append("")
    L.append("/-- rows in the order of the recogniser chain (`QXmppStanza::parse`, then `parseExtension` top to bottom) -/")
    L.append("def parseOrder : List Row :=\n  [" + ",\n   ".join(ident(n) for n in parse_order) + "]")
    L.append("")
    L.append("def table : Table := { rows := rows, parse := parseOrder }")
    L.append("")
    L.append("/-- `error().toXml(writer)` in `QXmppMessage::toXml`, outside every mode guard -/")
    L.append("def errorWritten : Guard := .%s" % error_written)
    L.append("/-- unknown extensions (`QXmppStanza::extensions()`) are written by `toXml` in this guard -/")
    L.append("def unknownExtensionsWritten : Guard := .%s" % unknown_written)
    L.append("/-- does `QXmppMessage::toXml` forward its mode to `QXmppStanza::extensionsToXml`? -/")
    L.append("def stanzaTailModeForwarded : Bool := %s" % ("true" if passes_mode else "false"))
    L.append("/-- `QXmppClient::sendSensitive`: the encrypted message goes on the wire as `toXml(&writer, <this mode>)` -/")
    L.append("def sendPathMode : Mode := .%s" % send_mode)
    L.append("/-- OMEMO `createSceEnvelope`: `<content/>` = `serializeExtensions(&writer, <this mode>, ns_client)` -/")
    L.append("def envelopeContentMode : Mode := .%s" % env_mode)
    L.append("/-- `MessagePipeline::process`: an encrypted incoming message is first parsed in this mode -/")
    L.append("def receiveOuterMode : Mode := .%s" % recv_outer)
    L.append("/-- OMEMO `decryptMessage`: the decrypted content is read by `parseExtensions(sceContent, <this mode>)` -/")
    L.append("def receiveContentMode : Mode := .%s" % recv_content)
    L.append("/-- OMEMO `encryptIq`: setters called on the fresh outer `QXmppOmemoIq` (everything else of the IQ is only in the envelope) -/")
    L.append("def omemoIqOuterSetters : List String := %s" % lean_list(iq_setters))
    L.append("/-- OMEMO `createSceEnvelope` for an IQ: `<content/>` = the error if there is one, else `toXmlElementFromChild` (the payload) -/")
    L.append("def iqPayloadInEnvelope : Bool := %s" % ("true" if iq_in_env else "false"))
    L.append("")
    L.append("end Qx.Generated.SceTable")
    return "\n".join(L) + "\n", rows


def main():
    try:
        text, rows = translate()
    except Lost as e:
        print("sce_table.py: ANCHOR LOST in %s: %s" % (REPO, e), file=sys.stderr)
        return 1
    os.makedirs(os.path.dirname(OUT), exist_ok=True)
    old = open(OUT, encoding="utf8").read() if os.path.exists(OUT) else None
    if old != text:
        with open(OUT, "w", encoding="utf8") as fh:
            fh.write(text)
    print("sce_table.py: %d rows from %s -> %s%s" % (len(rows), REPO, OUT, "" if old != text else " (unchanged)"))
    for w in rows:
        lf = w["leaf"]
        print("  %-36s %-28s write=%-7s parse=%-7s" % (w["name"], ",".join(w["tags"])[:28], w["guard"], lf["guard"] if lf else "none"))
    return 0


if __name__ == "__main__":
    sys.exit(main())
