#!/usr/bin/env python3
"""Regenerates MANIFEST.json from props/*.py (one SPEC per claimed property)."""
import importlib.util, json, os, glob
ROOT = os.path.dirname(os.path.abspath(__file__))
ids = [json.loads(l)["id"] for l in open(os.path.join(ROOT, "properties.jsonl"))]
NOT_YET = json.load(open(os.path.join(ROOT, "not_applicable.json"))) if os.path.exists(os.path.join(ROOT, "not_applicable.json")) else {}
CLAIMED = set(json.load(open(os.path.join(ROOT, "claimed.json"))))   # integrated = reviewed + check passes at several seeds
checks, na = [], []
for pid in ids:
    p = os.path.join(ROOT, "props", pid + ".py")
    if pid not in CLAIMED or not os.path.exists(p):
        na.append({"property_id": pid, "reason": NOT_YET.get(pid, "no check built yet for this property (model/harness not finished); nothing is claimed")})
        continue
    sm = importlib.util.spec_from_file_location("p" + pid, p); m = importlib.util.module_from_spec(sm); sm.loader.exec_module(m)
    s = m.SPEC
    checks.append({
        "property_id": pid,
        "quick_cmd": "./check %s --tier quick" % pid,
        "thorough_cmd": "./check %s --tier thorough" % pid,
        "evidence_file": "/verif/evidence/%s.json" % pid,
        "replay_cmd_template": "./check %s --replay {path}" % pid,
        "engine": "lean4-proof+correspondence",
        "level_claimed": {"category": "proof", "text": s["level_text"], "design_ref": "DESIGN.md section " + s.get("design_ref", "5")},
        "level_note": s["level_note"],
        "technique": s.get("technique", "Lean 4 machine-checked proof + model/implementation correspondence"),
    })
man = {
    "version": 1,
    "setup_cmd": "./setup.sh",
    "hooks": {
        "guard": "QXMPP_VERIF",
        "enable": "checks configure their own out-of-tree build of /repo with -DCMAKE_CXX_FLAGS=-DQXMPP_VERIF (see vlib.build_repo); no guarded source hook is needed so far",
        "baseline_off_cmd": "cmake --build /repo/_build -j16 && (ctest --test-dir /repo/_build -j8 --timeout 900 || ctest --test-dir /repo/_build --rerun-failed --timeout 900)",
        "source_commits": [],
        "add_only": True,
    },
    "engines": [{
        "name": "lean4-proof+correspondence", "path": "/verif/check",
        "serves_properties": [c["property_id"] for c in checks],
        "kind_free_text": "Lean 4 theorems about executable models (lean/Qx), tied to /repo by translators (translators/*.py regenerate lean/Qx/Generated) and by correspondence harnesses (harness/cxx/*.cpp against the library rebuilt from /repo, diffed with compiled Lean drivers)",
    }],
    "checks": checks,
    "not_applicable": na,
    "notes": "See DESIGN.md. baseline_off_cmd re-runs failed tests once alone: tst_qxmppserver (recorded flaky) and tst_qxmpptransfermanager both listen on TCP port 12345 and clash when ctest schedules them in parallel; tst_qxmppiceconnection fails as in BASELINE.json. Every check rebuilds libQXmpp from /repo's working tree, re-checks the Lean theorems, audits axioms, runs the correspondence and the model-independent property oracle. known_findings.json lists genuine defects recorded or fixed.",
}
json.dump(man, open(os.path.join(ROOT, "MANIFEST.json"), "w"), indent=1)
print("checks:", [c["property_id"] for c in checks], "not_applicable:", [n["property_id"] for n in na])

# lean/Qx.lean imports every module so `lake build Qx` builds the whole library
mods = []
for dp, _, fs in os.walk(os.path.join(ROOT, "lean", "Qx")):
    for f in fs:
        if f.endswith(".lean"):
            rel = os.path.relpath(os.path.join(dp, f), os.path.join(ROOT, "lean"))[:-5]
            mods.append(rel.replace(os.sep, "."))
open(os.path.join(ROOT, "lean", "Qx.lean"), "w").write("".join("import %s\n" % m for m in sorted(mods)))
