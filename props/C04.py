SPEC = dict(
    id="C04",
    title="With TLS required, no credential or stanza is sent before the link is encrypted",
    lean_modules=["Qx.Props.C04"],
    props_files=["lean/Qx/Props/C04.lean"],
    drivers=["qxdriver_c04"],
    harnesses=[dict(name="negotiation", driver="qxdriver_c04", args=["--mode", "c04"])],
    exhaustive=True,
    rule="a real QXmppClient (default extensions) connects over loopback TCP to an in-process scripted QSslSocket server that "
         "speaks the model's alphabet one element per op and completes real TLS handshakes (self-signed key made with openssl at "
         "harness start). Scripts: every sequence up to length 3 (quick) / 4 (thorough) over a 16-symbol alphabet {header with/"
         "without version, features with/without starttls (+mechanisms, legacy auth, bind, SASL2), proceed with good/failed "
         "handshake, XEP-0078 field offer, iq get known/unknown, SASL success, bind result, see-other-host, message, a version IQ in a "
         "FOREIGN namespace, a white space keep-alive} for TLS "
         "required with and without legacy auth, one level less for TLS enabled/disabled; plus seeded random scripts of length "
         "3-12 over a 91-symbol alphabet (with `tick` = the keep-alive interval elapses; keep-alive on in half of the random configurations) (adds: iq get/set/result, message, presence in a foreign / the empty / the jabber:server namespace, "
         "<r/> and <a/>, SASL/SASL2/SM/bind answers at any time incl. before TLS, starttls <failure/>, half an element, stream error + "
         "</stream:stream> in ONE segment, see-other-host + close in one segment, TCP reset, header + features / header + stanza in ONE "
         "segment) driven by a protocol-conforming server that is derailed with probability 1/3 per step, "
         "with random configurations (TLS mode x SASL2/SASL/legacy on/off x PLAIN allowed x token/user-agent x XEP-0078 preference x CSI "
         "inactive). Every op gives one line comparing, between client and Lean model, the ordered list of classified sends (kind, "
         "link clear/encrypted/down at the instant of sending, secret marker) and signals (connected/disconnected/error/request "
         "done) plus state(), isConnected(), isAuthenticated(), encrypted. A script is non-trivial when it yields >= 2 distinct "
         "observations. Oracle (model independent): bytes the SERVER side read before its TLS handshake completed are split into "
         "elements and classified; with TLS required anything but stream open/starttls/stream close, or any occurrence of the "
         "password, its base64/SASL PLAIN form, its XEP-0078 digest or the token HMAC, is a failure keyed by element kind and by the "
         "cause visible in the script; features without starttls on a well-formed unencrypted connection must end in a closed "
         "connection and state()==Disconnected; the client-side log view and the server-side byte view must agree. Time is the op `tick`: keep-alive configured with an interval of one hour, `tick` delivers the timer event to every "
         "running periodic timer of the outgoing client. Stall scenarios (correspondence lines): the server stalls two intervals at EVERY point of "
         "every conforming flow (19 policies; TLS enabled and TLS required) and once inside the session, plus ticks around a see-other-host; "
         "a ping or <r/> on the clear link is an oracle failure (…:keepalive-timer). Live-socket reconnects: cfg ar=1, ops `closenotify` (TLS close_notify, TCP kept: the harness keeps a duplicate of the descriptor and reads the raw bytes afterwards) and `rtick` (fires QXmppClient's reconnect timer); oracle: an encrypted client socket must never become unencrypted on the same TCP connection (QSslSocket::isEncrypted() before/after every op), nothing but the allowed elements in the raw view. Three real-time scenarios (real interval 1 s, 1.4 s pass "
         "before TLS) are judged by the oracle only. NOT modelled/exercised: elements that follow, in the same read, an element that makes the client "
         "disconnect or start the TLS handshake (<proceed/> + more data in one segment).",
    trusted_base=[
        "Lean 4.33.0 kernel; axioms per theorem listed under coverage.theorems (subset of propext, Classical.choice, Quot.sound)",
        "hand-written model lean/Qx/Model/C04Negotiation.lean of QXmppOutgoingClient / XmppSocket / StreamAckManager / the slots of "
        "QXmppClient::connected, tied to the code by the correspondence run (exhaustive to the stated depth, sampled beyond)",
        "QSslSocket::isEncrypted() and Qt's TLS stack (the server side of the harness only sees plaintext the client really wrote in clear)",
        "one element per read: the scripted server waits for the client to become quiescent after every element",
    ],
    assumptions=[
        "scope (the only hypothesis of the theorem, application side, appWaits): the application itself does not send requests over an unencrypted link "
        "(nothing is assumed about when it calls connectToServer: since 6235115 a connect on a live socket aborts the old connection first)",
        "not modelled: every write on a TLS session the peer has half-closed raises the socket error again; reconnect back-off delays; <conflict/> "
        "inhibiting automatic reconnection; the registration manager beyond register-on-connect (password change, account deletion)",
        "QSslSocket::supportsSsl() is true in this environment: the localTls=false branch of the model is proved but not exercised on the implementation",
        "mechanism selection is abstracted to {PLAIN, SCRAM-SHA-1, HT-SHA-256-NONE, unsupported} (full ranking: C05); SM counters/acks: C09; framing: C03",
    ],
    level_text="14 theorems; no hypothesis about the server or the code. Under the APPLICATION-side hypothesis appWaits (the application itself calls "
               "sendIq/sendIqRetry only while the link is not clear; nothing about connects), for ALL scripts of any length (alphabet incl. foreign-namespace "
               "elements, <r/>, <a/>, white space, half elements, error+close in one read, time `tick`, TLS close_notify without TCP close, the reconnect "
               "timer, connectToServer in ANY state, a registration manager consuming the features): with TLS required nothing but stream open/starttls/"
               "stream close is ever written to an unencrypted wire (tls_required_no_secret_before_encrypted, no_secret_in_clear, "
               "no_keepalive_before_encryption, registration_never_in_clear); app_send_leaks_exactly_on_a_clear_link proves appWaits necessary; "
               "app_that_waits_for_session_is_safe (hypothesis appUsesSession) shows sending only while isConnected() satisfies it. No hypothesis: "
               "keepalive_only_in_session, iq_request_before_tls_is_rejected; configuration premise useNonSasl: versionless_header_gives_up. Stated for the "
               "situation they describe and under the application-side hypothesis pendingRetry = 0 (no request with a re-sending failure continuation outstanding; "
               "needed only because these claims count log entries on a closed socket, not proved necessary): pre_tls_element_is_rejected, "
               "tls_unavailable_disconnects, starttls_failure_disconnects, failed_handshake_disconnects, connect_starts_from_an_unconnected_socket (its last clause "
               "also redirect = false, which holds between any two steps). Former leaks (e0bbad9, fa0779c, e3d3c0f, 6235115) are replayed first.",
    level_note="Also proved: an application that sends only while isConnected() (and connects only while disconnected) satisfies the scope "
               "hypothesis automatically - with TLS required isConnected() implies an encrypted link; and a request sent on a connected "
               "unencrypted link does go out in clear (the scope hypothesis cannot be dropped). Proved about the hand-written model; the model-to-code tie is differential (exhaustive to depth 3/4 over a reduced "
               "alphabet, random beyond) plus a byte-level oracle on the server side of a real TLS-capable loopback connection.",
    design_ref="5.4",
    technique="Lean 4 invariant proof over all event scripts + model/implementation correspondence against a scripted TLS server",
)
