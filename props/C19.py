SPEC = dict(
    id="C19",
    title="A file transfer reported successful delivered exactly the bytes that were sent",
    lean_modules=["Qx.Props.C19"],
    props_files=["lean/Qx/Props/C19.lean"],
    drivers=["qxdriver_c19"],
    harnesses=[dict(name="ibb", asan=False, driver="qxdriver_c19")],
    exhaustive=True,
    rule="two real QXmppClients with real QXmppTransferManagers wired back to back in-process (sent stanzas captured from the "
         "logger, stamped with `from`, injected into the peer's handlePacketReceived); an interposer holds every XEP-0047 "
         "<open/>/<data/>/<close/> the sender emits and applies one channel op per line: deliver | drop (forged ack) | dup | swap | "
         "flip <bit> | eclose | wsid | wsender [other account | other resource of the same account | bare JID | case variant | look-alike "
         "domain] | lose (no answer at all) | inj <sender> <sid> <stanza incl. raw base64 text> | deliverws (base64 broken up by white space) | "
         "rinj <origin> <back> ok|<cond> (a response reaches the SENDING client: from the peer or somebody else, for its last or an "
         "older request) | pclose (the peer closes first) | run <n>. Offers with and without size attribute. The receiver writes into a QBuffer or into a device that takes <= k bytes per "
         "write (k in 1,7,1000), runs full after m bytes (then takes 0) or fails (-1) at byte m. Every line compares the receiver's replies "
         "(result / error condition), state, error, byte count and content digest of WHAT THE DEVICE HOLDS, the job's own byte counter, finished()/error() signal "
         "counts of both jobs, bytes read by the sender and the pending stanza (kind, wire seq, payload) with the Lean model. Cases: "
         "sizes {0,1,b-1,b,b+1,3b+2} x block sizes {1,2,16,(4096)} x contents {random, zero, 0xFF} x with/without announced hash: the "
         "honest run plus every single fault at every position (open, each block, close); EXHAUSTIVE op sequences to depth 3 (quick) / "
         "4 (thorough) over an 11-symbol alphabet on a 2-block file; every receiver device x sizes x block sizes x hash on/off, honest and "
         "with every fault; impersonation: at every position an <open/>/<data/>(expected seq, same length)/<close/> with the right sid "
         "from each of the 5 other-JID variants (oracle: the transfer must end as the honest one); block-size negotiation cases; seeded random sequences over the whole "
         "alphabet; 65537 blocks of size 1 first (corpus: 16-bit sequence wrap, fixed by 49cbe2e, must succeed), 65536 blocks, duplicate / lost block right after the wrap, two wraps in thorough; SOCKS5 receive path on 127.0.0.1 "
         "(real QXmppSocksServer/Client): honest in 1 and 2 chunks, truncated, altered, overlong, and the short-writing / full / failing "
         "devices. Oracles (property text only): success => the bytes the device HOLDS equal the bytes sent; no fault (foreign stanzas "
         "allowed) and a device that took everything => both succeed; one fault on a data block and the honest remainder delivered => "
         "receiver not success AND finished with FileCorruptError/ProtocolError (a job left in TransferState is a failure: key "
         "lost-stanza-hangs-forever); sending side: an error response of the peer ends the job with an error, foreign/stale responses "
         "do not move it. Offers without size, with every fault at every position; lost block with and without a following <close/>; "
         "<data/> text with invalid characters / misplaced padding / oversize block. SOCKS5 SENDING job (real outgoing job, harness = "
         "peer and XEP-0065 proxy over 127.0.0.1, one model line per scenario): honest direct, peer claims our host without having "
         "connected, unknown host used, peer goes away after 1 kB of 64 MB, honest via proxy, activation refused. accept(filePath), "
         "in-band and SOCKS5: destination path holding no / empty / shorter / same-length / longer previous file; the WHOLE file is read "
         "back inside finished() and compared in length and content with the sent bytes (oracle) and with the model's `disk` under the "
         "code's open mode (one `pathrun` line each); /dev/full, unwritable path. A sequence is "
         "non-trivial when it yields >= 2 distinct observations.",
    trusted_base=[
        "Lean 4.33.0 kernel; axioms per theorem listed under coverage.theorems (subset of propext, Classical.choice, Quot.sound)",
        "hand-written model lean/Qx/Model/C19Ibb.lean, tied to src/client/QXmppTransferManager.cpp and src/base/QXmppIbbIq.cpp by the "
        "correspondence run (the driver instantiates the hash parameter with the executable MD5 of lean/Qx/Crypto/Md5.lean, itself "
        "cross-checked against hashlib by tools/crypto_selftest.py)",
        "the reading of the property in lean/Qx/Props/C19.lean (channel alphabet, what counts as a fault on a data block)",
        "Qt: QBuffer read/write, QCryptographicHash(Md5), QByteArray base64, QDom parsing of the stanzas the clients emit; queued "
        "signal delivery (processEvents after each op)",
    ],
    assumptions=[
        "MD5 collision resistance is a named hypothesis (hcoll) of success_implies_identical_bytes / altered_block_never_success / "
        "socks_success_implies_identical_bytes, stated on exactly the two contents compared; never an axiom",
        "the block counters are `quint16 ibbSequence` on both sides (repo commit 49cbe2e) and the wire field is quint16: UInt16 "
        "everywhere in the model, wrapping from 65535 to 0",
        "success_implies_identical_bytes_by_sequence_partial and fault_never_success_partial are proved for files of at most 65536 "
        "blocks: beyond that a 16-bit sequence number cannot tell block n from block n+65536 (without a hash XEP-0047 itself cannot "
        "detect a replay exactly 65536 blocks later); the hash-based theorem is unconditional",
        "stream initiation (XEP-0095/0096) is performed by the real code but is outside the model: the model starts with <open/> in "
        "flight. SOCKS5: the receive path is modelled as a byte stream; the sending job only as an outcome table (ssendOutcome) over "
        "6 scenarios driven on the real code; the SOCKS5 wire handshake, candidate selection among several stream hosts, connection "
        "time-outs and transfers without announced size on the SOCKS5 sending side are not modelled (partial)",
        "accept(filePath): the model carries the previous content of the destination and the open mode as a constant "
        "(acceptOpenMode = truncate, tied by the pathrun lines); short writes / full disk on that path are oracle only",
        "the sending side needs a non-loopback interface for the direct SOCKS5 scenarios (QXmppIceComponent::discoverAddresses skips "
        "loopback); without one they are skipped and reported as socks_send_skipped in the statistics",
        "the IBB block size is not settable through the public API (fixed 4096): the harness writes QXmppTransferManagerPrivate::"
        "ibbBlockSize (first member; layout guarded at start-up and by the <open/> the real sender emits)",
        "`drop` = block lost while the sender is told it arrived (forged result); `lose` = block lost and nobody answers; `wsender` = "
        "block delivered under another JID so that the answer goes elsewhere; `timeout` = the in-band inactivity timer (repo commit "
        "72eab57, 120 s) of every job in TransferState fires (the harness finds the jobs' QTimer children and fires them; no hook in "
        "the library). After drop/swap/wsid/eclose/flip the receiving job finishes with FileCorruptError (the sender with "
        "ProtocolError when it got an error response); after lose/wsender both jobs end with ProtocolError once the interval has "
        "elapsed (single_fault_ends_in_error). A job still in StartState (the <open/> or its answer got lost) has no timer and "
        "waits for ever: not a block fault, outside the property's wording, reported to the coordinator",
        "a failed or short QIODevice::write ends the receiving job with FileAccessError (repo commit 675e9c1); counter and hash only "
        "see complete blocks; the model keeps device content (acc) and hash input (fed) apart and the theorems are about acc. "
        "accept(filePath): the job owns, flushes and closes the file (repo commit 38165f0) - the flush/close timing and write errors inside the QFile buffer are checked by the oracle only",
        "two open recorded findings: no hash announced -> altered block accepted; neither size nor hash announced -> truncated "
        "stream accepted. Both are 'nothing to verify against' (XEP-0096 makes the hash optional; an in-band <close/> is the only "
        "end marker and qxmpp itself omits size for empty/unknown-length sources), so they are recorded, not fixed. Fixed in the "
        "library and kept as passing corpus entries: 16-bit sequence wrap (49cbe2e), short write accepted (675e9c1), accept(path) "
        "file incomplete / write error unnoticed (38165f0), lost stanza hangs for ever (72eab57)",
        "QByteArray::fromBase64 skips invalid characters: a <data/> element with junk in its text is accepted as the bytes that remain "
        "(XEP-0047 asks for <bad-request/>); a block larger than the negotiated block size is accepted; both are covered by the "
        "correspondence and do not affect the integrity claim (final size/hash check)",
        "a duplicated block is answered with <unexpected-request/>, not written, and the transfer completes with identical bytes "
        "(duplicate_is_refused_and_harmless): read as satisfying the property (reported as protocol error to the peer, bytes exact)",
    ],
    level_text="Theorems for every file, block size, receiver device and channel history: success implies the device holds identical "
               "bytes (with the hash announced: every device, against any channel incl. forgeries; without hash: by sequence numbers + size "
               "against any non-altering channel, up to 65536 blocks); the honest run succeeds for EVERY size and every NEGOTIATED block size (hypothesis 0 < bsS <= bsR; a larger sender block is "
               "answered <resource-constraint/>, the sender does not retry and ends with ProtocolError, the receiver with FileCorruptError: "
               "refused_block_size_fails_on_both_sides); a single "
               "lost/reordered/mislabelled/truncated block is never reported as success (up to 65536 blocks, any continuation) AND, "
               "with the honest remainder delivered and the inactivity interval elapsed, BOTH jobs are finished, nothing is pending and "
               "the receiver's error is FileCorruptError or ProtocolError (single_fault_ends_in_error, FULL: any size); an altered "
               "block (hash announced) likewise; the sending job reports success only after reading its device to the end, reacts to the "
               "peer's error with ProtocolError and ignores foreign/stale responses; SOCKS5 receive-path and sender-outcome theorems; "
               "two defect theorems with witnesses for the two open findings (no hash => altered accepted; neither size nor hash => "
               "truncated accepted). Model tied to two real clients by exhaustive+random correspondence; five findings fixed in the "
               "library (kept as passing corpus entries), two recorded.",
    level_note="Proved about the hand-written model; model-to-code tie is differential (exhaustive to depth 3/4 on a small file, all "
               "single faults at all positions for 6 sizes x 3-4 block sizes, sampled beyond). SOCKS5 sending side: outcome table over 6 "
               "driven scenarios (partial); accept(filePath): previous file content and open mode are modelled "
               "(accept_path_success_implies_file_is_sent_bytes, pathrun lines); short writes / full disk on that path are oracle only.",
    design_ref="5.19",
    technique="Lean 4 invariant proofs over channel-op lists + model/implementation correspondence on two in-process clients",
)
