SPEC = dict(
    id="C18",
    title="Automatic trust: only an authenticated key's holder can move trust, within scope",
    lean_modules=["Qx.Props.C18"],
    props_files=["lean/Qx/Props/C18.lean"],
    drivers=["qxdriver_c18"],
    harnesses=[dict(name="atm", asan=False, driver="qxdriver_c18")],
    exhaustive=True,
    rule="histories over {setSecurityPolicy, QXmppTrustManager::setTrustLevel (seed), public manual makeTrustDecisions(owner, authenticate-list, "
         "distrust-list), received trust message (sender account/resource/key, usage, key-owner list, message type chat/groupchat/headline/normal/error; built "
         "as QXmppMessage, serialised to XML, parsed back, sender key via QXmppE2eeMetadata) fed to QXmppAtmManager::handleMessage directly or through "
         "QXmppClient::messageReceived, some immediately duplicated (replay)} on the real manager + QXmppAtmTrustMemoryStorage with an "
         "own JID: 27 scripted corner sequences, then exhaustive to depth 3 (quick) / 4 (thorough) over a 24-symbol alphabet under both security "
         "policies, then seeded random sequences of 4..30 operations over 3 accounts x 5 key ids (0 = empty id of an unencrypted message) x 2 "
         "encryption namespaces x 3 resources. After EVERY operation all stored trust levels and all held-back decisions of both namespaces are read "
         "back through the storage API, printed sorted together with the sequence of trustLevelsChanged emissions, and compared with the Lean model "
         "line by line; a sequence is non-trivial when it yields >= 2 distinct observations. Independently the property is evaluated on the "
         "implementation (before/after levels per step, own book of held-back decisions).",
    trusted_base=[
        "Lean 4.33.0 kernel; axioms per theorem listed under coverage.theorems (subset of propext, Classical.choice, Quot.sound)",
        "hand-written model lean/Qx/Model/C18Atm.lean (storage operations inlined), tied to src/client/QXmppAtmManager.cpp, "
        "QXmppTrustMemoryStorage.cpp, QXmppAtmTrustMemoryStorage.cpp, QXmppTrustManager.cpp and src/base/QXmppTrustMessages.cpp by the correspondence run",
        "QXmppTask continuations run synchronously with the memory storage (asserted by the harness on every call); QHash/QMultiHash iteration order "
        "does not influence the stored result (observations are sorted)",
    ],
    assumptions=[
        "the sender key of a message is what QXmppE2eeMetadata::senderKey() reports (set by the decryption layer, hence not forgeable; empty for "
        "unencrypted messages); the sender account is the bare JID of the from attribute of the QXmppMessage the client delivers - for carbons / "
        "forwarded copies that is whatever the carbon layer re-injects (C11 covers 'carbons only from the own account'); MAM results are not "
        "delivered through messageReceived and never reach the manager; the message type is not looked at (a groupchat message from room/nick counts "
        "as sent by the account room@service; its decisions can only be about keys of that JID and are held back for ever unless a key is "
        "authenticated for it)",
        "only the memory storage is modelled; a storage whose tasks finish asynchronously could interleave two handleMessage calls, which is outside the model",
        "trust messages SENT by the manual makeTrustDecisions are counted but not modelled (C18 is about received messages)",
        "held-back decisions are filed under the sender's key ID alone (the store keeps no sender account): 'that key later becomes authenticated' is "
        "read as 'authenticate() runs on a batch that contains a key with that ID and has the decision in scope (an own key or a key of the "
        "decision's owner in the batch)'; when one key ID is used with two accounts a held decision can be thrown away unapplied by a fired decision with "
        "the same verdict for the same key ID of another owner (open finding C18:cross-account-discard, theorem "
        "C18_defect_cross_account_discard_by_supersession), or overwritten / fired / discarded through a sender key ID that two accounts' devices "
        "really share and within the other account's scope (statistics only: a sender key ID cannot be claimed) - never outside the sender's scope",
        "ATM has no ordering or replay protection of its own: a replayed trust message re-asserts its verdicts over decisions made since (counted; "
        "idempotent when the first copy released no held-back decision); the end-to-end encryption layer is assumed to reject replays",
    ],
    level_text="Proved for every state (hence all histories), arbitrary accounts/keys: self and non-ATM messages ignored; a level changes only if the sender "
               "key was Authenticated (ManuallyTrusted is not enough) and only within scope (own device: any account, contact: own keys), cascades of fired "
               "held-back decisions included; decisions of unauthenticated senders are held back exactly in scope and change no level; a held entry is "
               "applied only if / if (or superseded) authenticate() runs on its sender key ID with the entry in scope, applied decisions take effect, distrust "
               "wins within a step; distrust() discards what is held under its key IDs and in its scope, for ever; a held entry leaves the store only by firing, "
               "supersession, distrust of its sender key ID, or an overwritten verdict; TOAKAFA; which levels ATM can produce; termination of the "
               "authenticate/postponed recursion; the cascade depends only on SETS (order-independent inside a step; order across steps and inside a held "
               "message documented by examples); encryption namespaces independent. NOT proved because false on the code: a contact's message makes only "
               "held decisions about its own account disappear (negative theorem with a concrete history, finding C18:cross-account-discard; partial "
               "version proved: the only exception is supersession by verdict+key ID). Model (tree with the scope re-checks of a532e12 and 845d75c) tied to the code by exhaustive+random correspondence.",
    level_note="Proved about the hand-written model; model-to-code tie is differential (exhaustive to a depth, sampled beyond). Firing is keyed by sender key "
               "id only, as in the code and the XEP: 'that key becomes authenticated' is read as 'authenticate() runs on a key with that id'.",
    design_ref="5.18",
    technique="Lean 4 proofs about an executable model (cascade by fuel with proved fuel-irrelevance) + model/implementation correspondence + independent oracle",
)
