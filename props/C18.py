SPEC = dict(
    id="C18",
    title="Automatic trust: only an authenticated key's holder can move trust, within scope",
    lean_modules=["Qx.Props.C18"],
    props_files=["lean/Qx/Props/C18.lean"],
    drivers=["qxdriver_c18"],
    harnesses=[dict(name="atm", asan=False, driver="qxdriver_c18")],
    exhaustive=True,
    rule="histories over {setSecurityPolicy, QXmppTrustManager::setTrustLevel (seed), public manual makeTrustDecisions(owner, authenticate-list, "
         "distrust-list), received trust message (sender account/resource/key, usage, key-owner list; built as QXmppMessage, serialised to XML, "
         "parsed back, sender key via QXmppE2eeMetadata) fed to QXmppAtmManager::handleMessage} on the real manager + QXmppAtmTrustMemoryStorage with an "
         "own JID: 22 scripted corner sequences, then exhaustive to depth 3 (quick) / 4 (thorough) over a 24-symbol alphabet under both security "
         "policies, then seeded random sequences of 4..30 operations over 3 accounts x 5 key ids (0 = empty id of an unencrypted message) x 2 "
         "encryption namespaces x 3 resources. After EVERY operation all stored trust levels and all held-back decisions of both namespaces are read "
         "back through the storage API, printed sorted together with the sequence of trustLevelsChanged emissions, and compared with the Lean model "
         "line by line; a sequence is non-trivial when it yields >= 2 distinct observations. Independently the property is evaluated on the "
         "implementation (before/after levels per step, own book of held-back decisions).",
    trusted_base=[
        "Lean 4.33.0 kernel; axioms per theorem listed under coverage.theorems (subset of propext, Classical.choice, Quot.sound)",
        "hand-written model lean/Qx/Model/C18Atm.lean (storage operations inlined), tied to src/client/QXmppAtmManager.cpp, "
        "QXmppTrustMemoryStorage.cpp, QXmppAtmTrustMemoryStorage.cpp, QXmppTrustManager.cpp and src/base/QXmppTrustMessages.cpp by the correspondence run",
        "QXmppTask continuations run synchronously with the memory storage (asserted by the harness on every call); QHash/QMultiHash iteration order "
        "does not influence the stored result (observations are sorted)",
    ],
    assumptions=[
        "the sender key of a message is what QXmppE2eeMetadata::senderKey() reports (set by the decryption layer; empty for unencrypted messages); "
        "the sender account is the bare JID of the server-stamped from attribute",
        "only the memory storage is modelled; a storage whose tasks finish asynchronously could interleave two handleMessage calls, which is outside the model",
        "trust messages SENT by the manual makeTrustDecisions are counted but not modelled (C18 is about received messages)",
        "held-back decisions are filed under the sender's key ID alone (the store keeps no sender account): 'that key later becomes authenticated' is "
        "read as 'authenticate() runs on a batch that contains a key with that ID and has the decision in scope (an own key or a key of the "
        "decision's owner in the batch)'; with a key ID used by two accounts a held decision can also be dropped unapplied (superseded by the same "
        "verdict for the same key ID of another owner, discarded by a distrust of that ID for another account, overwritten by another account's "
        "message with the same sender key ID) - counted in the statistics, never outside the sender's scope",
    ],
    level_text="Theorems for every state and history, arbitrary accounts/keys: self/non-ATM messages ignored; a level changes only if the sender key was "
               "Authenticated and only within scope (own device: any account, contact: own keys) - in every state and hence for all histories, cascades "
               "of fired held-back decisions included; held back exactly in scope; fire only if / if (or superseded) the sender key id is authenticated, fired decisions take "
               "effect; distrust discards, for ever; TOAKAFA; termination of the authenticate/postponed recursion; encryption namespaces independent. "
               "Model (of the tree with the scope re-check of repo commit a532e12) tied to the code by exhaustive+random correspondence.",
    level_note="Proved about the hand-written model; model-to-code tie is differential (exhaustive to a depth, sampled beyond). Firing is keyed by sender key "
               "id only, as in the code and the XEP: 'that key becomes authenticated' is read as 'authenticate() runs on a key with that id'.",
    design_ref="5.18",
    technique="Lean 4 proofs about an executable model (cascade by fuel with proved fuel-irrelevance) + model/implementation correspondence + independent oracle",
)
