SPEC = dict(
    id="C12",
    title="The roster view is the last full roster plus authorised pushes, nothing else",
    lean_modules=["Qx.Props.C12"],
    props_files=["lean/Qx/Props/C12.lean"],
    drivers=["qxdriver_c12"],
    harnesses=[dict(name="roster", asan=False, driver="qxdriver_c12")],
    exhaustive=True,
    rule="histories over {session opened (no SM / SM new / SM resumed), socket lost, stream closed cleanly, reconnect attempt "
         "lost after the stream restart, answer (result/error) to the manager's own roster request from {server, own bare, own "
         "full, others}, roster IQ set/get/result/error from {server, own bare, own full, stranger, look-alikes of the own JID}, "
         "presence available/unavailable/other from several resources}: every session-legal sequence of exactly depth 5 (quick) "
         "or 6 (thorough) over a 17-symbol roster alphabet and of depth 6 / 7 over a 12-symbol presence alphabet, a corpus of minimized histories, "
         "plus seeded random histories of length 5..50 with random item lists. The real QXmppRosterManager runs behind the real "
         "QXmppClient/QXmppOutgoingClient (IQ tracking, stanza dispatch, SM flags; only the socket is absent). Every line compares "
         "signals emitted, IQs sent (roster get by order, result by id and `to`, error by id), isRosterReceived, the sorted contact list with "
         "name/subscription/groups and the sorted presence table with status texts between implementation and Lean model; a "
         "sequence is non-trivial when it yields >= 2 distinct observations",
    trusted_base=[
        "Lean 4.33.0 kernel; axioms per theorem listed under coverage.theorems (subset of propext, Classical.choice, Quot.sound)",
        "hand-written model lean/Qx/Model/C12Roster.lean (cache of QXmppRosterManager.cpp, request bookkeeping of OutgoingIqManager, "
        "unhandled-IQ fallback of QXmppOutgoingClient::handleStanza), tied to the C++ by the correspondence run",
        "the statement of specView / specPres / classify / classifyS in the model file as a faithful reading of the property text",
        "the harness produces session events by calling the library's own entry points (handleStart, C2sStreamManager::onEnabled/"
        "onResumed, openSession, _q_socketDisconnected, disconnectFromHost, handlePacketReceived) in the order the library does; "
        "QMap/QSet/QDom behaviour of Qt is exercised, not modelled",
    ],
    assumptions=[
        "own JID configured (me@example.org/home); JIDs are compared as the code does (string equality after cutting at the first '/'), "
        "no stringprep/case folding is modelled because the code applies none",
        "item payload limited to jid/name/subscription/groups (ask, approved, MIX annotations are parsed by the same code path but not observed)",
        "key order of the maps is not modelled (observations are sorted); driver-side display sorts and de-duplicates groups like QSet",
        "session-level exactness (session_view_exact) is proved at connected moments under the environment assumption "
        "resumesContinueSmSession: a resumed connect continues the latest session and that session had stream management "
        "(session_view_needs_assumption proves the assumption cannot be dropped); the harness generates resumptions only then",
    ],
    level_text="Theorems for every history: contact list = last full roster of the session with later authorised pushes applied in order "
               "(roster_refines_spec), isRosterReceived exact, presence table exact incl. stored status (presence_table_exact), no duplicate "
               "keys, foreign roster IQ = no state change, no signal, no result (step and whole-history form), authorised push applied and "
               "acknowledged exactly once, nothing survives a non-resumed connect (direct and non-interference form), view kept across "
               "resumption, a `disconnected` outside an established session changes nothing; session-level exactness (property's own session "
               "boundaries) for every history under one named environment assumption, shown necessary. Model tied "
               "to the real manager+client by exhaustive and random correspondence; the property is also evaluated directly on the "
               "implementation by a reference fold over the history.",
    level_note="Proved about the hand-written model; the model-to-code tie is differential (exhaustive to depth 5/6 (roster) and 6/7 (presence) over compact alphabets, "
               "sampled to length 50). The two earlier findings (cache wiped by a failed reconnect attempt before a resumption) are fixed in "
               "repo commit fd7e86c; their oracle keys and witness history stay in the harness.",
    design_ref="5.12",
    technique="Lean 4 refinement proof (incremental cache = declarative fold over the event history) + invariants + model/implementation correspondence",
)
