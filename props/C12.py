SPEC = dict(
    id="C12",
    title="The roster view is the last full roster plus authorised pushes, nothing else",
    lean_modules=["Qx.Props.C12"],
    props_files=["lean/Qx/Props/C12.lean"],
    drivers=["qxdriver_c12"],
    harnesses=[dict(name="roster", asan=False, driver="qxdriver_c12")],
    exhaustive=True,
    rule="histories over {session opened (no SM / SM new / SM resumed), socket lost, stream closed cleanly, reconnect attempt "
         "lost after the stream restart; answer (result/error) carrying the id of a roster get the client sent / of a mutator's set / "
         "of nothing, from {server, own bare, own full, third party}, genuine or repeated; roster IQ set/get/result/error with 0..3 items "
         "from {absent, from='', own bare, own full, other resource of the own account, other case, server domain, prefix/suffix look-alikes, "
         "malformed, stranger}; presence available/unavailable/other from several resources; the manager's mutator API (addItem, "
         "removeItem, renameItem, subscribe, unsubscribe, acceptSubscription, refuseSubscription and the task-returning variants); "
         "configuration().setJid in mid-session; wire variants that must not matter (ver attribute, result without <query/>)}: "
         "every session-legal sequence of exactly depth 5 (quick) or 6 (thorough) over a 17-symbol roster alphabet and a 14-symbol "
         "forgery/API/reconfiguration alphabet, depth 6 / 7 over a 12-symbol presence alphabet, a corpus of minimized histories, plus "
         "seeded random histories of length 5..50 with random item lists. The real QXmppRosterManager runs behind the real "
         "QXmppClient/QXmppOutgoingClient (IQ tracking, stanza dispatch, SM flags; only the socket is absent). Every line compares "
         "signals emitted, stanzas sent (roster get/set by order with the set's item, result by id and `to`, error by id, subscription "
         "presences by type and `to`), isRosterReceived, the sorted contact list with name/subscription/groups and the sorted presence "
         "table with status texts between implementation and Lean model; a sequence is non-trivial when it yields >= 2 distinct observations",
    trusted_base=[
        "Lean 4.33.0 kernel; axioms per theorem listed under coverage.theorems (subset of propext, Classical.choice, Quot.sound)",
        "hand-written model lean/Qx/Model/C12Roster.lean (cache of QXmppRosterManager.cpp, request bookkeeping of OutgoingIqManager, "
        "unhandled-IQ fallback of QXmppOutgoingClient::handleStanza), tied to the C++ by the correspondence run",
        "the statement of specView / specPres / wireEvent (sender rules, literally restated by wire_push_iff / wire_full_iff / "
        "wire_clear_iff) / classifyS in the model file as a faithful reading of the property text",
        "the harness produces session events by calling the library's own entry points (handleStart, C2sStreamManager::onEnabled/"
        "onResumed, openSession, _q_socketDisconnected, disconnectFromHost, handlePacketReceived) in the order the library does; "
        "QMap/QSet/QDom behaviour of Qt is exercised, not modelled",
    ],
    assumptions=[
        "JIDs are compared as the code does (string equality after cutting at the first '/'), no stringprep/case folding is modelled "
        "because the code applies none; the configured JID may change in mid-session (op setJid)",
        "accepted push sender = no `from` or bare(from) == configured bare JID: a FULL JID of the own account (another resource) is "
        "accepted by the code and by the property text ('the user's own account'), although RFC 6121 2.1.6 admits only absent / own bare; "
        "recorded as a deviation from the RFC, not as a violation of C12",
        "roster versioning is not implemented by the manager (`ver` neither sent nor stored; a result without payload is an empty "
        "roster); a push may carry any number of items, the code applies all of them in order and so does the model",
        "item payload limited to jid/name/subscription/groups (ask, approved, MIX annotations are parsed by the same code path but not observed)",
        "key order of the maps is not modelled (observations are sorted); driver-side display sorts and de-duplicates groups like QSet",
        "session_view_exact carries the named hypothesis resumesContinueSmSession (plus connectedNow): at every resumed connect no "
        "established session has ended without stream management since the latest non-resumed connect, i.e. a resumption continues the "
        "latest session and that session had SM. It is an ENVIRONMENT assumption about server + stream layer, not about the roster code: "
        "a conforming server cannot violate it (XEP-0198: <resumed/> only answers <resume/>, and since repo commit c590ae4 the client "
        "sends <resume/> only if its latest session negotiated resumable SM); only a non-conforming server (e.g. an unsolicited "
        "<resumed/> inside a SASL 2 success after a session without SM) could, and then the cache is EMPTY, never stale or foreign "
        "(session_view_needs_assumption exhibits exactly that history). The harness generates resumptions only under the assumption",
    ],
    level_text="Theorems for every history: TOP roster_is_fold_of_honest_traffic — contact list = specView of the events an observer of "
               "the stream determines with three literal rules (push <=> roster set with no sender or bare(sender)=configured bare JID; full "
               "roster <=> IQ result with the id of a roster get the client sent, unanswered and not cancelled, with no sender or exactly the "
               "bare JID that request was addressed to; boundary <=> non-resumed connect or session-ending disconnect without SM), all other "
               "traffic filtered out; the rules are restated as iff-theorems (wire_push_iff, wire_full_iff, wire_clear_iff). Forged results: "
               "forged_result_noop, third_party_result_noop, result_unused_id_noop, result_replay_noop, unsolicited_roster_result_noop (whole "
               "state unchanged, nothing emitted). Foreign roster IQ = no state change, no signal, no result (step and whole-history form). "
               "Mutator API and setJid change no state (api_changes_nothing, setJid_changes_no_state); remove of an unknown JID is silent. "
               "Authorised push applied and acknowledged exactly once to its sender; isRosterReceived exact; presence table exact incl. stored "
               "status; no duplicate keys; nothing survives a non-resumed connect (direct and non-interference form); view kept across "
               "resumption; a `disconnected` outside an established session changes nothing; session_view_exact (property's own session "
               "boundaries, at connected moments) under the named environment hypothesis resumesContinueSmSession (see assumptions; spelled "
               "out by resumesContinueSmSession_iff, shown necessary by session_view_needs_assumption). Model tied to the real manager+client by exhaustive and random correspondence; the "
               "property (incl. 'a forged result / an API call / a JID change leaves the view alone') is also evaluated directly on the "
               "implementation by a reference fold over the history.",
    level_note="Proved about the hand-written model; the model-to-code tie is differential (exhaustive to depth 5/6 (roster, forgery/API) and 6/7 (presence) over compact alphabets, "
               "sampled to length 50). The two earlier findings (cache wiped by a failed reconnect attempt before a resumption) are fixed in "
               "repo commit fd7e86c; their oracle keys and witness history stay in the harness.",
    design_ref="5.12",
    technique="Lean 4 refinement proof (incremental cache = declarative fold over the event history) + invariants + model/implementation correspondence",
)
