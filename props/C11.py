def _non_vacuous(chk):
    """The property is an 'only if': the oracle would pass vacuously if no carbon were ever unwrapped or no foreign wrapper ever
    offered.  Require, per generation, accepted own-bare carbons AND rejected foreign wrappers in the sender-rule battery."""
    st = chk.cov.get("stats", {}).get("carbons", {})
    missing = [k for k in ("battery_v2_own-bare_unwrapped", "battery_v1_own-bare_unwrapped", "battery_v2_own-full_kept_closed",
                           "battery_v1_own-full_kept_closed", "battery_v2_case-node_kept_closed", "battery_v1_case-node_kept_closed",
                           "oracle_v2_foreign_wrappers_kept_closed", "oracle_v1_foreign_wrappers_kept_closed",
                           "oracle_v2_sender_rule_evaluations", "oracle_v1_sender_rule_evaluations") if not st.get(k)]
    if missing and st:
        chk.broken.append({"what": "C11 oracle would be vacuous: the harness no longer observes " + ", ".join(missing), "detail": ""})
    lost = [k for k in ("sentinel_v2_from_is_outer_attribute", "sentinel_v2_compares_with_jidBare", "sentinel_v1_compares_with_jidBare") if st and not st.get(k)]
    if lost:
        chk.log("note: textual sentinel lost (advisory; the sender rule itself is enforced dynamically by the oracle):", ", ".join(lost))


SPEC = dict(
    id="C11",
    title="Carbon copies are trusted only when they come from the user's own account",
    lean_modules=["Qx.Props.C11"],
    props_files=["lean/Qx/Props/C11.lean"],
    drivers=["qxdriver_c11"],
    harnesses=[dict(name="carbons", asan=False, driver="qxdriver_c11")],
    exhaustive=False,
    extra=[_non_vacuous],
    rule="one line per injected stanza: a real QXmppClient with QXmppCarbonManagerV2 (or, separately, the V1 QXmppCarbonManager) "
         "and a pass-through message handler installed receives the stanza through QXmppOutgoingClient::handlePacketReceived "
         "(XML wrapped in <stream:stream> and parsed by QDomDocument with namespace processing, like XmppSocket::processData); "
         "compared with the Lean model: handled flag of the extension pipeline, CVE-2017-5603 log notice, and every message "
         "surfacing on message handler / QXmppClient::messageReceived / V1 messageSent / V1 messageReceived with id, from, to, "
         "body, isCarbonForwarded. Systematic part: 6 own-JID configurations (incl. unset, domain-only, Unicode, mixed case, "
         "XML metacharacters) x ~60 sender variants (own bare, own full JIDs, case folds, Unicode look-alikes and normal forms, "
         "prefix/suffix extensions, empty, absent, others) x ~80 wrapper arrangements (sent/received, wrong namespace/tag, wrapper "
         "not first, two wrappers, missing/empty/second forwarded, wrong-namespace message, nested wrapper, extra payloads) x both "
         "generations; then seeded random stanzas (100-300 per client, 160 clients quick / 1600 thorough) over the full alphabet "
         "with prefixed-element and interleaved text/comment renderings. Account switches on ONE long-lived client + manager "
         "(`config` op = configuration() overwritten / setters, as connectToServer(config) does): exhaustive sequences of depth 4 "
         "(quick) / 5 (thorough) over a 9-symbol alphabet {switch to A, B, case-look-alike of A; carbon from A, from B, from the "
         "look-alike, from A's full JID, without from; plain message} for both generations, plus 120 / 1200 random clients with "
         "~12% switches among 7 accounts and senders drawn from current, former and look-alike own JIDs; oracle and model judge "
         "every stanza against the own account current at that moment. The own account is tracked by the HARNESS, not read "
         "from the client: bare part (cut at the first '/') of the JID given to setJid / assembled from setUser+setDomain / bound by "
         "the scripted server; after every configuration op and login configuration().jidBare() is compared with it "
         "(C11:own-jid-wrong) and the sender rule uses the harness value. `jid <full>` op: model computes bareOf, implementation "
         "prints jidBare(). Full JIDs with '@' and '/' in the resource, domain-only accounts. Real socket-less logins (signals of "
         "XmppSocket emitted by the harness): legacy resource binding (PLAIN, ANONYMOUS) and SASL 2 + Bind 2, 14 scenarios x 2 "
         "generations with bound JID != configured JID (alias, anonymous, server-normalised case, other domain) and '@'/'/' in "
         "the bound resource, followed by sender battery x wrapper shapes and random stanzas. A client's sequence is non-trivial when it yields >= 2 "
         "distinct observations. Outer and inner type over {chat, normal, groupchat, headline, error, absent, empty, unknown, wrong case}; "
         "inner payload extras (subject, thread, private, receipt request, hint, unknown extension), forwarded-in-forwarded, carbon in "
         "MAM result and MAM result in carbon, inner from = attacker; a sender-rule battery (16 named senders x 9 types x sent/received "
         "x both generations) whose accepted/rejected counts the check requires to be non-zero. Independent enforced oracle: see level_text.",
    trusted_base=[
        "Lean 4.33.0 kernel; axioms per theorem listed under coverage.theorems (subset of propext, Classical.choice, Quot.sound)",
        "hand-written model lean/Qx/Model/C11Carbons.lean, tied to src/client/QXmppCarbonManagerV2.cpp, QXmppCarbonManager.cpp, "
        "QXmppClient.cpp (StanzaPipeline/MessagePipeline/injectMessage) and QXmppOutgoingClient::handleStanza by the correspondence run",
        "QDomDocument namespace-processing parse (tagName() = local name, namespaceURI(), attribute() = '' when absent) and "
        "QXmppMessage::parse for id/from/to/body: exercised by the harness (DOM checked against the description of every stanza), not proved",
        "QString operator!= is code-unit equality (no normalisation), matched by Lean String equality on well-formed Unicode",
    ],
    assumptions=[
        "own account = bare part of the JID configured (setJid / setUser+setDomain) or bound by the server, tracked by the harness and "
        "compared with configuration().jidBare(). Not generated: a domain-only JID whose resource contains '@' given to setJid "
        "(jidToUser takes the first '@' of the whole string, so jidBare() is wrong on the clean tree; legacy bind only accepts "
        "local@domain/resource and overwrites user/domain, so this does not survive a login — reported, not registered). With an unset JID (empty string) a stanza without from compares equal and is unwrapped "
        "(theorem empty_sender_unwrapped_only_if_unconfigured; counted in stats as oracle_*_accepted_with_empty_from_and_unconfigured_jid); "
        "not reachable by a contact",
        "the server stamps the outer from of relayed stanzas (XMPP core); the property is about what the client does with that attribute",
        "outer <body/> children are text-only in generated stanzas; E2EE-decrypted stanzas (handleStanza with e2ee metadata) are not driven",
    ],
    level_text="PROVED (Lean, all strings, all child lists, both manager generations): a wrapper is unwrapped iff the outer from is "
               "string-equal — exact, case-sensitive, no JID normalisation — to the configured bare JID and the wrapper lookup reaches a "
               "message (carbon_unwrapped_iff_v1/v2); every other sender (own full JIDs, case variants, look-alikes, prefix/suffix "
               "extensions, empty/absent unless the own JID is unset) is never unwrapped (foreign_sender_never_unwrapped + corollaries, "
               "empty_sender_unwrapped_only_if_unconfigured); the presented message has id/from/to/body/type of the inner "
               "message@jabber:client inside forwarded@urn:xmpp:forward:0 inside sent|received@urn:xmpp:carbons:2 of that stanza and the "
               "forwarded flag (carbon_presented_is_inner_v1/v2); a rejected wrapper is DELIVERED, not dropped: the stanza is not consumed "
               "and reaches message handlers and QXmppClient::messageReceived exactly once as the outer stanza (outer from/id/to/type, "
               "outer's own last body, flag unset), the wrapper staying an uninterpreted extension (rejected_is_ordinary, "
               "foreign_sender_is_ordinary); per stanza and over arbitrary histories with account switches every surfaced message is "
               "the outer one or an own-account carbon (presented_is_outer_or_own_carbon, flag_iff_unwrapped, "
               "consumed_presents_only_the_inner, history_*); after the server bound a JID only its bare part — cut at the first slash, "
               "resource may contain @ and / — is accepted (bound_only_bare_of_bound_jid, bareOf_full, bareOf_bare). ENFORCED ON THE REAL CODE (oracle, model-independent, every stanza, both "
               "QXmppCarbonManagerV2 and QXmppCarbonManager with its messageSent/messageReceived signals): configuration().jidBare() == the own bare JID the harness "
               "computed itself after every config op / scripted login (own-jid-wrong); flagged or carbon-signal "
               "message => DOM outer from == that harness-computed own bare JID current at that moment; the delivered message serialised by toXml equals, as a "
               "canonical tree (attributes, type, body/subject/thread, every other child incl. private/receipt/hint/unknown extension "
               "and nested forwarded/carbon/MAM payloads) one wrapped inner element of the right direction, and equals byte-for-byte "
               "toXml(parse(that element)); unflagged message => equals toXml(parse(outer stanza)) and the outer element (fields + set of "
               "child tags).",
    level_note="Theorems are about the hand-written model of decision and dispatch (fields id/from/to/body/type/flag); equality on all "
               "other QXmppMessage fields is oracle-checked on the implementation, not proved. Model-to-code tie is differential "
               "(systematic product, exhaustive switch sequences to depth 4/5, sampled beyond). The textual operand sentinel is advisory; "
               "the sender rule is enforced dynamically. QDom/QXmppMessage::parse taken as exercised, not proved.",
    design_ref="5.11",
    technique="Lean 4 proofs over an XML-child abstraction + model/implementation correspondence on a real QXmppClient",
)
