SPEC = dict(
    id="C11",
    title="Carbon copies are trusted only when they come from the user's own account",
    lean_modules=["Qx.Props.C11"],
    props_files=["lean/Qx/Props/C11.lean"],
    drivers=["qxdriver_c11"],
    harnesses=[dict(name="carbons", asan=False, driver="qxdriver_c11")],
    exhaustive=False,
    rule="one line per injected stanza: a real QXmppClient with QXmppCarbonManagerV2 (or, separately, the V1 QXmppCarbonManager) "
         "and a pass-through message handler installed receives the stanza through QXmppOutgoingClient::handlePacketReceived "
         "(XML wrapped in <stream:stream> and parsed by QDomDocument with namespace processing, like XmppSocket::processData); "
         "compared with the Lean model: handled flag of the extension pipeline, CVE-2017-5603 log notice, and every message "
         "surfacing on message handler / QXmppClient::messageReceived / V1 messageSent / V1 messageReceived with id, from, to, "
         "body, isCarbonForwarded. Systematic part: 6 own-JID configurations (incl. unset, domain-only, Unicode, mixed case, "
         "XML metacharacters) x ~60 sender variants (own bare, own full JIDs, case folds, Unicode look-alikes and normal forms, "
         "prefix/suffix extensions, empty, absent, others) x ~80 wrapper arrangements (sent/received, wrong namespace/tag, wrapper "
         "not first, two wrappers, missing/empty/second forwarded, wrong-namespace message, nested wrapper, extra payloads) x both "
         "generations; then seeded random stanzas (100-300 per client, 160 clients quick / 1600 thorough) over the full alphabet "
         "with prefixed-element and interleaved text/comment renderings. Account switches on ONE long-lived client + manager "
         "(`config` op = configuration() overwritten / setters, as connectToServer(config) does): exhaustive sequences of depth 4 "
         "(quick) / 5 (thorough) over a 9-symbol alphabet {switch to A, B, case-look-alike of A; carbon from A, from B, from the "
         "look-alike, from A's full JID, without from; plain message} for both generations, plus 120 / 1200 random clients with "
         "~12% switches among 7 accounts and senders drawn from current, former and look-alike own JIDs; oracle and model judge "
         "every stanza against the configuration current at that moment. A client's sequence is non-trivial when it yields >= 2 "
         "distinct observations. Independent oracle: flagged/carbon-channel message => outer from == own bare JID and content == "
         "an inner message at the sent|received/forwarded/message path; unflagged message => it is the outer stanza.",
    trusted_base=[
        "Lean 4.33.0 kernel; axioms per theorem listed under coverage.theorems (subset of propext, Classical.choice, Quot.sound)",
        "hand-written model lean/Qx/Model/C11Carbons.lean, tied to src/client/QXmppCarbonManagerV2.cpp, QXmppCarbonManager.cpp, "
        "QXmppClient.cpp (StanzaPipeline/MessagePipeline/injectMessage) and QXmppOutgoingClient::handleStanza by the correspondence run",
        "QDomDocument namespace-processing parse (tagName() = local name, namespaceURI(), attribute() = '' when absent) and "
        "QXmppMessage::parse for id/from/to/body: exercised by the harness (DOM checked against the description of every stanza), not proved",
        "QString operator!= is code-unit equality (no normalisation), matched by Lean String equality on well-formed Unicode",
    ],
    assumptions=[
        "own = client()->configuration().jidBare() as configured/bound at the time the stanza is handled; on an established session this "
        "is the JID bound by the server. With an unset JID (empty string) a stanza without from compares equal and is unwrapped "
        "(theorem empty_sender_unwrapped_only_if_unconfigured; counted in stats as oracle_*_accepted_with_empty_from_and_unconfigured_jid); "
        "not reachable by a contact",
        "the server stamps the outer from of relayed stanzas (XMPP core); the property is about what the client does with that attribute",
        "outer <body/> children are text-only in generated stanzas; E2EE-decrypted stanzas (handleStanza with e2ee metadata) are not driven",
    ],
    level_text="Theorems for all strings and all child lists, both manager generations: unwrapped iff outer from == configured bare JID "
               "and the wrapper lookup reaches the message (carbon_unwrapped_iff_v1/v2); any other sender is never unwrapped "
               "(foreign_sender_never_unwrapped, prefix/suffix corollaries); the presented message is exactly the inner "
               "message@jabber:client inside forwarded inside sent|received, flagged (carbon_presented_is_inner_v1/v2); a rejected wrapper "
               "is processed as the outer stanza with the outer from (rejected_is_ordinary, foreign_sender_is_ordinary); per stanza and "
               "over arbitrary histories of reconfigurations and stanzas every surfaced message is the outer one or an own-account "
               "carbon (presented_is_outer_or_own_carbon, history_*). Model tied to the real client by systematic + random correspondence.",
    level_note="Proved about the hand-written model of the decision and dispatch; model-to-code tie is differential (systematic product "
               "of sender variants and wrapper arrangements, sampled beyond). QDom/QXmppMessage::parse taken as exercised, not proved.",
    design_ref="5.11",
    technique="Lean 4 proofs over an XML-child abstraction + model/implementation correspondence on a real QXmppClient",
)
