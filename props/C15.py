SPEC = dict(
    id="C15",
    title="ICE reacts only to checks authenticated with the session password; peers connect",
    lean_modules=["Qx.Props.C15"],
    props_files=["lean/Qx/Props/C15.lean"],
    drivers=["qxdriver_c15"],
    translators=["ice_prio.py"],
    harnesses=[dict(name="ice", asan="lib", driver="qxdriver_c15")],
    exhaustive=True,
    rule="Part 1 (correspondence, one line per operation): a real QXmppIceConnection/QXmppIceComponent bound to 127.0.0.1 (no STUN/TURN "
         "server) is fed explicit operation sequences over {set remote credentials (both, or remote user only / remote password only), "
         "addRemoteCandidate(addr, prio), connectToHost, 500-ms check timer tick, single retransmission of a check, transaction time-out, "
         "sendDatagram, received datagram}; datagrams come from harness-owned sockets of the "
         "honest peer (2 addresses) and of an attacker (2 addresses) and are built with the real QXmppStunMessage encoder from the model's "
         "alphabet {class request/indication/response/error} x {Binding/other} x {integrity-relevant attribute LAYOUT, trailer built by hand in raw bytes: "
         "any order of MESSAGE-INTEGRITY attributes (HMAC valid under the local / remote password, wrong key, length != 20), FINGERPRINT "
         "(right / wrong CRC over the preceding bytes), unknown comprehension-optional attributes and an attribute whose length field "
         "swallows the rest - e.g. FINGERPRINT followed by a MESSAGE-INTEGRITY with garbage or even the right key, two MESSAGE-INTEGRITY "
         "attributes, MESSAGE-INTEGRITY inside a swallowed attribute, USE-CANDIDATE / PRIORITY placed behind a valid MESSAGE-INTEGRITY (not covered by "
         "the HMAC) or in front of it; 46 such layouts systematically, random ones in the stream} x USE-CANDIDATE x {no role attribute, "
         "ICE-CONTROLLING, ICE-CONTROLLED} x PRIORITY x USERNAME x {transaction id of the component's latest check, guessed id}, plus "
         "non-STUN payloads. The component's timers are parked and driven explicitly (private slots through the meta-object system), "
         "zero-delay transmissions are flushed behind a marker datagram, so no real time enters. Observation per operation, compared "
         "with the Lean model: decode accepted, warnings (bad / missing integrity, role conflict), Binding responses written (to whom, echoing "
         "which id), connectivity checks sent (to whom, its own k-th transaction, USE-CANDIDATE), 'ICE pair changed to state' lines, "
         "'ICE pair selected ... (priority)' line, connected() signals, isConnected(), datagramReceived payloads, sendDatagram "
         "destination. Explored: the defect witnesses; EVERY single datagram of a 338-symbol alphabet (more in thorough) from 11 base states (incl. remote user without password, password without user, password arriving after the check started) "
         "x both roles; every sequence of length 2 (quick) / 3 (thorough) over a 22-symbol alphabet from 4 (3) base states x both roles; an "
         "attacker datagram inserted at EVERY position of 4 honest negotiations played by the harness; 1500 (8000) seeded random sequences "
         "of 3..14 (3..24) operations, each followed by an unmodelled malformed tail (single-bit flips of authentic messages, STUN-shaped "
         "random attributes, random bytes). A sequence is non-trivial when it yields >= 2 distinct observations. "
         "STUN-SERVER block: 1 and 2 STUN servers (harness sockets) configured before bind; every sequence of length 2 (3) over 18 server-path "
         "datagrams (answers from the server and from foreign addresses, error/request/indication classes, other method, bad/truncated/"
         "overrunning attributes, guessed ids) followed by an ordinary negotiation; compared: local candidates added, gathering complete. "
         "Also in the op alphabet: close() (then only datagrams and sendDatagram), setRemotePassword with a NEW value and responses "
         "protected with the superseded password. Unmodelled tails after random sequences: malformed stream (above) and datagrams injected "
         "through the TURN allocation's datagramReceived signal (the path relayed peer data takes), oracle only. "
         "TAMPER block (model-independent differential oracle): 144 honest negotiations are run twice on the real component, once with "
         "attributes (USE-CANDIDATE, PRIORITY, unknown, a second MESSAGE-INTEGRITY) appended behind the valid MESSAGE-INTEGRITY of a genuine "
         "request or response (FINGERPRINT recomputed) and once without: every observation must coincide. "
         "Oracle additions: every application datagram the component writes goes to an address that was signalled or that sent an authenticated "
         "request; server-reflexive candidates carry the RFC priority; a closed component reacts to nothing; the two STUN-discovery defect "
         "probes (gathering stuck in-process; use-after-free in a child process under ASan). "
         "Oracle (model independent): a response counts as authenticated only once the remote password has been set; any response, check, pair-state change, selection, connected signal or isConnected change after "
         "a datagram without the valid MESSAGE-INTEGRITY for its class is a failure; advertised candidate priorities, the PRIORITY / "
         "role / USERNAME attributes of its checks and the logged pair priority equal the RFC 5245 formulas computed in the harness. "
         "Part 2 (real timers, oracle only): two real connections, all four role assignments x 1-2 host candidates each (127.0.0.1, "
         "127.0.0.2) x candidate order x who starts, an attacker injecting forged datagrams meanwhile; through a relaying proxy socket that "
         "drops a chosen subset of the four first transmissions (5 subsets quick, all 16 x both roles thorough): both must signal connected "
         "once, forged traffic must stay unanswered, random payloads of 1..8000 bytes must arrive byte for byte in both directions, plus a structured battery: "
         "cookie-less STUN look-alikes (bytes 2..3 = size-20) for every size 20..200, RTP streams across the critical sequence numbers, "
         "header-only packets, payloads with the magic cookie that fail the length/type test (key C15:application-datagram-not-delivered); "
         "the same look-alikes are in the single-datagram alphabet and random stream of part 1, where the model applies its own isStun rule. "
         "Library AND harness are built with ASan+UBSan.",
    trusted_base=[
        "Lean 4.33.0 kernel; axioms per theorem listed under coverage.theorems (subset of propext, Classical.choice, Quot.sound)",
        "hand-written model lean/Qx/Model/C15Ice.lean of QXmppIceComponent::handleDatagram / checkCandidates / connectToHost / "
        "transactionFinished / sendDatagram, QXmppIceComponentPrivate::addRemoteCandidate / performCheck, CandidatePair::priority "
        "(src/base/QXmppStun.cpp), tied to the code by the correspondence run",
        "translators/ice_prio.py (regex reader of candidatePriority and CandidatePair::priority; fails when the expression shape changes) "
        "for the constants in lean/Qx/Generated/IcePrio.lean",
        "the abstraction of the attribute list into a layout of MESSAGE-INTEGRITY (four statuses) / FINGERPRINT (good, bad) / other / overrunning attributes: HMAC-SHA1 unforgeability without the key and 'local password != remote "
        "password' are assumptions, not theorems (the byte-level decoder is property C14)",
        "Qt: QUdpSocket loopback delivery, QTimer, direct signal delivery, QMetaObject::invokeMethod on private slots; std::sort on the "
        "pair list behaving as a stable insertion sort for <= 16 elements (libstdc++)",
    ],
    assumptions=[
        "one local host transport per modelled component (the two-agent runs also use two local addresses); STUN servers are modelled for "
        "their acceptance rule only (answers without mapped address / with an already known address used to leave a deleted transaction "
        "registered: fixed by d3fbd07, both inputs are in the correspondence, the ASan child-process probe stays); no TURN server is run: relayed datagrams are "
        "injected at the TURN transport's signal, oracle only",
        "application (non-STUN) datagrams are delivered to the application from ANY source address, before and after a pair is selected, "
        "and sendDatagram before selection writes to the fallback pair (first signalled candidate, or the known candidate that last sent "
        "non-STUN data): RFC 5245 asks for neither source filtering nor waiting; recorded (theorems non_stun_no_effect, "
        "fallback_changes_only_by_signalling_or_known_sender, stat app_data_from_non_candidate_source_delivered), not judged, because C15's "
        "claim is about the connectivity state; what IS judged: data is never written to an address that was neither signalled nor authenticated",
        "the source address of a STUN-server answer is not compared with the server's (theorem server_answer_source_not_checked, stat "
        "server_answer_from_foreign_address_accepted): the 96-bit transaction id is the only protection of classic STUN discovery; C15's "
        "attacker does not see transaction ids",
        "after close(): nothing is received; sendDatagram still writes (Qt re-opens the closed QUdpSocket) to the fallback pair; connect/tick/"
        "retransmission after close() are not modelled",
        "attacker = anyone who can send UDP datagrams to the component's port and read what is sent to its own address; it does not "
        "know either session password; sequences may nevertheless hand it the exact transaction id of the component's latest check "
        "('latest id'), i.e. an on-path observer is covered for the no-effect claim",
        "application payloads that are themselves STUN messages by the demultiplexing rule (magic cookie + matching length + non-zero type) are demultiplexed as STUN by "
        "design (RFC 5245/7983); counted (stun_shaped_payload_not_delivered), not judged",
        "OPEN FINDING C15:role-conflict-never-connects: two honest agents configured with the SAME role (glare) never connect - requests are "
        "dropped with 'Role conflict', RFC 5245 7.1.2.2/7.2.1.1 (487 / tie-breaker / role switch) is not implemented; reproduced on two real "
        "components (all same-role pair cases), negated in Lean (C15_defect_role_conflict_never_connects); all liveness theorems carry the "
        "hypothesis that the roles differ; recorded rather than fixed because the repair is a protocol feature, not a small patch",
        "candidate priorities >= 2^31 (outside RFC 5245 4.1.2) make the 32-bit product 2*qMax(G,D) in CandidatePair::priority wrap; "
        "modelled faithfully, theorem pair_priority_rfc is stated for the RFC range, theorem pair_priority_wraps_beyond_rfc_range documents it",
        "component ids 1..256 (RFC range); memory safety of the datagram path is sanitizer exploration, not a theorem",
    ],
    level_text="The model transcribes BOTH attribute walks as coded (pre-scan hasMessageIntegrity in handleDatagram: stops at FINGERPRINT; "
               "QXmppStunMessage::decode: verifies the first MESSAGE-INTEGRITY, stops successfully at FINGERPRINT) and the theorems are about "
               "their conjunction (accepted_means_verified, mi_after_fingerprint_counts_as_absent, decode_alone_never_looks_behind_fingerprint, "
               "decode_never_misses_mi_behind_prescan; decode's own final missing-integrity test of repo commit 80bab8b is modelled: it exempts "
               "Error and Indication classes, for which the pre-scan stays the only guard). "
               "Theorems, for EVERY state (STUN servers configured or not, closed or not) and every unauthenticated STUN datagram (no protecting "
               "MESSAGE-INTEGRITY - none, behind a FINGERPRINT, swallowed -, wrong key, the session's other password, truncated attribute; any "
               "attribute layout, class, source, user name, role attribute, "
               "USE-CANDIDATE, transaction id) leaves the component state unchanged and is never answered "
               "(unauthenticated_traffic_no_effect: connectivity view AND fallback pair unchanged, nothing answered; whole state unchanged unless "
               "the datagram carries the id of an outstanding STUN-server transaction; unauthenticated_datagram_dropped); for states without "
               "outstanding server transactions histories of such datagrams have no effect and "
               "erasing them from ANY history changes neither the final state nor any output except the integrity warnings "
               "(forged_history_no_effect, forged_traffic_erasable); only validly authenticated messages can matter "
               "(reaction_only_to_valid_mi); the former two-packet take-over witness is inert (former_takeover_witness_is_inert). "
               "candidate_priority_rfc / advertised_priorities_rfc / pair_priority_rfc over constants regenerated from the source. "
               "stun_server_path_never_touches_connectivity, server_reflexive_only_for_outstanding_transaction, server_answer_source_not_checked "
               "(documented); fallback_changes_only_by_signalling_or_known_sender + send_goes_to_selected_else_fallback (where data goes before "
               "selection); closed_component_is_inert; superseded_password_no_effect; use_candidate_from_controlled_side_rejected; "
               "retransmission_gives_up; peer_reflexive_learned_with_request_priority; non_stun_no_effect (delivered from any source: documented). attributes_after_mi_ignored: whatever is appended behind a MESSAGE-INTEGRITY (USE-CANDIDATE, PRIORITY, further MI, unknown) "
               "changes nothing; response_before_remote_password_dropped. Liveness, all under the hypothesis that the two roles DIFFER "
               "(C15_defect_role_conflict_never_connects negates it for equal roles: every check dropped as role conflict, both pairs failed "
               "after 7 transmissions; differing_roles_connect for the same schedule): honest_pair_connects_partial (either role assignment, any "
               "component and addresses, lossless in-order schedule); honest_pair_connects_despite_loss_partial (all 1024 combinations of role "
               "assignment x start order x triggered-check gap x an extra unreachable candidate per side and its position x loss of any subset of "
               "the four first transmissions: connected after three retransmission periods, kernel-evaluated) and connected_is_stable (no "
               "operation ever disconnects); application_datagrams_carried / honest_pair_carries_datagram_lists: arbitrary payload LISTS arrive "
               "unchanged and in order in both directions. Demultiplexing on raw bytes (isStun = size/length/type test AND magic cookie, "
               "as coded): isStun_iff, payload_without_cookie_is_not_stun, non_stun_payload_delivered, application_payloads_carried; the only "
               "payloads not carried are those that are STUN by the rule (stun_shaped_payload_is_processed_as_stun; inherent to RFC 5389/7983).",
    level_note="Proved about the hand-written model; model-to-code tie is differential on a real component over loopback UDP (exhaustive "
               "single datagrams / depth 2-3, interleavings at every point of honest negotiations, sampled beyond). Modelled: peer checks, STUN-server discovery (acceptance rule), close(), separately set / replaced remote "
               "credentials, fallback pair, retransmission and time-out. NOT modelled: the TURN allocation (forged datagrams are injected on "
               "its path, oracle only), several local transports, role-conflict resolution (the code implements none: same-role requests are "
               "dropped), behaviour after close() beyond receive/send. Found and fixed on the way: C15:stun-discovery-never-completes / "
               "C15:stun-discovery-use-after-free (repo commit d3fbd07; triggering inputs in the correspondence, ASan child-process probe kept). "
               "The safety half is "
               "full strength since repo commit f41aa68 (before it, integrity-less messages were processed: findings "
               "C15:binding-request-without-mi-processed / C15:binding-response-without-mi-accepted, now under 'fixed'; both oracle keys "
               "and the old witness stay in the harness). Liveness is proved, for agents whose roles differ (equal roles never connect: open finding "
               "C15:role-conflict-never-connects), for the lossless in-order schedule (all components and addresses) "
               "and for the schedules in which any subset of FIRST transmissions is lost and every retransmission arrives in order "
               "(component 1, extra candidates unreachable, kernel-evaluated over all 1024 combinations); arbitrary interleavings, repeated "
               "loss of the same message, several reachable candidates per agent and real timer behaviour "
               "are explored by the harness (proxy socket dropping every subset of first transmissions; a missed deadline is retried "
               "once with longer deadlines before it counts), not proved. HMAC unforgeability and memory safety are assumptions / "
               "sanitizer exploration.",
    design_ref="5.15",
    technique="Lean 4 proofs over an abstract-datagram state machine + generated priority constants + model/implementation "
              "correspondence on real QXmppIceComponent objects over loopback UDP",
)
