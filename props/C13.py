SPEC = dict(
    id="C13",
    title="A task's continuation runs exactly once, and never after its context has died",
    lean_modules=["Qx.Props.C13"],
    props_files=["lean/Qx/Props/C13.lean"],
    drivers=["qxdriver_c13"],
    harnesses=[dict(name="task", asan="lib", driver="qxdriver_c13",
                    env={"ASAN_OPTIONS": "detect_leaks=1:abort_on_error=0:exitcode=99"})],   # LeakSanitizer on: nothing else in this harness allocates,
    exhaustive=True,
    rule="op sequences over {then(ctx, re-entrant body incl. attach / destroy ctx / drop EVERY handle from inside the continuation), finish, destroy ctx, copy handle, drop handle} for void / copyable / "
         "move-only results, each value kind finished through both finish overloads (same type and converting): exhaustive to depth 4 (quick) or 6 (thorough) over a 12-symbol alphabet plus seeded random sequences "
         "over a 48-symbol alphabet; every line compares events (which continuation ran, with which context and value, what was "
         "released), isFinished, hasResult and handle count between the real QXmppPromise/QXmppTask and the Lean model; a "
         "sequence is non-trivial when it yields >= 2 distinct observations; harness AND library (QXmppTask.cpp) built with ASan+UBSan, LeakSanitizer on",
    trusted_base=[
        "Lean 4.33.0 kernel; axioms per theorem listed under coverage.theorems (subset of propext, Classical.choice, Quot.sound)",
        "hand-written model lean/Qx/Model/C13Task.lean, tied to src/base/QXmppTask.{h,cpp}, QXmppPromise.h by the correspondence run",
        "QPointer nulling on QObject destruction, std::shared_ptr reference counting (observed through instance counters, not proved)",
    ],
    assumptions=[
        "continuations consume (move out) the value they are given; contexts already destroyed are passed as nullptr",
        "memory safety / leaks are a runtime matter: sanitizer-instrumented harness + instance counters, not a theorem (partial)",
    ],
    level_text="Theorems for every history, kind and re-entrant body: exactly once at history level (attached_before_finish_runs_exactly_once, "
               "attached_after_finish_runs_exactly_once) on top of at most once (cont_runs_at_most_once), never after context "
               "death, delivered value = finished value, replaced continuation never runs, release when unreferenced (also when the continuation itself drops the last handle); model tied to "
               "the real templates by exhaustive+random correspondence under ASan.",
    level_note="Proved about the hand-written model; model-to-code tie is differential (exhaustive to a depth, sampled beyond). "
               "Leak/use-after-free half is sanitizer exploration (partial).",
    design_ref="5.13",
    technique="Lean 4 invariant proofs over op lists + model/implementation correspondence",
)
