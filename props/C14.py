import hashlib, hmac, os, random, zlib


def _hx(s):
    return b"" if s == "-" else bytes.fromhex(s)


def python_crosscheck(chk):
    """Independent oracle in python (hmac / zlib): (1) re-check the MESSAGE-INTEGRITY / FINGERPRINT / HMAC / CRC values the
    harness printed as `V` lines from the real library; (2) cross-check the Lean executable specifications used by the driver
    (SHA-1, RFC 2104 HMAC, bitwise CRC-32, and the model of the code's HMAC) on seeded random vectors."""
    import vlib
    out = os.path.join(vlib.BUILD, "harness", "stun.out")
    nv = {"mi": 0, "fp": 0, "hmac": 0, "crc": 0}
    bad_long = 0
    if os.path.exists(out):
        with open(out, encoding="utf8", errors="replace") as fh:
            for line in fh:
                if not line.startswith("V "):
                    continue
                f = line.rstrip("\n").split(" ")
                kind = f[1]
                if kind in ("mi", "hmac"):
                    key, text, mac = _hx(f[2]), _hx(f[3]), _hx(f[4])
                    nv[kind] += 1
                    if hmac.new(key, text, hashlib.sha1).digest() != mac:
                        if len(key) > 64:
                            bad_long += 1
                            if bad_long <= 3:
                                chk.fails.append(("C14:hmac-long-key", "python hmac disagrees with the library: key=%s text=%s lib=%s rfc2104=%s" % (
                                    f[2], f[3][:200], f[4], hmac.new(key, text, hashlib.sha1).hexdigest())))
                        else:
                            chk.fails.append(("C14:mi-not-rfc2104", "python hmac disagrees with the library: " + line[:400]))
                    else:
                        chk.cov["oracle_pass"] = chk.cov.get("oracle_pass", 0) + 1
                elif kind == "fp":
                    nv["fp"] += 1
                    if (zlib.crc32(_hx(f[2])) ^ 0x5354554e) != int(f[3]):
                        chk.fails.append(("C14:fp-not-crc32", "python zlib disagrees with the library: " + line[:400]))
                    else:
                        chk.cov["oracle_pass"] = chk.cov.get("oracle_pass", 0) + 1
                elif kind == "crc":
                    nv["crc"] += 1
                    if zlib.crc32(_hx(f[2])) != int(f[3]):
                        chk.fails.append(("C14:fp-not-crc32", "python zlib disagrees with generateCrc32: " + line[:400]))
                    else:
                        chk.cov["oracle_pass"] = chk.cov.get("oracle_pass", 0) + 1
    chk.cov["stats"]["python-recheck"] = dict(nv, long_key_mismatch=bad_long)
    if sum(nv.values()) == 0:
        chk.broken.append({"what": "python cross-check saw no V lines from the stun harness", "detail": out})
    # (2) Lean specs vs python
    exe = os.path.join(vlib.LEAN, ".lake", "build", "bin", "qxdriver_c14")
    if not os.path.exists(exe):
        return
    rnd = random.Random(chk.seed * 7919 + 14)
    ops, exp = [], []
    n = 400 if chk.tier == "quick" else 2500
    for i in range(n):
        kl = i % 301 if i < 301 else rnd.randrange(0, 400)
        key = bytes(rnd.randrange(256) for _ in range(kl))
        text = bytes(rnd.randrange(256) for _ in range(rnd.choice([0, 1, 55, 56, 63, 64, 65, 119, 120, rnd.randrange(0, 700)])))
        hk = key.hex() or "-"
        ht = text.hex() or "-"
        ops.append("hmacrfc %s %s" % (hk, ht)); exp.append(hmac.new(key, text, hashlib.sha1).hexdigest())
        # the model of the code's HMAC = RFC 2104 for every key (theorem hmac_code_eq_rfc)
        ops.append("hmac %s %s" % (hk, ht)); exp.append(hmac.new(key, text, hashlib.sha1).hexdigest())
        ops.append("crcspec %s" % ht); exp.append(str(zlib.crc32(text)))
        ops.append("crc %s" % ht); exp.append(str(zlib.crc32(text)))
    rc, got, err = vlib.run_driver("qxdriver_c14", ops)
    mism = [(o, e, g) for o, e, g in zip(ops, exp, got) if e != g]
    chk.cov["stats"]["lean-spec-vs-python"] = {"vectors": len(ops), "mismatch": len(mism)}
    chk.cov["evaluations"] += len(ops)
    if rc != 0 or len(got) != len(ops) or mism:
        chk.broken.append({"what": "Lean SHA-1/HMAC/CRC specification disagrees with python hashlib/hmac/zlib (%d of %d)" % (len(mism), len(ops)),
                           "detail": [{"op": o[:300], "python": e, "lean": g} for o, e, g in mism[:5]] or err[-1000:]})
    chk.log("python cross-check: V lines %s, lean-vs-python vectors %d mismatching %d" % (nv, len(ops), len(mism)))


SPEC = dict(
    id="C14",
    title="STUN messages round-trip; integrity and fingerprint accept only untampered data",
    lean_modules=["Qx.Props.C14"],
    props_files=["lean/Qx/Props/C14.lean"],
    drivers=["qxdriver_c14"],
    translators=["crc_table.py", "stun_consts.py"],
    harnesses=[dict(name="stun", asan="lib", driver="qxdriver_c14", timeout=5400)],
    extra=[python_crosscheck],
    exhaustive=False,
    rule="one line = one call of the real QXmppStunMessage::encode(key, fp) on a message built through the public setters/members "
         "(observation: the bytes), of a fresh QXmppStunMessage().decode(bytes, key) (observation: fail | every field incl. the private "
         "attribute set; fields that can hold indeterminate memory are masked when an attribute overruns the packet), of "
         "QXmppUtils::generateHmacSha1 or generateCrc32; all compared with the Lean model. A sequence = one generated message: encode, "
         "decode with the key, without key, with 3-5 other keys, and single-bit flips. Messages: corpus of the findings, repaired ones first (DATA announcing 1000 bytes with 4 present, 100-byte key, USERNAME abcd/secret, empty USERNAME); every attribute "
         "alone (7 address attributes x IPv4/IPv6; USERNAME/REALM/SOFTWARE/NONCE/DATA/ERROR phrase of every length 0..11; all numeric "
         "attributes; ICE roles; token) and all at once; 700 (quick) / 4000 (thorough) seeded random messages over all 23 attributes "
         "with strings up to 3000 bytes incl. 2/3/4-byte UTF-8; 300/1500 messages outside WFMsg (port without host, both ICE roles, "
         "ICE of wrong size, error code <0 / >=25600 / 0 with phrase, NUL or BOM in strings); key lengths cycle through 0..300 plus "
         "{0,1,20,63,64,65,100,128,300}; fingerprint on/off. Bit flips: every bit of the first ~160 messages, sampled bits beyond "
         "(~7e5 quick / 6e6 thorough flips through the real decode; a sample of them plus every accepted one also through the model). "
         "Arbitrary bytes: 12000 (quick) / 100000 (thorough) random, TLV-structured (known types, wrong lengths, correct MI/FP) and "
         "mutated packets through decode with the library itself built with ASan+UBSan, input printed before each call; all (quick) / "
         "every 4th (thorough) also compared with the model. A sequence is non-trivial when it yields >= 2 distinct observations. "
         "Oracle (independent of the model): round trip field by field, MI = QMessageAuthenticationCode HMAC-SHA1 of the length-adjusted "
         "prefix, FP = bitwise CRC-32 ^ 0x5354554e, both re-checked with python hmac/zlib; every flipped protected bit rejected; every "
         "other non-empty key rejected; accepted packets have all attributes inside the buffer; Lean SHA-1/HMAC/CRC specs cross-checked "
         "against python on seeded vectors.",
    trusted_base=[
        "Lean 4.33.0 kernel; axioms per theorem listed under coverage.theorems (subset of propext, Classical.choice, Quot.sound)",
        "translators/crc_table.py (256 literals of crctable + shape of generateCrc32), translators/stun_consts.py (attribute enum, magic "
        "cookie, header/id size, family codes, fingerprint xor, adjusted lengths, order of emission in encode); both exit non-zero when an "
        "anchor is lost; lean/Qx/Generated/{CrcTable,StunConsts}.lean are rewritten from the working tree before every lake build",
        "hand-written model lean/Qx/Model/C14Stun.lean (encode, decode loop with its bounds check, hmacCode, QDataStream read-past-end semantics), tied to "
        "src/base/QXmppStun.cpp and QXmppUtils.cpp by the correspondence run",
        "Qt behaviour taken as given and validated empirically only: QDataStream big-endian and read-past-end-yields-zero, "
        "QString::fromUtf8(data, size) (BOM dropped, U+FFFD), QByteArray(negative size) is empty, QCryptographicHash SHA-1 "
        "(= Lean Qx.Crypto.sha1, cross-checked against python hashlib every run)",
    ],
    assumptions=[
        "hash function is a parameter of every theorem; the only hypothesis is that it returns 20 bytes (proved for the Lean SHA-1)",
        "the only cryptographic hypothesis anywhere is NotAForgery (model file): the tampered packet contains no valid MAC under the "
        "key for one of its own length-adjusted prefixes other than the bytes the sender authenticated (one-query unforgeability of "
        "HMAC-SHA1); it is a named hypothesis of tamper_rejected_by_authenticated_decode, not an axiom, and "
        "tamper_verified_is_forgery states the same fact without it (as an explicit forgery). Nothing is assumed about CRC-32",
        "round trip is claimed for messages inside WFMsg; per conjunct (see the doc comment of WFMsg): ranges of the C++ types and the "
        "8-byte token cannot be violated by the API; the size bound can, encode then refuses and the round trip is proved for every message encode accepts; the 12-byte id is a "
        "Q_ASSERT precondition of setId; the rest restricts public data members to values the attribute can have at all (address = "
        "host and port, error code = class*100+number in two bytes, one 64-bit ICE tie-breaker) - values outside are covered by the "
        "correspondence only",
        "memory safety of decode on arbitrary bytes is sanitizer exploration (ASan+UBSan on library and harness), not a theorem (partial)",
    ],
    level_text="Theorems for every message encode accepts (it refuses exactly those exceeding the 16-bit length field) over all 23 "
               "attributes, every key length and fingerprint on/off: decode(encode m) = view m (strings through QString::fromUtf8, "
               "identity for well-formed UTF-8 without a leading BOM); MI = the code's HMAC of the protected bytes, proved equal to "
               "RFC 2104 HMAC for keys of every length; FP = bitwise CRC-32 ^ 0x5354554e with the table regenerated from the source and "
               "proved equal to the bitwise definition; for every packet: accepted with MI under a key => HMAC verified, accepted at FP "
               "=> CRC verified, accepted => every attribute header and value inside the packet. Single-bit corruption, by case analysis "
               "over every bit position of an encoded message: tamper_rejected - for Request/Response messages decode() itself rejects "
               "every flip in the header, the attributes and the MESSAGE-INTEGRITY attribute, the one hypothesis being the named "
               "NotAForgery (tamper_verified_is_forgery states the same without it, as an explicit forgery); a flip behind "
               "MESSAGE-INTEGRITY yields a rejection or the same message (no hypothesis); for every class the authenticated decode "
               "(decode + MESSAGE-INTEGRITY present, ICE's gate) rejects; nothing is assumed about CRC-32. Recorded defects with theorems "
               "and replays: for classes Error/Indication decode() must accept a packet without MESSAGE-INTEGRITY (RFC 5389/5766), so a "
               "flipped length bit that makes an attribute swallow exactly MI(+FP) is accepted for them; a leading U+FEFF in a string is "
               "dropped by every Qt 5 fromUtf8. Repaired in /repo, witnesses replayed first on every run: HMAC for keys > 64 bytes, "
               "other key accepted, attribute length beyond the buffer, oversized message encoded with wrapped lengths, reservation "
               "token padded with uninitialised memory, string cut at U+0000, Request/Response accepted without MESSAGE-INTEGRITY.",
    level_note="Proved about the hand-written model over translator-generated table/constants; model-to-code tie is differential "
               "(systematic + seeded random, not exhaustive). 'Never crashes / reads out of bounds on arbitrary bytes' is a runtime "
               "statement: decode is total in Lean, the C++ is run on 1.2e4 (quick) / 1e5 (thorough) arbitrary packets plus ~7e5 / 6e6 "
               "bit-flipped ones under ASan+UBSan (partial). Unforgeability of HMAC is a named hypothesis.",
    design_ref="5.14",
    technique="Lean 4 proofs parametric in the hash + translator-generated CRC table/constants + model/implementation correspondence under ASan",
)
