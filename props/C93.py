SPEC = dict(
    id="C93",
    title="tier C: schema-driven codecs (temporary)",
    lean_modules=["Qx.Props.C01Codec", "Qx.Props.C02Codec"],
    props_files=["lean/Qx/Props/C01Codec.lean", "lean/Qx/Props/C02Codec.lean"],
    drivers=["qxdriver_c01"],
    harnesses=[dict(name="codec", asan=False, driver="qxdriver_c01", reset_prefix="codec-reset")],
    exhaustive=False,
    rule="tier C",
    trusted_base=["Lean kernel", "schemas in lean/Qx/Xml/Codec/Classes.lean tied to the C++ by the codec harness"],
    assumptions=[],
    level_text="tier C", level_note="tier C", design_ref="5.1",
    technique="Lean 4 generic codec round-trip proof + correspondence",
)
