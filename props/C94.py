# TEMPORARY end-to-end test of the two oracle-only C02/C01 harnesses (parsers, clientfeed). Delete before finishing.
SPEC = dict(
    id="C94",
    title="temporary: parsers + clientfeed end-to-end",
    lean_modules=["Qx.Props.C13"],
    props_files=["lean/Qx/Props/C13.lean"],
    drivers=[],
    harnesses=[dict(name="parsers", asan="lib", timeout=3000), dict(name="clientfeed", asan="lib", timeout=3000)],
    exhaustive=False,
    rule="temporary",
    trusted_base=["temporary"],
    assumptions=[],
    level_text="temporary",
    level_note="temporary",
    design_ref="5.2",
    technique="temporary",
)
