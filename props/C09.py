SPEC = dict(
    id="C09",
    title="Stream management: a stanza is confirmed only when acked, else resent, in order",
    lean_modules=["Qx.Props.C09"],
    props_files=["lean/Qx/Props/C09.lean"],
    drivers=["qxdriver_c09"],
    harnesses=[dict(name="sm", driver="qxdriver_c09")],
    exhaustive=True,
    rule="histories over {send stanza (write ok / write fails), send nonza, sendIq (tracked request), <a h/> with h = last number used (exact), one "
         "below, one beyond, <r/>, receive message/presence/iq/nonza, IQ result/error for an outstanding request, IQ requests that make the client send by itself (unhandled get -> "
         "feature-not-implemented from QXmppOutgoingClient::handleStanza; version/time/disco requests answered by the managers; the initial "
         "presence QXmppClient sends when a session opens after SASL2), connection lost, reconnect "
         "where the scripted server refuses <resume/> (plain <failed/> or <failed h=exact|one below/>) and accepts <enable/>, accepts "
         "<resume/> with h exact/one below/beyond, offers no stream management, refuses both, resetCache; every report-firing operation "
         "(<a/>, <resumed/>, <enabled/> after <failed h/>, resetCache) also with re-entrant delivery reports (the QXmppTask continuation of "
         "every reported packet sends one new stanza from inside the report); every reconnect both through the classic post-authentication "
         "negotiation (<resume/>, bind, <enable/> as own elements) and through SASL2/Bind2 (<resume/> inside <authenticate/>, <resumed/>/"
         "<failed/> and <bound><enabled/></bound> inside <success/>)}, applied to a real QXmppClient (version, entity-time and discovery managers) and its real QXmppOutgoingClient (StreamAckManager, "
         "OutgoingIqManager, C2sStreamManager, Sasl2Manager, BindManager, XmppSocket; only QSslSocket::writeData is captured; everything "
         "received goes through handlePacketReceived). Exhaustive blocks (both tiers): length 5 over 11 symbols, length 5 over the 10 "
         "re-entrancy/<failed h/>/resetCache symbols, length 5 over the 9 self-sent-traffic symbols, length 4 over the 11 SASL2 symbols, length 3 over all 33 symbols, every length-5 "
         "continuation (9 symbols) of a session holding two stored stanzas; thorough adds length 6 over 7 symbols and the length-5 / length-4 "
         "continuations of two more prefixes (total kept under 8M lines because the comparison holds all lines in memory); plus 4000 / 16000 "
         "seeded random histories of up to 60 symbols over the whole weighted symbol set including failed writes during every kind of "
         "operation. Every op line (symbols resolved to numbers and to the ids of the packets whose continuation sends) compares, between "
         "the implementation and the Lean model, the ordered events of that op (elements written: packet label, r, a<h>, resume<h>; reports: "
         "label!sent|ack|ewrite|edisc; the bool send returns; the report of a tracked IQ request is consumed by the IQ manager and left out "
         "on both sides) and enabled()/lastIncomingSequenceNumber(). Oracle (own bookkeeping, independent of the model): <=1 report per "
         "packet, exactly one after teardown, none lost in resetCache, acknowledged only if covered (by <a/>, <resumed/> or <failed h/>), "
         "covered => confirmed, resent set/order with newer traffic last, nothing written after its report, nothing covered by <failed h/> "
         "resent, stanzas sent from reports numbered, h of <a/>/<resume/> = stanzas received on the session (mod 2^32), an honest server's "
         "count (every stanza written on the session) = the client's numbering read from the real m_lastOutgoingSequenceNumber. 2^32 wrap: both private counters of the real StreamAckManager are set to 4294967294 "
         "(explicit-instantiation access, no patch) and driven across the wrap; judged by the oracle only (the model's counters are "
         "unbounded). A history is non-trivial when it yields >= 2 distinct observations.",
    trusted_base=[
        "Lean 4.33.0 kernel; axioms per theorem listed under coverage.theorems (subset of propext, Classical.choice, Quot.sound)",
        "hand-written model lean/Qx/Model/C09Sm.lean, tied to src/base/QXmppStreamManagement.cpp and the C2sStreamManager calls in "
        "src/client/QXmppOutgoingClient.cpp by the correspondence run (exhaustive to the stated depth, sampled beyond)",
        "the statements in lean/Qx/Props/C09.lean as a reading of the property text",
        "QMap iterates in key order (the model keeps the map as a list in key order; the proved key invariant makes append = insert); "
        "QXmppPromise/QXmppTask deliver a report to the continuation attached by the harness (C13)",
    ],
    assumptions=[
        "counters are unbounded in the model; the C++ uses unsigned int: behaviour across 2^32 is outside the model and theorems, it is "
        "probed on the real class by the harness (see rule) and judged by the oracle only",
        "re-entrancy: the continuation of a packet reported 'acknowledged' or 'disconnected' may send one stanza (op parameter re, any set "
        "of ids in the theorems; the harness arms all observable continuations, depth one); continuations of immediate reports "
        "(sent / write error) and continuations that do anything other than send are not modelled",
        "received elements named message/presence/iq are in the jabber:client namespace (handleStanza looks at the tag name only)",
        "the sequence number the model assigns to a stored packet is the server's count of it, i.e. the transport delivers what was written, "
        "in order, while the connection is up (no server/channel model)",
        "hmono (hypothesis of failed_h_covered_never_resent): a server does not answer a later <resume/> for the same previd with a lower "
        "<failed h/> than before; conforming servers cannot (h is non-decreasing within a session); otherwise stanzas between the two counts "
        "are retransmitted (duplicates, no loss)",
        "which of <resume/> or <enable/> the client requests on a new connection (canResume logic) is observed, not modelled (C10)",
    ],
    level_text="Theorems for every history of any length and every set of re-entrant (sending, depth one) report continuations: unacknowledged "
               "keys are consecutive and end at lastOut; no packet is reported twice; every packet is either stored or reported, nothing is left "
               "after resetCache; 'acknowledged' only for a stored packet numbered <= an h received in <a/>, <resumed/> or <failed/>; <a h/> "
               "confirms exactly the stored packets <= h; <resumed h/> / <enabled/> write exactly the stored packets beyond h (and beyond a "
               "pending <failed/> count) in order, then <r/>, then only packets created by the continuations, and everything they write is "
               "numbered; a reported packet is never written again; packets covered by <failed h/> are never written again under the named hypothesis hmono "
               "(failed_h_covered_never_resent: no later <failed h'/> with h' < h for the same dead session -- an environment assumption, "
               "XEP-0198's h never decreases so no conforming server violates it; the code overwrites the stored count) and are confirmed; "
               "<enabled/> renumbers 1..n; every written h equals the number of stanzas received on "
               "that session. The 2^32 wrap is NOT in the model (unbounded counters): probed on the real class only (inbound wraps "
               "correctly, outbound does not: recorded finding).",
    level_note="Proved about the hand-written model; model-to-code tie is differential on a real QXmppOutgoingClient driven by a scripted "
               "server (exhaustive to a depth, sampled beyond). Channel/server behaviour, counter wrap and re-entrant continuations are "
               "assumptions, not theorems.",
    design_ref="5.9",
    technique="Lean 4 invariant proofs over op lists + model/implementation correspondence",
)
