SPEC = dict(
    id="C09",
    title="Stream management: a stanza is confirmed only when acked, else resent, in order",
    lean_modules=["Qx.Props.C09"],
    props_files=["lean/Qx/Props/C09.lean"],
    drivers=["qxdriver_c09"],
    harnesses=[dict(name="sm", driver="qxdriver_c09")],
    exhaustive=True,
    rule="histories over {send stanza (write ok / write fails), send nonza, sendIq (tracked request through QXmppOutgoingClient::sendIq), "
         "<a h/> with h = last number used (exact), one below (stale/partial), one beyond, <r/>, receive message/presence/iq/nonza, receive the "
         "IQ result for the oldest / the IQ error for the newest outstanding tracked request (an unsolicited response if none is outstanding), "
         "connection lost, reconnect where the scripted server refuses <resume/> and accepts <enable/>, accepts <resume/> with h "
         "exact/stale/beyond, offers no stream management, refuses both, resetCache}, applied to a real QXmppOutgoingClient (real "
         "StreamAckManager, OutgoingIqManager, C2sStreamManager, BindManager, XmppSocket; only QSslSocket::writeData is captured; everything "
         "received goes through handlePacketReceived): quick = every history of length 5 over an 11-symbol alphabet, of length 3 over all 22 "
         "symbols, and every length-5 continuation (9 symbols) of a session holding two stored stanzas; thorough = length 7 over 7 symbols, "
         "length 6 over 9, length 5 over 11, length 4 over 22, and every length-6 continuation of that session; plus seeded random histories "
         "of up to 60 symbols over 27 symbols (weighted) including failed writes during sendIq, <r/>, <enabled/>, <resumed/>. Every op line "
         "(symbols resolved to numbers) compares, between the implementation and the Lean model, the ordered events of that op (elements "
         "written: packet label, r, a<h>, resume<h>; reports: label!sent|ack|ewrite|edisc; the bool send returns; the delivery report of a "
         "tracked IQ request is consumed by the IQ manager and is left out on both sides) and enabled()/lastIncomingSequenceNumber(). A "
         "history is non-trivial when it yields >= 2 distinct observations.",
    trusted_base=[
        "Lean 4.33.0 kernel; axioms per theorem listed under coverage.theorems (subset of propext, Classical.choice, Quot.sound)",
        "hand-written model lean/Qx/Model/C09Sm.lean, tied to src/base/QXmppStreamManagement.cpp and the C2sStreamManager calls in "
        "src/client/QXmppOutgoingClient.cpp by the correspondence run (exhaustive to the stated depth, sampled beyond)",
        "the statements in lean/Qx/Props/C09.lean as a reading of the property text",
        "QMap iterates in key order (the model keeps the map as a list in key order; the proved key invariant makes append = insert); "
        "QXmppPromise/QXmppTask deliver a report to the continuation attached by the harness (C13)",
    ],
    assumptions=[
        "counters are unbounded in the model; the C++ uses unsigned int, behaviour after 2^32 stanzas on one session is outside the model",
        "report continuations do not re-enter the manager (a send() issued from inside a delivery report while <a/> or resetCache is being "
        "processed is not modelled)",
        "received elements named message/presence/iq are in the jabber:client namespace (handleStanza looks at the tag name only)",
        "the sequence number the model assigns to a stored packet is the server's count of it, i.e. the transport delivers what was written, "
        "in order, while the connection is up (no server/channel model)",
        "which of <resume/> or <enable/> the client requests on a new connection (canResume logic) is observed, not modelled (C10)",
    ],
    level_text="Theorems for every history of any length: unacknowledged keys are consecutive and end at lastOut; no packet is reported twice; "
               "every packet is either stored or reported; 'acknowledged' only by <a h/>/<resumed h/> with h >= the packet's number (and "
               "conversely); <resumed h/> resp. <enabled/> write exactly the stored packets with number > h resp. all, in order, then <r/>, "
               "before anything later; a reported packet is never written again; <enabled/> renumbers 1..n; every written h equals the "
               "number of stanzas received on that session (while stream management was on, since its <enabled/>).",
    level_note="Proved about the hand-written model; model-to-code tie is differential on a real QXmppOutgoingClient driven by a scripted "
               "server (exhaustive to a depth, sampled beyond). Channel/server behaviour, counter wrap and re-entrant continuations are "
               "assumptions, not theorems.",
    design_ref="5.9",
    technique="Lean 4 invariant proofs over op lists + model/implementation correspondence",
)
