import os, subprocess, sys
sys.path.insert(0, os.path.dirname(os.path.dirname(os.path.abspath(__file__))))
import vlib

# the generated table must have no offending row (JMI / Call-Invite / addresses / unknown extensions were repaired in /repo
# 968e727, 7d68095, e2ea074)
EXPECTED_OFFENDING = "write=[] parse=[] clash=[] toxml=[] spec=[] unknown-to-spec=[]"


def name_offending_rows(chk):
    """Ask the model driver (which links the freshly generated table) which rows violate the decidable predicates, so that a
    failing `decide` in Qx/Props/C17.lean is reported with the row names."""
    exe = os.path.join(vlib.LEAN, ".lake", "build", "bin", "qxdriver_c17")
    if not os.path.exists(exe):
        chk.log("table report: model driver not built")
        return
    try:
        out = subprocess.run([exe], input="wf\n", stdout=subprocess.PIPE, stderr=subprocess.PIPE, text=True, timeout=60).stdout.strip()
    except Exception as ex:  # pragma: no cover
        chk.log("table report failed:", ex)
        return
    chk.log("generated table, rows violating well-formedness:", out)
    chk.cov["table_report"] = out
    if not out.startswith(EXPECTED_OFFENDING):
        detail = "generated SceTable: %s\nexpected: %s" % (out, EXPECTED_OFFENDING)
        for b in chk.broken:
            if b["what"].startswith("lake build failed"):
                b["detail"] = detail + "\n" + str(b["detail"])
                break
        else:
            chk.broken.append({"what": "generated SCE table changed its set of offending rows (Props/C17 theorems are about the old one)",
                               "detail": detail})


SPEC = dict(
    id="C17",
    title="The public part of an encrypted message never contains its sensitive content",
    lean_modules=["Qx.Props.C17"],
    props_files=["lean/Qx/Props/C17.lean"],
    drivers=["qxdriver_c17"],
    harnesses=[dict(name="sce", driver="qxdriver_c17")],
    translators=["sce_table.py"],
    extra=[name_offending_rows],
    exhaustive=True,
    rule="messages built through the public QXmppMessage API from a catalogue of 35 extension fields (every setter of "
         "QXmppMessage plus extended addresses and application-supplied unknown extensions; 77 value variants: each hint/chat-state/marker/JMI/call-invite type, 1-3 list "
         "entries): every field singly in every variant, ALL pairs (twice), all fields together, all triples (thorough), and "
         "400 (quick) / 6000 (thorough) seeded random subsets. Per message 29 compared lines: children (tag, namespace, order) "
         "of toXml in ScePublic/SceSensitive/SceAll and of serializeExtensions(SceSensitive, jabber:client) inside a real SCE "
         "envelope; fields set + unknown extensions after parse(part, mode) for all 9 part/mode combinations; and after the "
         "two-step receive path (parse public, then parseExtensions content / parse toXml-sensitive); and through a REAL QXmppClient "
         "with a dummy QXmppE2eeExtension shaped like the OMEMO manager: children of the packet QXmppClient::sendSensitive hands "
         "to the stream, and the message delivered (messageReceived) after feeding those bytes to the stream's receive path "
         "(handlePacketReceived -> MessagePipeline -> handleMessage/decrypt -> injectMessage), plain and with plaintext "
         "thread/subject/receipt/marker/body injected next to the encrypted payload; and HISTORIES before the split: one and two "
         "combined-mode cycles (toXml(SceAll) -> parse(SceAll) into a fresh object) and the receive path followed by a second "
         "split, each followed by the public part and the envelope content of the resulting object. The model side is computed "
         "from the table the translator regenerates from QXmppMessage.cpp on every run. A case is non-trivial when its lines "
         "show >= 2 distinct observations. Oracle per message, independent of model and table: no payload string and no "
         "non-whitelisted element in the public bytes (and the payload strings do occur in the envelope), multiset partition, "
         "getter-level recovery; the same on the bytes the real client sends (must equal the public part) and on the message the "
         "real client delivers (must equal the original; injected plaintext must not become payload); after every history step "
         "the split of the resulting object is judged again (leak, whitelist with the fallback text the application set, "
         "partition, fallback text never invented, cycle keeps every getter value).",
    trusted_base=[
        "Lean 4.33.0 kernel; axioms per theorem listed under coverage.theorems (subset of propext, Classical.choice, Quot.sound)",
        "translators/sce_table.py (regex reader of QXmppMessage.cpp, QXmppStanza.{h,cpp}, QXmppConstants_p.h and the helper classes' "
        "toXml/isX functions): its output is what the theorems are about; its reading of guards, tags and namespaces is validated "
        "on every run by the element-inventory correspondence (write and parse, all modes) against the real library",
        "the specification lean/Qx/Model/C17Spec.lean (wire identity -> kind -> class, default unknown = payload; one name-keyed "
        "exception: the API field designated as explicit fallback text) and the independent hand whitelist + payload list in "
        "harness/cxx/sce.cpp, both read off the property text and the XEPs",
        "QXmlStreamWriter / QDomDocument (namespace processing) as used by the harness to cut serialised parts into child elements",
    ],
    assumptions=[
        "value level (attributes, inner text of each element) is not modelled in Lean; it is covered by the harness oracle only "
        "(distinctive strings searched in the public bytes; getter values compared after the receive path) — partial",
        "the stanza <error/> is written by toXml in every mode and is outside the table (never set by the harness)",
        "encrypted IQs / error replies are outside the property (messages): covered by translator anchors on the OMEMO code "
        "(iq_outer_carries_no_payload) and four oracle-only checks on the real client; presences have no e2ee path in QXmppClient "
        "(sendSensitive sends them in clear)",
        "the OMEMO <encrypted/> row sits under #ifdef BUILD_OMEMO, which the check build does not define: it is in the table "
        "(and in the theorems) but not exercised by the harness",
        "elements a foreign sender could send but this writer never produces (duplicates of single-valued fields, unknown tags "
        "in the chat-state/chat-marker namespaces) are outside the parse model",
    ],
    level_text="Specification (lean/Qx/Model/C17Spec.lean) written from the property text and the XEPs, keyed by wire identity "
               "(element name, namespace): which elements are conversational payload, which routing / hint / id / explicit fallback. "
               "Theorems for EVERY table that agrees with it (decidable predicates) and EVERY message: every element of the public "
               "part has a wire identity the spec allows outside the envelope (or is the designated fallback text); unsplit = public "
               "(+) sensitive as multisets up to explicit-fallback copies, each other element in exactly one part; the receive path "
               "recovers every field including the unknown extensions. The predicates are decided in the kernel on the table "
               "regenerated from the C++ at every run, row by row and in both directions: today every row agrees with the spec "
               "(table_agrees_with_spec, table_wf), so all of it holds of today's code for all messages (today_*).",
    level_note="Proved about the guard table, not about the C++ text: the table is extracted by a regex translator and tied to the "
               "library by differential inventories (exhaustive over singles and pairs, sampled beyond). Value-level secrecy and "
               "recovery are exploration (oracle), not proof.",
    design_ref="5.17",
    technique="Lean 4 proofs generic in a source-extracted table + decide on the generated table + model/implementation correspondence",
)
