SPEC = dict(
    id="C01",
    title="Stanza codecs lose nothing: serialize-then-parse is the identity on every field",
    lean_modules=["Qx.Props.C01Xml", "Qx.Props.C01Scalar", "Qx.Props.C01Codec"],
    props_files=["lean/Qx/Props/C01Xml.lean", "lean/Qx/Props/C01Scalar.lean", "lean/Qx/Props/C01Codec.lean"],
    drivers=["qxdriver_c01"],
    translators=["ns_constants.py", "codec_literals.py"],
    harnesses=[
        dict(name="xmllayer", asan=False, driver="qxdriver_c01"),
        dict(name="scalars", asan=False, driver="qxdriver_c01"),
        dict(name="codec", asan=False, driver="qxdriver_c01", reset_prefix="codec-reset", args=["--mode", "c01"]),
        dict(name="parsers", asan="lib", args=["--mode", "c01"], timeout=3000),
    ],
    rule="three tiers. A (XML text layer): adversarial/random strings and trees written with the real QXmlStreamWriter and qxmpp helpers, "
         "read with QDomDocument, compared byte-exact / as canonical trees with the Lean render/parse. B (typed scalars): integers at and "
         "around every type bound, lexical variants, booleans, base64 of every length mod 3, XEP-0082 date-times with/without ms, compared "
         "with the Lean models of parseInt<T>/parseBoolean/parseBase64/datetimeFrom/ToString. C (schema codecs): for each modelled class all "
         "present/absent combinations of optional fields + adversarial strings + integers at bounds + 13 structural mutations, real "
         "fromDom/toXml vs Lean decode/encode. Plus the model-independent own-form round-trip / no-injection oracle over every parser in "
         "harness/cxx/codec_table.h on the corpus extracted from the repository's tests.",
    trusted_base=[
        "Lean 4.33.0 kernel; axioms per theorem under coverage.theorems (subset of propext, Classical.choice, Quot.sound)",
        "Lean model of Qt 5.15 QXmlStreamWriter escaping / QDom reading (Qx/Xml/Tree.lean, Parse.lean), compared byte-exact and as trees with the real Qt on every run (xmllayer)",
        "translators/ns_constants.py (namespace writer calls take compile-time constants only; constants contain no metacharacter: ns_constants_ok by decide on the generated list)",
        "Qt 5.15.8 QString::toInt-family / QByteArray base64 / QDateTime Qt::ISODate lexical behaviour as modelled in Qx/Xml/Codec/Scalar.lean, compared on every run (scalars)",
        "hand-written class schemas lean/Qx/Xml/Codec/Classes.lean, tied to the C++ fromDom/toXml pairs by the codec correspondence",
    ],
    assumptions=[
        "the scalars harness runs in TZ=Asia/Kolkata (+05:30, one offset for all dates = model parameter loc/harnessLocalOffset); the codec harness runs in UTC (dtParseCode = dtParseCodeAt 0); well-formed UTF-16 (no lone surrogates)",
        "classes without a schema (measured fraction in coverage.stats.codec) are covered by tiers A/B and by the model-independent oracle only",
    ],
    level_text="Theorems for all strings/values: escaping is invertible and metacharacter-free (no markup injection), parse(render t) = t on "
               "well-formed trees and structure-independent of payloads on all trees, integer/boolean/base64/date-time round trips over "
               "the whole lexical range, and one generic decode(encode v) = v for every well-formed schema instantiated (wf_<Class> by "
               "decide) for the modelled classes, whose tag/attribute literals are tied to the source by the codec_literals translator; each tier tied to the real Qt/qxmpp functions by correspondence.",
    level_note="Proved about hand-written models of Qt's writer/reader, the scalar helpers and per-class schemas; the model-to-code tie is "
               "differential. Classes without a schema are NOT proved (covered by the own-form/injection oracle on the test corpus).",
    design_ref="5.1",
    technique="Lean 4 proofs (escape/parse round trip, generic schema codec) + correspondence with Qt/qxmpp + translator for namespace constants",
)
