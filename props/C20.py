SPEC = dict(
    id="C20",
    title="The entity-capabilities hash is the XEP-0115 value, order- and duplicate-blind",
    lean_modules=["Qx.Props.C20"],
    props_files=["lean/Qx/Props/C20.lean"],
    drivers=["qxdriver_c20"],
    harnesses=[dict(name="caps", asan=False, driver="qxdriver_c20")],
    exhaustive=True,
    rule="info sets (<= 4 identities over category/type/lang/name, <= 6 features with repetitions, optional XEP-0128 form with QString / "
         "QStringList / bool fields, strings over characters of every UTF-8 length class incl. non-BMP, plus streams with irregular forms "
         "and with separator characters) built as real QXmppDiscoveryIq objects; per set: verificationString() == Lean verStringCode + "
         "Lean-native SHA-1/base64 ('ver' lines, also for random joint permutations, a repeated feature, and single alterations), Lean "
         "verStringSpec == independent C++ implementation of XEP-0115 5.1 with octet collation ('spec' lines); oracle on the real code: == "
         "the independent XEP value, every permutation of every section of small sets (all n! orders) gives the same hash, repeated "
         "feature gives the same hash, each single alteration changes the hash, the wire rule == the XML really written; client part: "
         "real QXmppClient with discovery manager, random bundled managers and generated extensions/identities/info forms: <c ver> of "
         "the emitted presence == XEP hash recomputed from the XML of the real disco#info reply for node#ver ('caps' lines tie the "
         "capabilities()/addProperCapability()/handleIq() model); then per client a history of 2-5 reconfigurations (setClientName/Type/Category/"
         "CapabilitiesNode/InfoForm, addExtension, removeExtension) interleaved with EVERY presence emission site: setClientPresence and "
         "connectToServer + session start (fresh presence or one derived from clientPresence()), session start after an automatic reconnection "
         "(_q_reconnect) or after a reconfiguration made between connectToServer and the session start, QXmppMucRoom::join, "
         "disconnectFromServer, plus presences built from scratch (MUC leave, roster subscription management: must carry no caps); after EVERY emitted presence its <c node ver> is compared with the independently computed XEP hash of the "
         "XML the client answers at that moment, and node#ver / plain node / no node are queried ('config'/'publish'/'connect'/'emit'/'query' "
         "lines tie the stored-presence model clientStep); capabilities nodes include adversarial URIs ('#' inside / repeated / at the end, "
         "XML-special and non-ASCII characters, nodes that are prefixes or extensions of each other, the empty node = nothing advertised). "
         "A sequence (one base set with its variants, or one client history) is non-trivial when it yields >= 2 distinct observations.",
    trusted_base=[
        "Lean 4.33.0 kernel; axioms per theorem listed under coverage.theorems (subset of propext, Classical.choice, Quot.sound)",
        "hand-written model lean/Qx/Model/C20Caps.lean (verStringCode = transcription of QXmppDiscoveryIq::verificationString incl. QMap, "
        "octetLessThan sorting, removeDuplicates/join, QVariant::toString for FORM_TYPE, field values as written by toXml; verStringSpec = XEP-0115 5.1 on the wire view of QXmppDataForm::toXml), "
        "tied to src/base/QXmppDiscoveryIq.cpp, QXmppDataForm.cpp, src/client/QXmppDiscoveryManager.cpp, QXmppClient.cpp by the correspondence run",
        "shared Lean libraries Qx.Base.Utf8 (encoder, utf16Units), Qx.Crypto.Sha1, Qx.Crypto.Base64 (executable specs; every 'ver'/'spec' line "
        "compares them with Qt's QCryptographicHash/toBase64/toUtf8 on that input)",
        "Qt: QByteArray::operator< is unsigned octet order, QString::operator< (QMap) is code-unit order, QCryptographicHash, QDom parsing of the "
        "emitted XML (used by the independent oracle)",
        "the wire is read with QXmlStreamReader as the conforming peer (one value per <value/> element, whitespace kept, XML 1.0 2.11 line-end normalisation); form values are "
        "opaque strings over an alphabet including LF/CR/TAB/blanks/markup characters/U+2028/long strings",
        "the reading of XEP-0115 5.1: identities ordered by (category, type, lang, name) as tuples, i;octet collation, features as a set "
        "(5.4 item 4), a form without FORM_TYPE ignored (5.4 item 6)",
    ],
    assumptions=[
        "H_injective_on: 'the hash changes' theorems assume SHA-1 does not collide on the two strings at hand (named hypothesis, never an axiom)",
        "'changes whenever altered' needs: no '<' in any component, no '/' in category/type/lang, and (across sections) the same shape; the "
        "XEP-0115 string format itself is ambiguous otherwise (theorems xep_string_ambiguous_*); XEP-0115 5.4 rejects '<' on receipt",
        "field 'var's are unique (XEP-0004 3.2); with a repeated var the QMap keeps the last field (field_order_matters_when_keys_repeat)",
        "strings are well-formed Unicode (no lone surrogates in a QString)",
        "no presence emitted => nothing claimed: between a reconfiguration and the next emitted presence the previously advertised hash is "
        "stale (counted as stale_ver_answered_with_new_info_before_any_new_presence); every presence that IS emitted is judged",
        "scope: generation/advertisement vs. own answer only; verifying other entities' caps (XEP-0115 5.4) has no code path in qxmpp and is "
        "outside the property; XEP-0390 (caps 2.0) is not emitted by the library",
    ],
    level_text="Theorems for ALL info sets: ver_perm_invariant (identities, features, fields, values in any order), ver_feature_set_invariant / "
               "ver_dup_feature_invariant, ver_string_injective_tokens / _on_canonical and the ver_changes_when_* corollaries under named "
               "SHA-1 collision freedom, code_eq_spec (C++ string = XEP-0115 5.1 string for every info set with a form in the XEP's domain: "
               "any characters, strings / lists / booleans / value-less fields; i;octet on UTF-8 proved to be code point order), "
               "advertised_eq_answered / advertised_eq_xep_hash_of_answer, advertised_node_always_answered (any node string), "
               "reply_features_nodup; for ALL client histories over {reconfigure, setClientPresence, connectToServer, session start / MUC join / "
               "disconnect, query}: every_emitted_presence_has_fresh_caps and every_emitted_presence_advertises_the_answer_of_that_moment "
               "(unrestricted) and every_emitted_presence_advertises_the_wire_hash_of_the_answer; wire_view_is_one_value_per_element. No defect theorem is left. Model tied to the real library by exhaustive-permutation + random correspondence, an "
               "independent XEP implementation, and real client histories on a loopback connection.",
    level_note="Proved about the hand-written model; model-to-code tie is differential (all permutations of small sets, sampled beyond; sampled "
               "client histories over every presence emission site). SHA-1 collision resistance is a named hypothesis. All nine deviations found "
               "(collation, repeated features, boolean fields, value-less fields, stale caps at session start / MUC join / disconnect, empty non-null form value, CR in a form value) are fixed "
               "in /repo (0beac74, eee8133, 03b8892, 032336b); their witnesses stay in the corpus and would now be violations. Verification of "
               "other entities' caps (XEP-0115 5.4) and XEP-0390 are out of scope (no code path / not emitted); presences the application "
               "builds itself and sends with sendPacket are the application's own.",
    design_ref="5.20",
    technique="Lean 4 proofs (sorting/permutation, injective encoding, UTF-8 order) + model/implementation correspondence + independent XEP-0115 oracle",
)
