SPEC = dict(
    id="C20",
    title="The entity-capabilities hash is the XEP-0115 value, order- and duplicate-blind",
    lean_modules=["Qx.Props.C20"],
    props_files=["lean/Qx/Props/C20.lean"],
    drivers=["qxdriver_c20"],
    harnesses=[dict(name="caps", asan=False, driver="qxdriver_c20")],
    exhaustive=True,
    rule="info sets (<= 4 identities over category/type/lang/name, <= 6 features with repetitions, optional XEP-0128 form with QString / "
         "QStringList / bool fields, strings over characters of every UTF-8 length class incl. non-BMP, plus streams with irregular forms "
         "and with separator characters) built as real QXmppDiscoveryIq objects; per set: verificationString() == Lean verStringCode + "
         "Lean-native SHA-1/base64 ('ver' lines, also for random joint permutations, a repeated feature, and single alterations), Lean "
         "verStringSpec == independent C++ implementation of XEP-0115 5.1 with octet collation ('spec' lines); oracle on the real code: == "
         "the independent XEP value, every permutation of every section of small sets (all n! orders) gives the same hash, repeated "
         "feature gives the same hash, each single alteration changes the hash, the wire rule == the XML really written; client part: "
         "real QXmppClient with discovery manager, random bundled managers and generated extensions/identities/info forms: <c ver> of "
         "the emitted presence == XEP hash recomputed from the XML of the real disco#info reply for node#ver ('caps' lines tie the "
         "capabilities()/addProperCapability()/handleIq() model); then per client a history of 2-5 reconfigurations (setClientName/Type/Category/"
         "CapabilitiesNode/InfoForm, addExtension, removeExtension) each followed by a re-publication (fresh presence or one derived from "
         "clientPresence(); via setClientPresence or via connectToServer + session start on a loopback socket) and the same comparison after "
         "EVERY emitted presence, for node#ver, the plain node and no node ('config'/'publish'/'query' lines tie the stateful clientStep model); "
         "capabilities nodes include adversarial URIs ('#' inside / repeated / at the end, XML-special and non-ASCII characters, nodes that are "
         "prefixes or extensions of each other, the empty node = nothing advertised). A sequence (one base set with its variants) is non-trivial when it "
         "yields >= 2 distinct hashes.",
    trusted_base=[
        "Lean 4.33.0 kernel; axioms per theorem listed under coverage.theorems (subset of propext, Classical.choice, Quot.sound)",
        "hand-written model lean/Qx/Model/C20Caps.lean (verStringCode = transcription of QXmppDiscoveryIq::verificationString incl. QMap, "
        "octetLessThan sorting, removeDuplicates/join, QVariant::toString; verStringSpec = XEP-0115 5.1 on the wire view of QXmppDataForm::toXml), "
        "tied to src/base/QXmppDiscoveryIq.cpp, QXmppDataForm.cpp, src/client/QXmppDiscoveryManager.cpp, QXmppClient.cpp by the correspondence run",
        "shared Lean libraries Qx.Base.Utf8 (encoder, utf16Units), Qx.Crypto.Sha1, Qx.Crypto.Base64 (executable specs; every 'ver'/'spec' line "
        "compares them with Qt's QCryptographicHash/toBase64/toUtf8 on that input)",
        "Qt: QByteArray::operator< is unsigned octet order, QString::operator< (QMap) is code-unit order, QCryptographicHash, QDom parsing of the "
        "emitted XML (used by the independent oracle)",
        "the reading of XEP-0115 5.1: identities ordered by (category, type, lang, name) as tuples, i;octet collation, features as a set "
        "(5.4 item 4), a form without FORM_TYPE ignored (5.4 item 6)",
    ],
    assumptions=[
        "H_injective_on: 'the hash changes' theorems assume SHA-1 does not collide on the two strings at hand (named hypothesis, never an axiom)",
        "'changes whenever altered' needs: no '<' in any component, no '/' in category/type/lang, and (across sections) the same shape; the "
        "XEP-0115 string format itself is ambiguous otherwise (theorems xep_string_ambiguous_*); XEP-0115 5.4 rejects '<' on receipt",
        "field 'var's are unique (XEP-0004 3.2); with a repeated var the QMap keeps the last field (field_order_matters_when_keys_repeat)",
        "strings are well-formed Unicode (no lone surrogates in a QString)",
        "advertised == answered is about one fixed configuration: reconfiguring the manager after the presence was sent leaves the advertised "
        "hash stale until the next presence is published (counted as stale_ver_answered_with_new_info_before_republication; nothing is claimed "
        "between publications, every newly emitted presence is checked)",
    ],
    level_text="Theorems for ALL info sets: ver_perm_invariant (identities, features, fields, values in any order), ver_feature_set_invariant / "
               "ver_dup_feature_invariant, ver_string_injective_tokens / _on_canonical and the ver_changes_when_* corollaries under named "
               "SHA-1 collision freedom, code_eq_spec (C++ string = XEP-0115 5.1 string for every info set with a form in the XEP's domain and "
               "plain values, any characters; i;octet on UTF-8 proved to be code point order), advertised_eq_answered / "
               "advertised_eq_xep_hash_of_answer, every_published_ver_is_answered (any history of reconfigure/publish/query), reply_features_nodup; defects with witnesses: C20_defect_boolean_field, "
               "C20_defect_valueless_field. Model tied to the real library by exhaustive-permutation + random correspondence and an "
               "independent XEP implementation.",
    level_note="Proved about the hand-written model; model-to-code tie is differential (all permutations of small sets, sampled beyond). SHA-1 "
               "collision resistance is a named hypothesis. Two recorded deviations from XEP-0115 (boolean fields hashed as true/false, "
               "value-less fields hashed as var<<) are excluded from code_eq_spec by the PlainForm hypothesis; the collation and repeated-"
               "feature defects found earlier are fixed in /repo (0beac74, eee8133) and their witnesses stay in the corpus.",
    design_ref="5.20",
    technique="Lean 4 proofs (sorting/permutation, injective encoding, UTF-8 order) + model/implementation correspondence + independent XEP-0115 oracle",
)
