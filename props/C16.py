SPEC = dict(
    id="C16",
    title="The server routes only for authenticated clients and stamps their true address",
    lean_modules=["Qx.Props.C16"],
    props_files=["lean/Qx/Props/C16.lean"],
    drivers=["qxdriver_c16"],
    harnesses=[dict(name="server", asan=False, driver="qxdriver_c16")],
    exhaustive=True,
    rule="real QXmppServer (domain example.org, no TLS) on loopback inside the harness, run with TWO password checkers: (a) a table "
         "checker overriding checkPassword/getDigest whose QXmppPasswordReply objects finish when the script says 'deliver i', and "
         "(b) a checker implementing only getPassword()/hasGetPassword() (the documented way), so that the library's default "
         "checkPassword()/getDigest() run and replies finish on the next event-loop turn; server nonces are the real random ones; a victim socket logged in with PLAIN + bind + presence; an attacker "
         "socket playing scripts over {stream open right/wrong domain, <auth>/<authenticate> PLAIN|DIGEST-MD5|ANONYMOUS|unknown with "
         "right/wrong/empty/junk/non-base64 payloads, <response> (SASL and SASL2), <abort>, deliver, bind, session, "
         "message/presence/iq with from in {absent, own full, own bare, victim's, garbage} and to in {victim, server, self, nobody, "
         "other domains, absent}, stream close}: every word of length 2 before any stream header, lengths 1..3 (quick) / 1..4 (thorough) "
         "over a 24-symbol alphabet and length 4 (quick) / 5 (thorough) over an 11-symbol alphabet after a stream header, length 2 (quick) / 3 (thorough) over the 24 symbols after a "
         "correct PLAIN login and 3 / 4 over the 11 symbols after a SASL2 login with inline bind (a word whose "
         "connection died after k symbols stands for all words with that prefix), DIGEST-MD5 exchanges (SASL and SASL2, both checkers) to length 3/4 over a 14-symbol alphabet of "
         "responses computed from the right / a wrong / the empty password for known, unknown and temporarily failing users, from "
         "another account's secret, and recorded responses replayed over a stale nonce; an alphabet of names containing '/' and '@' "
         "(an account literally called victim@example.org/x), PLAIN/DIGEST authorization identities and from/to in another case; "
         "TWO attacker connections logged in as the same user over a 14-symbol alphabet (same/different resource, conflict, "
         "rebind, stanzas to each other's full and bare jid, leaving, becoming somebody else) to length 3/4; "
         "ten awkward but legal account names (%1, ops.%2, 100%, a%%b, {0}, backslash, quotes, blank, non-ASCII, 300 characters) logging "
         "in with PLAIN and DIGEST-MD5 and sending with from absent / own full / own bare; a from/to alphabet (absent, present but "
         "empty, blank, own bare, own full, somebody else's x 4 'to' x message/presence/iq); an overlap alphabet (a second <auth>/<authenticate> -- PLAIN, DIGEST-MD5, SASL2 -- between an "
         "exchange and its deferred checker reply, replies delivered late and out of order) and SEVERAL ELEMENTS IN ONE WRITE "
         "('e1 + e2 + ...', e.g. after a failing element: response keyed with another account's secret + final response + bind + "
         "message); plus seeded random scripts up to 20 elements, half of them interleaving two connections "
         "(mostly starting with a correct login); a fresh server, victim login and attacker connection per script. Every line compares "
         "with the Lean model: canonical elements received by attacker and victim, stanzas the attacker's QXmppIncomingClient emitted "
         "for routing, clientConnected/clientDisconnected signals, the jid at each auth.success counter and the server-side jid() after "
         "the step. A write to a connection that is gone (through a routing entry that outlived it) would be observed -- "
         "incoming clients are kept alive until the end of the script, the write shows up as a 'sent' log of a closed client -- and the "
         "model predicts none; the two former crash witnesses are also run for real in a child process (must survive). The witnesses of the four former findings are the first corpus scripts. A sequence is non-trivial when it yields >= 2 distinct observations.",
    trusted_base=[
        "Lean 4.33.0 kernel; axioms per theorem listed under coverage.theorems (subset of propext, Classical.choice, Quot.sound)",
        "hand-written model lean/Qx/Model/C16Server.lean, tied to src/server/QXmppIncomingClient.cpp, src/server/QXmppServer.cpp, "
        "src/base/QXmppSasl.cpp (QXmppSaslServer*), src/base/Stream.cpp (XmppSocket::processData) by the correspondence run",
        "the reading of the property in lean/Qx/Props/C16.lean (Approved / JidOf / NeedsAuth in lean/Qx/Proofs/C16.lean)",
        "Qt: QTcpSocket/QSslSocket in plain mode on loopback, QObject parent/child deletion, QPointer, direct signal delivery",
        "DIGEST-MD5 is abstracted: a response verifies iff it was computed from the digest the checker returns for the named user "
        "over the nonce of this session's challenge (MD5 collision freeness is the named assumption behind 'computed from'); the harness "
        "computes real responses over the server's real nonces, and replays responses carrying a stale nonce",
    ],
    assumptions=[
        "password checker = any function of (user, password) resp. user (Cfg), or derived from getPassword exactly as the library "
        "defaults do (Cfg.ofGetPassword, theorem auth_only_if_getPassword_approves); answered when asked and delivered at an arbitrary later "
        "point (QXmppPasswordReply::finished); user names/domains compared as raw strings as the code does",
        "no server extensions, no S2S listener, no TLS (setLocalCertificate not called): default stanza handler only",
        "server-to-server (QXmppIncomingServer/QXmppOutgoingServer, dialback) is OUT OF SCOPE: no S2S listener, stanzas to other "
        "domains are not routed",
        "the model keeps an 'ub' output where onSasl2Authenticated() would read an unset sasl2AuthRequest; since repo commit e17a168 no "
        "explored script reaches it (not proved unreachable); the configured domain is assumed to contain no '/' (literal theorems)",
        "JIDs are compared as raw strings as the code does (no stringprep / case folding): an address in another case is simply "
        "another address",
        "bind resources are not trimmed in the model (the harness sends none with surrounding white space); generated resources are "
        "canonicalised by order of first appearance",
    ],
    level_text="Theorems for every checker (arbitrary, or getPassword-derived as the library defaults do), every number of connections, "
               "every interleaving and every script, several elements per read included: a connection's jid is literally "
               "user@domain[/resource] for a well-formed user name whose credential the checker approved "
               "(auth_only_if_checker_approved[_literal], auth_only_if_getPassword_approves); nothing is bound/routed/answered "
               "before authentication (needs_auth_only_authenticated, routes_/bind_only_authenticated); every routed or delivered "
               "stanza carries the sending connection's own jid or its bare form (from_is_authenticated_jid, cannot_spoof, "
               "cannot_spoof_approved, cannot_spoof_literal, replies_addressed_to_sender); the routing tables only ever reference "
               "open connections (tables_reference_open_connections, never_routes_to_closed_connection). Model tied to the real "
               "server by exhaustive + random loopback scripts with one and two attacker connections, two checker flavours, deferred "
               "replies and multi-element writes.",
    level_note="Proved about the hand-written model; model-to-code tie is differential (exhaustive to a depth, sampled beyond). No open "
               "finding: eight findings (pre-auth stanza/bind/session, reply confusion, names with '/' or '@', stale routing entries, "
               "SASL2 request unset, processing after disconnect) are fixed in the repo; witnesses and three child-process crash "
               "probes stay in the corpus. S2S/dialback, stringprep/case folding of JIDs, extensions and TLS are out of scope.",
    design_ref="5.16",
    technique="Lean 4 invariant proofs over op lists + model/implementation correspondence on loopback",
)
