SPEC = dict(
    id="C08",
    title="Every incoming IQ request is answered exactly once; responses are never answered",
    lean_modules=["Qx.Props.C08"],
    props_files=["lean/Qx/Props/C08.lean"],
    drivers=["qxdriver_c08"],
    translators=["iq_handlers.py"],
    harnesses=[dict(name="iqreply", asan=False, driver="qxdriver_c08")],
    exhaustive=True,
    rule="cell = entry (stream: QXmppOutgoingClient::handlePacketReceived | decrypted: QXmppClient::injectIq) x type "
         "{get,set,result,error,absent,garbage} x from {none,domain,own bare,own full,own other resource,other} x id "
         "{absent,fresh,id of an outstanding sendIq request,id of an outstanding registration request,id of an outstanding "
         "setBookmarks request} x payload (catalogue "
         "of ~300 (quick) / ~380 (thorough) child lists: for each of 28 (tag,ns) keys handled by a bundled manager the "
         "well-formed element, the bare element, malformed content, detail variants (with/without `with`, method a.b / "
         "ab / a.b.c, own/foreign disco node, bookmarks / other private storage), after/before an unknown sibling, wrong "
         "namespace, wrong tag, prefixed, with an <error/> sibling, behind text/comment, doubled; plus no child, unknown "
         "children, text only, elements nobody handles, and elements claimed by two managers at once). Every (payload x "
         "type x from) of the configuration's payload set is enumerated in both tiers with id=fresh on the stream entry; "
         "the id and entry dimensions are complete for payloads the configuration's managers look at (and everywhere in the "
         "thorough tier), seeded otherwise; attribute spellings (absent vs empty, 8 garbage types, look-alike JIDs, ids "
         "needing XML escaping) are seeded. Configurations: no extension; each of 31 bundled managers alone (blocking also "
         "subscribed); the default set; the default set and two bookmark sets over a really connected loopback socket; all "
         "managers together in 3 (quick) / 7 (thorough) registration orders; 12 / 60 random small sets. A fresh client per cell "
         "(every 50 cells in the quick all-managers runs). Each line compares who decided (measured with probe extensions between the "
         "managers), number of IQ replies, their kind / to / id, other traffic, and the stream error, between the real "
         "client and the Lean model; a configuration is non-trivial when it yields >= 2 distinct observations.",
    trusted_base=[
        "Lean 4.33.0 kernel; axioms per theorem listed under coverage.theorems (subset of propext, Classical.choice, Quot.sound)",
        "hand-written model lean/Qx/Model/C08Dispatch.lean (each bundled handleStanza transcribed over an abstract DOM), tied to "
        "src/client/*Manager.cpp, QXmppClient.cpp, QXmppOutgoingClient.cpp, QXmppIqHandling.{h,cpp} by the correspondence run",
        "translators/iq_handlers.py (regex reader): handler sites, handler style, default extension set, pipeline anchors",
        "abstraction of a stanza to (type, from, id, entry, [(tag, ns, flag)]): behaviour depending on anything else would show "
        "as a correspondence mismatch only on the payload variants in the catalogue (sampled part)",
        "QDomDocument namespace processing (the harness parses the stanza wrapped in a stream element exactly like "
        "XmppSocket::processData); Qt direct signal delivery",
    ],
    assumptions=[
        "managers are in their initial state apart from the modelled ones (blocklist subscribed, outstanding registration id, "
        "outstanding sendIq request, outstanding setBookmarks request): no transfer jobs, no joined MUC rooms (the MUC row is proved good with and without), no "
        "RPC interface registered, nobody connected to QXmppTransferManager::fileReceived (with a listener the reply to an "
        "accepted SI offer is deferred to the application)",
        "QXmppCallManager (WITH_GSTREAMER=OFF) and QXmppOmemoManager (BUILD_OMEMO=OFF) are not part of the built library: not "
        "modelled, not measured",
        "replies are observed as SentMessage log records of the client's socket; delivery by the server is outside the model",
        "absent/garbage `type` is outside the property text; the model and the harness still agree on it (stream error + "
        "disconnect when no extension claims the stanza)",
    ],
    level_text="Theorems: lifting lemma for every extension list (request_answered_once, response_never_answered); every "
               "bundled handler (32 model rows) is good at every stanza with any number of children (every_row_good); C08_holds: "
               "for every set and order of bundled managers and every stanza, get/set => exactly one reply with the same id to the "
               "sender, result/error => none (C08_requests, C08_responses spell it out); generated handler-site, claim-predicate "
               "and default-set tables equal the model's. Model tied to the real client by an exhaustive cell-by-cell "
               "correspondence; the 37 witness cells that failed before the repo fixes are replayed first.",
    level_note="Proved about the hand-written model; model-to-code tie is differential over the enumerated cell space "
               "(exhaustive in type x from x payload catalogue, seeded in spellings). Nine managers violated the property until "
               "repo commits 28afc7a 318b7cf 1833c1a 29beb7d 88fc5c1 daa6e10 7916dee e597fe7 af7bef7 (known_findings.json: fixed); "
               "their oracle keys are kept, a recurrence is a violation.",
    design_ref="5.8",
    technique="Lean 4: chain-lifting lemma + per-handler case analysis over an abstract DOM; translator for handler sites; "
              "model/implementation correspondence on the real QXmppClient",
)
