import json, os

_ROOT = os.path.dirname(os.path.dirname(os.path.abspath(__file__)))


def _stale_review(chk):
    """Informational: which transcribed C++ bodies changed since the model rows were last reviewed against them
    (translators/iq_handlers_reviewed.json). A changed body with an unchanged behaviour on the enumerated cells keeps the
    check green; the note says that the correspondence, not a re-read of the source, is what vouches for that row now."""
    try:
        now = json.load(open(os.path.join(_ROOT, ".build", "c08_body_hashes.json")))
        rev = json.load(open(os.path.join(_ROOT, "translators", "iq_handlers_reviewed.json")))
    except Exception as ex:  # translator did not run
        chk.cov["handler_bodies_changed_since_review"] = ["(hash files unavailable: %s)" % ex]
        return
    changed = sorted(k for k in set(now) | set(rev) if now.get(k) != rev.get(k))
    chk.cov["handler_bodies_hashed"] = len(now)
    chk.cov["handler_bodies_changed_since_review"] = changed
    if changed:
        chk.log("NOTE: %d transcribed function bodies changed since the model was last reviewed against the source "
                "(model may be stale; the cell-by-cell correspondence is what ties these rows now): %s" % (len(changed), ", ".join(changed)))


SPEC = dict(
    id="C08",
    title="Every incoming IQ request is answered exactly once; responses are never answered",
    lean_modules=["Qx.Props.C08"],
    props_files=["lean/Qx/Props/C08.lean"],
    drivers=["qxdriver_c08"],
    translators=["iq_handlers.py"],
    harnesses=[dict(name="iqreply", asan=False, driver="qxdriver_c08")],
    extra=[_stale_review],
    exhaustive=True,
    rule="cell = entry (s: stream, QXmppOutgoingClient::handlePacketReceived | e: QXmppClient::injectIq with e2ee metadata | x: "
         "encrypted on the stream, claimed and decrypted by a dummy QXmppE2eeExtension installed as first extension and as the "
         "client's encryption extension, which calls injectIq) x stream phase (session | a negotiation manager is the listener: "
         "TLS required and inactive, STARTTLS, SASL, SASL2, bind, SM request — seeded which) x type {get,set,result,error,absent,"
         "garbage} x from {none,domain,own bare,own full,own other resource,the peer the client has state with,any other foreign "
         "JID} x id {absent,fresh,id of an outstanding sendIq request,of an outstanding registration request,of an outstanding "
         "setBookmarks request,of a joined room's permission request} x payload (catalogue of ~310 (quick) / ~390 (thorough) child "
         "lists: for each of 28 (tag,ns) keys handled by a bundled manager the well-formed element, the bare element, malformed "
         "content, detail variants (with/without `with`, method a.b / ab / a.b.c, own/foreign disco node, bookmarks / other private "
         "storage, IBB elements with the job's sid / good and bad block-size / sequence number, SI offers with no / an unsupported / "
         "a supported stream method, MUC owner form present or not), after/before an unknown sibling, wrong namespace, wrong tag, "
         "prefixed, with an <error/> sibling, behind text/comment, doubled; plus no child, unknown children, text only, elements "
         "nobody handles, and elements claimed by two managers at once). Every (payload x type x from) of the configuration's "
         "payload set is enumerated in both tiers with id=fresh on the stream entry in session phase; the id, entry and phase "
         "dimensions are complete for payloads the configuration's managers look at in the thorough tier and for the single-manager "
         "configurations, seeded otherwise; attribute spellings (absent vs empty, 8 garbage types, look-alike JIDs, ids needing XML "
         "escaping) are seeded. Configurations: no extension; two application-style extensions (not bundled; new-style passing the "
         "e2ee metadata on and old-style) that answer through the public helper QXmpp::handleIqRequests<>() in every documented way "
         "that compiles — handler object with handleIq() overloads / callable; returning a fresh IQ of default type, the received IQ "
         "itself (type get or set), an IQ typed result, an IQ typed error, a QXmppStanza::Error; as the IQ type or inside a "
         "std::variant (the three QXmppTask ways are in the harness behind -DC08_HELPER_TASKS=1: with today's header they do not "
         "compile, see fixes/C08-helper-task-result-forwarding.diff); each of 31 bundled managers alone, also in their non-initial states "
         "(blocking subscribed; transfer manager whose application accepts an offer with a writable device / with a device that is "
         "not writable / aborts it — in the fileReceived slot or, the offer pending in between, after the slot returned —, with an "
         "accepted job, with an opened job whose receiving device is good / fails / takes half a block, with a job finished by a "
         "failed write; MUC manager with a room waiting for its permission lists); the default set, also over a "
         "really connected loopback socket and after that socket was disconnected again; bookmark / room / job sets next to "
         "competing managers; all managers together in 3 (quick) / 7 (thorough) registration orders with the stateful variants "
         "rotated in; 8 / 24 random small sets. A fresh client per cell (every 50 cells in the quick stateless all-managers runs). "
         "The 37 witness cells of the repaired defects run first, then 10 whole incoming in-band transfers (offer, open, 3 data, close, "
         "late data, open for an unknown session; decision x timing x device), each in a child process, with the replies counted "
         "per request id (oracle only: exactly one each; a crash of the library is the failure of the request it died in). Each line compares who decided (measured with probe extensions "
         "between the managers), number of IQ replies, per reply result | error type + defined condition / to / id / sent through "
         "the e2ee extension, other traffic, and the stream error, between the real client and the Lean model; a configuration is "
         "non-trivial when it yields >= 2 distinct observations. Oracle (model independent): get/set => exactly one IQ of type "
         "result|error, `to` = the request's `from` (absent `to` only towards the own server), same id, no foreign `from`, an "
         "error with exactly one <error/> carrying a valid type and exactly one defined condition; "
         "when no extension decided: cancel + feature-not-implemented|service-unavailable, and encrypted if the request was; "
         "result/error => no reply; before session establishment => no reply.",
    trusted_base=[
        "Lean 4.33.0 kernel; axioms per theorem listed under coverage.theorems (subset of propext, Classical.choice, Quot.sound)",
        "hand-written model lean/Qx/Model/C08Dispatch.lean (each bundled handleStanza transcribed over an abstract DOM), tied to "
        "src/client/*Manager.cpp, QXmppClient.cpp, QXmppOutgoingClient.cpp, QXmppIqHandling.{h,cpp} by the correspondence run",
        "translators/iq_handlers.py is a regex reader, not a semantic one. It DOES trip (lake build fails) on: a class in "
        "src/client gaining or losing a `bool X::handleStanza(` definition; a handler switching between the old and the e2ee-aware "
        "signature; a handleStanza body calling a new / no longer calling an `isXyz(` predicate or handleIqRequests<T> type (names, "
        "in order of first appearance); a change of the BasicExtensions block; it exits 1 when the textual anchors of the pipeline "
        "(order ack manager - IQ table - extensions, new-style-then-old-style call, the get/set tests of the two fallbacks) are "
        "gone. It does NOT trip on: a changed condition inside a handler that keeps the same predicate names (e.g. `== Result` "
        "to `!= Error`, a dropped sender check), changes inside the isXyz predicates themselves (src/base), inside helper "
        "functions, or in what is sent. Those are caught only if they change the observation of an enumerated cell "
        "(correspondence / oracle). For them the translator hashes 40 function bodies (every handleStanza, the pipeline functions, "
        "the transfer / RPC / disco / time / version helpers); props/C08.py reports bodies whose hash differs from "
        "translators/iq_handlers_reviewed.json in the log and in coverage.handler_bodies_changed_since_review (informational: "
        "'model may be stale'), it does not fail the check on its own",
        "abstraction of a stanza to (type, from, id, entry, phase, [(tag, ns, flag, flag2)]): behaviour depending on anything else "
        "would show as a correspondence mismatch only on the payload variants in the catalogue (sampled part)",
        "the dummy e2ee extension (hex 'encryption') stands in for QXmppOmemoManager: same two roles (client extension that claims "
        "encrypted IQs and calls injectIq; QXmppE2eeExtension used by QXmppClient::reply/sendSensitive)",
        "QDomDocument namespace processing (the harness parses the stanza wrapped in a stream element exactly like "
        "XmppSocket::processData); Qt direct signal delivery; queued signals are flushed with sendPostedEvents before observing",
    ],
    assumptions=[
        "manager states covered: initial; blocklist subscribed; outstanding registration / setBookmarks / sendIq request; "
        "fileReceived listener that accepts or declines synchronously; one incoming in-band job (accepted, opened); a MUC room "
        "waiting for permission lists / able to receive its configuration form; decisions about an offer taken in the slot or later "
        "in the same event turn, with writable / unwritable device or abort; receiving device good / failing / short-writing; a job "
        "finished by a failed write. NOT covered: an application that never decides about an offer (the reply is sent when it "
        "does), SOCKS5 jobs (reply after an asynchronous TCP connect), outgoing transfer jobs, a registered RPC interface (result "
        "instead of item-not-found), the two-minute IBB inactivity timer",
        "the roster manager's handler does not depend on whether the roster was received; pubsub/PEP and MIX managers only handle "
        "<message/> events and IQ results through the request table; Jingle (QXmppCallManager, WITH_GSTREAMER=OFF) and OMEMO "
        "(BUILD_OMEMO=OFF) are not part of the built library: not modelled, not measured",
        "legacy non-SASL authentication (XEP-0078) as negotiation listener is not exercised (it treats any IQ as the answer to its "
        "own query); the six other pre-session states are",
        "replies are observed as SentMessage log records of the client's socket; delivery by the server is outside the model",
        "absent/garbage `type` is outside the property text; the model and the harness still agree on it (stream error + "
        "disconnect when no extension claims the stanza)",
        "observed, modelled, not a C08 matter: QXmppBlockingManager answers a DECRYPTED block/unblock request in the clear (its "
        "handler does not pass the e2ee metadata on; one-line fix fixes/C08-blocking-reply-keeps-e2ee.diff, a C17/C07 matter); with an incoming transfer job a result without from and id carrying "
        "bytestream hosts makes the transfer manager send a SOCKS5 offer to the job's peer (empty == empty proxy match)",
    ],
    level_text="Theorems, all for a stanza with any number of children: (1) lifting lemma for EVERY extension list, session "
               "established: if each handler is good at the stanza, a get/set gets exactly one reply with the same id addressed "
               "to the sender (request_answered_once) and a result/error — awaited or not — gets none (response_never_answered); "
               "(2) every bundled handler in every modelled state and the two application-style helper extensions (43 rows) is good at every stanza (every_row_good), hence "
               "C08_holds / C08_requests / C08_responses for every set, order and state of bundled managers, for the stream, "
               "injectIq and e2ee entries; (3) when no extension claims a get/set the one reply is error cancel/"
               "feature-not-implemented to the sender with the request's id, encrypted iff the request arrived decrypted "
               "(unclaimed_request_gets_feature_not_implemented, unclaimed_request_bundled); (3b) whatever object a handler hands to the "
               "public helper handleIqRequests<>() — IQ of type get, set, result or error, or a stanza error — what is sent is one stanza "
               "of type result or error to the requester with the request's id (helper_reply_is_always_result_or_error, "
               "helper_sends_exactly_one_reply); (4) before the session is "
               "established nothing is sent and the stream is closed (no_reply_before_session); (5) generated handler-site, "
               "claim-predicate and default-set tables equal the model's. NOT proved: which result/error payload a manager "
               "sends beyond type + defined condition; eventual reply when the application defers its decision. Model tied to "
               "the real client by an exhaustive cell-by-cell correspondence; the 37 witness cells that failed before the repo "
               "fixes are replayed first.",
    level_note="Proved about the hand-written model; model-to-code tie is differential over the enumerated cell space "
               "(exhaustive in type x from x payload catalogue per configuration, seeded in spellings and partly in id/entry/phase). "
               "Nine managers violated the property until repo commits 28afc7a 318b7cf 1833c1a 29beb7d 88fc5c1 daa6e10 7916dee "
               "e597fe7 af7bef7, and a declined transfer job could be re-opened and crash the client until 31a1bb4 (known_findings.json: "
               "fixed); their oracle keys and witnesses are kept, a recurrence is a violation.",
    design_ref="5.8",
    technique="Lean 4: chain-lifting lemma + per-handler case analysis over an abstract DOM; translator for handler sites; "
              "model/implementation correspondence on the real QXmppClient",
)
