import os, sys


def crypto_selftest(check):
    """The Lean-native SHA-1/256/512, SHA3, MD5, HMAC, PBKDF2, Base64 (which the model driver uses to predict every
    response byte) against python hashlib/hmac/base64, on fresh seeded vectors, once per run."""
    sys.path.insert(0, os.path.join(os.path.dirname(os.path.dirname(os.path.abspath(__file__))), "tools"))
    import crypto_selftest as cs
    n = 4000 if check.tier == "thorough" else 800
    ok, checked, bad = cs.run(check.seed, n)
    check.cov["stats"]["crypto_selftest_vectors"] = checked
    check.log("crypto selftest (Lean Qx.Crypto vs python hashlib): %s, %d vectors" % ("ok" if ok else "MISMATCH", checked))
    if not ok:
        check.broken.append({"what": "Lean crypto library disagrees with python hashlib/hmac", "detail": bad})


SPEC = dict(
    id="C06",
    title="SASL exchanges follow their RFCs; a server that cannot prove itself is refused",
    lean_modules=["Qx.Props.C06"],
    props_files=["lean/Qx/Props/C06.lean"],
    drivers=["qxdriver_c06", "qxdriver_crypto"],
    harnesses=[dict(name="saslx", asan=True, driver="qxdriver_c06")],
    extra=[crypto_selftest],
    exhaustive=True,
    rule="(a) real QXmppSaslClient objects (SCRAM-SHA-1/-256/-512/SHA3-512, DIGEST-MD5, PLAIN, HT-SHA-256/-512/SHA3-256/SHA3-512-NONE) "
         "with the client nonce forced through QXmppSaslDigestMd5::setNonce; users/passwords over printable Unicode (ASCII, Latin-1, "
         "Greek, Cyrillic, CJK, astral), random salts, iteration counts 1..4096 (quick) / ..34000 (thorough), random nonces; per case the "
         "honest exchange plus enumerated server misbehaviour: foreign nonce (6 shapes + missing r=), bad parameters (no/empty salt, 14 "
         "malformed counts, duplicates, NUL, case), 7 wrong-signature shapes, extra challenges, wrong/missing rspauth, missing nonce, "
         "unsupported qop, non-empty HT challenge, missing/foreign token; user names with , and = and DIGEST values ending in a backslash included; every respond() result is compared with the Lean model, whose "
         "bytes are computed by the Lean-native SHA/HMAC/PBKDF2/MD5 (cross-checked against python hashlib in the same run). "
         "(b) QXmppSaslDigestMd5::parseMessage on ALL strings over {a = , \" \\ SP} up to length 6 (quick) / 7 (thorough) and on random "
         "malformed strings; serialize+parse on random maps. (c) real SaslManager and Sasl2Manager with a capturing socket: ALL server "
         "element sequences up to length 3 (quick) / 4 (thorough) over 12 symbols (honest/foreign server-first, right/wrong "
         "server-final, empty challenge, success bare / with right / with wrong data, failure, failure-aborted, continue, unknown) "
         "plus success carrying the mechanism's FIRST challenge (13 symbols) for SCRAM-SHA-1 and DIGEST-MD5, up to 2 for the other SCRAM hashes, up to 3 over 8 symbols for PLAIN and HT, plus seeded "
         "random longer sequences over all mechanisms; per element: handled/sent bytes/result compared with the model. "
         "(d) FAST tokens across connections: one QXmppConfiguration + FastTokenManager wired as in QXmppOutgoingClient, a fresh "
         "Sasl2Manager per login; ALL op sequences to length 4 (quick) / 5 (thorough) over 12 symbols (replace credentials with/without "
         "password and stored token for 3 mechanisms, login with 5 server offers incl. no <fast/> feature and FAST disabled, success "
         "with/without a new token, failure) plus random sequences to length 17; per op the sent <authenticate/> (mechanism, initial "
         "response, <request-token/>), the stored token (mechanism, secret) and tokenChanged() are compared with the model. "
         "(e) several SCRAM logins in ONE process over a small pool of (salt, count) pairs with different configured passwords, fresh "
         "client objects, direct and through both managers, each judged by the reference server holding that login's password "
         "(the model is per login and pure: the real function must be a function of its arguments; the harness checks it across logins). "
         "A sequence is non-trivial when it yields >= 2 distinct observations. Oracle, independent of the model: reference RFC 5802 "
         "server, RFC 2831 formulas and strict directive parser, RFC 4616 and XEP-0484 messages written in the harness with "
         "QCryptographicHash/QMessageAuthenticationCode/QPasswordDigestor; same password accepted, other password rejected; "
         "SCRAM login reported successful only if the correct server signature reached the client, DIGEST-MD5 login only if the "
         "correct rspauth did; DIGEST-MD5 response-value checked against RFC 2831 incl. its ISO 8859-1 rule for Latin-1 representable "
         "credentials; reserved SCRAM attribute m= must be refused; honest SCRAM exchanges also with extension attributes after i= (AuthMessage = "
         "server-first message as sent); FAST: a server-side ledger (token -> mechanism it was issued for: the <request-token/> of "
         "that login, else the HT mechanism used) — every HT login must announce that mechanism and send user NUL HMAC_hash(token, Initiator). Harness built with ASan+UBSan.",
    trusted_base=[
        "Lean 4.33.0 kernel; axioms per theorem listed under coverage.theorems (subset of propext, Classical.choice, Quot.sound)",
        "hand-written model lean/Qx/Model/C06Sasl.lean (clients, parseGS2, QByteArray::toInt, DIGEST-MD5 grammar, managers), tied to "
        "src/base/QXmppSasl.cpp and src/client/QXmppSaslManager.cpp by the correspondence run",
        "reference RFC 5802 server / RFC 2831 / RFC 4616 / XEP-0484 definitions in the second half of the model file (namespace Ref): "
        "a reading of the specifications, short enough to be checked by eye; a second, independent reading lives in the harness oracle",
        "the hash functions are parameters of every theorem; that Qt's QCryptographicHash, QMessageAuthenticationCode and "
        "QPasswordDigestor compute SHA-1/2/3, MD5, HMAC, PBKDF2 is validated by the byte-level correspondence with the Lean-native "
        "implementations (themselves compared with python hashlib every run), not proved",
        "QByteArray::fromBase64 (lenient), toBase64, split, trimmed, replace, toInt and QMap ordering as modelled (validated by the "
        "correspondence, incl. NUL-terminated toInt and leniently skipped base64 garbage)",
    ],
    assumptions=[
        "user names and passwords are given in the normalised form (the code applies no SASLprep; neither does the model)",
        "named cryptographic assumptions, never axioms: the step from the exact algebraic acceptance conditions "
        "(scram_other_record_condition_partial, digest_other_password_condition_partial, ht_other_token_condition_partial) to "
        "'a server holding a different secret rejects' needs one-wayness/collision resistance of H, MD5, HMAC; on the implementation "
        "the oracle checks rejection under a different password/token for every generated case",
        "'the server proved knowledge of the password' = it presented HMAC(ServerKey, AuthMessage) (unforgeability of HMAC is the "
        "named assumption behind that reading)",
        "mechanism choice (C05), channel binding (HT -ENDP/-UNIQ/-EXPR, SCRAM-PLUS), token expiry and invalidation are outside this "
        "property; FAST theorems assume the application does not replace the credentials while a login is pending and stores a token "
        "together with the mechanism it was issued for",
        "iteration counts above INT_MAX are refused by the client (toInt); theorems carry 1 <= i <= 2^31-1",
        "DIGEST-MD5: the client always announces charset=utf-8 (also when the server did not offer it; RFC 2831 then means "
        "ISO 8859-1) — the DIGEST theorems carry Ref.digestEnc x = x (ASCII, or beyond U+00FF) for user, realm, password; the "
        "excluded Latin-1 case is the recorded finding C06:digest-md5-latin1-hashed-as-utf8",
    ],
    level_text="Theorems, parametric in H/HMAC/Hi/MD5 and for ALL credentials, salts, counts, nonces: the SCRAM messages are RFC 5802's, "
               "a reference RFC 5802 server with the same secret accepts (XOR algebra) and its server-final is accepted with the "
               "verified flag set; foreign nonce, bad parameters, wrong signature, wrong rspauth are refused; DIGEST response = RFC 2831 "
               "value and accepted by a reference server; PLAIN = RFC 4616 (other password rejected), HT = XEP-0484; "
               "parseMessage(serializeMessage m) = m for every QMap with token keys; FULL success_only_after_server_proof for every "
               "server script and both managers (repaired tree: commits 0b21ae7, 43097ab, aca51c7; the old witnesses stay in the corpus). "
               "FAST across connections: stored token always filed under the issuing mechanism, next login announces it and HMACs with its "
               "hash (any history without credential replacement during a pending login). digest_success_only_after_rspauth (every script, both managers) and scram_rejects_reserved_m (repaired tree: 8012ab0, ff6a7ed). "
               "Defect theorems with witnesses (recorded findings, fixes not applied): Latin-1 credentials hashed as UTF-8, unquoted "
               "DIGEST-MD5 directives. "
               "Model tied to the real clients and managers by byte-exact correspondence.",
    level_note="Proved about the hand-written model; model-to-code tie is differential (exhaustive to the stated depth, sampled beyond). "
               "The 'no server with a different secret accepts' half is an exact algebraic condition plus a named cryptographic "
               "assumption (partial), checked empirically by the oracle.",
    design_ref="5.6",
    technique="Lean 4 proofs parametric in the hash functions + independent reference server + model/implementation correspondence",
)
