SPEC = dict(
    id="C91",
    title="TEMPORARY: C01 tier A (XML text layer) end-to-end test",
    lean_modules=["Qx.Props.C01Xml"],
    props_files=["lean/Qx/Props/C01Xml.lean"],
    drivers=["qxdriver_c01"],
    harnesses=[dict(name="xmllayer", asan=False, driver="qxdriver_c01")],
    exhaustive=False,
    rule="tier A",
    trusted_base=["tier A"],
    assumptions=[],
    level_text="", level_note="", design_ref="5.1", technique="",
)
