SPEC = dict(
    id="C07",
    title="Every request completes exactly once, and only by a reply from the entity asked",
    lean_modules=["Qx.Props.C07"],
    props_files=["lean/Qx/Props/C07.lean"],
    drivers=["qxdriver_c07"],
    harnesses=[dict(name="iqtable", asan=False, driver="qxdriver_c07"),
               # part G (re-entrant continuations): harness AND library sanitizer-instrumented, every scenario in a forked child
               dict(name="iqreent", asan="lib", driver="qxdriver_c07")],
    translators=["promise_sites.py"],
    exhaustive=True,
    rule="(A) op sequences over {QXmppClient::sendIq(id,to), OutgoingIqManager::sendIq(packet,id,to), finish(id,send error), "
         "resetCache, <a/> ack, enable SM, received iq/message/presence of type get/set/result/error/none with any id and from "
         "(absent, addressee, bare/full variant, case variant, stranger, own bare/full JID, own domain) injected at "
         "QXmppOutgoingClient::handlePacketReceived, openSession(resumed?), closeSession(canResume?), destruction} on a real client: "
         "exhaustive to depth 5 (quick) / 6 (thorough, 9-symbol sub-alphabet; 12-symbol to 5) over a 12-symbol alphabet "
         "(2 ids x 3 addressees) and to depth 3 / 4 over a 40- / 21-symbol alphabet (all four (smResumed, smEnabled) session-open combinations), plus seeded random sequences of length 2..40 over "
         "the full alphabet incl. library-generated ids, unconfigured client, stream management off, connected loopback socket; "
         "every line compares the completions (request number, how, delivered type and sender) and the set of pending ids between "
         "the real client and the Lean model. (B) QXmppMamManager::retrieveMessages with a dummy QXmppE2eeExtension (instant / deferred "
         "decryption) or none: exhaustive to depth 4 over {start, matching/foreign result message plain/encrypted, <fin/> result, "
         "error or non-resumable close, decryption report 0/1} and to depth 5 / 6 after an initial start, x 4 configurations, plus random; compares finish events with the Lean "
         "machine. (C) 50 request APIs of the client and bundled managers x {empty result, error, unexpected payload, silence, reply "
         "from a stranger} + duplicate reply + the same call a second time + non-resumable session end: completions counted (oracle only). A sequence is "
         "non-trivial when it yields >= 2 distinct observations. (D) session boundaries through the REAL negotiation of a real client "
         "(FakeSock transport, handleStart, <stream:features/>, <resume/> answered <resumed/> or <failed/>, bind, <enable/> answered "
         "<enabled resume?/>, loss via _q_socketDisconnected, orderly disconnectFromHost) with requests outstanding: exhaustive to "
         "depth 5 / 6 over {send, reply, loss, reconnect+resumed, reconnect+failed+new SM session, reconnect+session without SM, orderly "
         "disconnect through every route that calls disconnectFromHost() (disconnectFromServer, server </stream:stream>, rejected element, "
         "keep-alive timeout, direct) on a socket stand-in whose disconnectFromHost() emits disconnected() synchronously, begin of a connection attempt (transport up, stream started, no session), attempt aborted by the client during "
         "negotiation (unexpected element -> disconnectFromHost -> socket disconnect without a session)} plus random (also non-resumable SM session, stranger reply); model side = Neg layer (connect(sm,resumable,resumed), "
         "loss, disconnect); oracle judges by what the scripted server answered, never by client flags. (E) QXmppBlockingManager::"
         "fetchBlocklist (shared IQ, promise list, cache): exhaustive to depth 6 / 7 over {fetch, IQ result, IQ error, new session, resumed "
         "session} against the Blocklist machine. (F) QXmppClient::sendSensitiveIq with a deferred dummy extension: exhaustive to depth "
         "4 / 5 over {start, encrypt ok/fail, IQ result/error, decrypt ok/not-encrypted/fail, extension removed} against the Sensitive "
         "machine. Translator promise_sites.py regenerates the table of every QXmppPromise construction and chain*/parseIq use in "
         "src/client (79 sites today); part C runs one case per request-API function it can reach (each first in a forked probe, so a "
         "crashing converter is reported instead of killing the harness); coverage = stats api_functions_exercised / api_functions_found; per waiter the delivered VALUE is checked too (the stanza "
         "error the entity returned, the cancellation error after an unanswered session end, for results the id of the answered request). "
         "(G, harness iqreent, library built with ASan+UBSan) re-entrant continuations: completion site {response, send failure, "
         "resetCache, session opened not resumed, session closed not resumable, destruction} x continuation body {none, send a new "
         "request, send with the SAME id, end the session, open a new session} x {1,2,3,7,14} pending requests (libstdc++ rehash "
         "thresholds), each in a forked child: every request incl. those started inside continuations completes exactly once, no "
         "sanitizer report; passing scenarios are also compared with the model as `seq <site op> ;; <body op>`.",
    trusted_base=[
        "Lean 4.33.0 kernel; axioms per theorem listed under coverage.theorems (subset of propext, Classical.choice, Quot.sound)",
        "translators/promise_sites.py (regex reader; anchors: shape of chain/chainIq/chainSuccess/chainMapSuccess in QXmppFutureUtils_p.h, "
        ">= 40 chain-like sites, >= 10 promise constructions) and the hand classification ownPromiseSites in Props/C07.lean",
        "hand-written model lean/Qx/Model/C07Iq.lean, tied to src/client/QXmppOutgoingClient.cpp (OutgoingIqManager, sendIq, "
        "openSession/closeSession, destructor), src/base/QXmppStreamManagement.cpp (send / resetCache) and "
        "src/client/QXmppMamManager.cpp (retrieveMessages) by the correspondence run",
        "QXmppPromise/QXmppTask deliver a finished value to the one attached continuation exactly once (property C13)",
        "Qt: QDomDocument parsing of the injected elements, synchronous direct signal delivery, QSslSocket state on loopback",
    ],
    assumptions=[
        "library-generated stanza ids (QXmppUtils::generateStanzaUuid, 122 random bits) never collide with an id in use; the "
        "theorems do not need this (a collision is refused by start()), only the model's naming of generated ids does",
        "a response without a 'from' attribute is taken to come from the user's own server (which stamps every stanza it routes and "
        "could forge any sender anyway): the code accepts it for every pending request with that id, the oracle allows this",
        "an <iq/> whose type is none of get/set/result/error is a stream-level protocol violation: the client reports 'Unexpected "
        "element received' and disconnects, which cancels all requests (modelled; servers do not relay such elements)",
        "sender comparison is string equality with the recorded addressee, as in the code: case variants and bare/full variants of the "
        "addressee do not complete a request (it then completes at the next non-resumable session end)",
        "a request stays pending while the peer is silent and the session lives or is resumable: the library has NO request "
        "timeout (OutgoingIqManager, QXmppTask and the combinators contain no timer; only the keep-alive ping timeout ends a dead "
        "connection, which is a session end) — timing out a silent peer is the caller's domain and outside this property",
        "re-entrancy: a continuation attached to a request task runs synchronously inside the completion; it is modelled as the "
        "operations it performs, placed right after the completing operation in the history (exact once the entry is detached "
        "before the promise is finished, fixes/C07-reentrant-completion.diff; checked by part G under ASan+UBSan). Calling into a "
        "client that is being destroyed, or destroying the client from inside a continuation it is running, is outside the contract",
        "chain/chainIq/chainSuccess: the attach-one-continuation-and-finish pattern is proved on the C13 task model (chain_once, "
        "chain_once_ready, chain_at_most_once); that each manager API is built only from these combinators is not checked by a "
        "translator — superseded: translators/promise_sites.py + all_chain_sites_pure now check that every chain-like site in src/client "
        "is `return chain*(<request-table task | task of another pure-chain function>, …)`; converters are assumed total (a converter "
        "that crashes is outside the model: found by the forked probes of part C)",
        "hand-rolled promise sites without a Lean machine (account migration, MIX/roster import-export, JMI, call invites) are "
        "listed in ownPromiseSites with their coverage; only counted on the implementation or not exercised (partial)",
    ],
    level_text="Theorems for every configuration and operation list: a request number is completed at most once and, in every reachable "
               "state, is either pending or completed exactly once (permutation invariant); a completion by reply implies a received "
               "iq of type result/error with the request's id whose sender is absent or equals the recorded addressee (which is the "
               "'to' asked or the own bare JID); any other stanza is a no-op; non-resumable session end / destruction empties the table "
               "and completes everything; resumable ends keep everything; any continuation containing a matching reply, send failure "
               "or non-resumable end completes a pending request. MAM machine: finished at most once always, and exactly once (state released) for every "
               "history once the IQ has completed and all decryption jobs have reported, with or without e2ee, empty page included. Negotiated boundaries (Neg): a session that is not a resumption leaves nothing pending whatever SM state it has, "
               "a genuine resumption retains everything, orderly disconnect cancels; the client's belief 'can resume' is exactly what the server granted, so the loss of a session "
               "without (resumable) stream management leaves nothing pending, for every history. Blocklist machine: every fetchBlocklist call completes exactly once once the shared IQ is answered or a new session begins. "
               "Sensitive machine: the promise of sendSensitiveIq is finished exactly when the pipeline has ended, once, and no stage can stall it. "
               "Site table: every chain-like site is pure-chain, every promise construction is a classified hand-rolled site. "
               "chain_once: a task built by chain finishes exactly once when its source is finished, for any interlude of handle copies, "
               "handle drops that leave a handle, and destructions of other contexts (context alive, continuation not replaced); at most once always.",
    level_note="Proved about the hand-written models; model-to-code tie is differential (exhaustive to a depth, sampled beyond). "
               "Continuation chaining and the other managers are checked by direct counting on the implementation only.",
    design_ref="5.7",
    technique="Lean 4 invariant proofs over op lists + model/implementation correspondence + model-independent completion-count oracle",
)
