SPEC = dict(
    id="C05",
    title="SASL negotiation picks the strongest permitted mechanism, never a disabled one",
    lean_modules=["Qx.Props.C05"],
    props_files=["lean/Qx/Props/C05.lean"],
    drivers=["qxdriver_c05"],
    translators=["sasl_order.py"],
    harnesses=[dict(name="saslchoice", asan=False, driver="qxdriver_c05")],
    exhaustive=True,
    rule="TWO LEVELS. (A) manager level: "
         "one line = one call of the real SaslManager::authenticate / Sasl2Manager::authenticate with a capturing SendDataInterface; "
         "observation = mechanism attribute of the emitted <auth/>/<authenticate/> + whether <fast/> is attached, or the mismatch "
         "error with its list of offered-but-disabled names. A group (= 'sequence') is one configuration "
         "(mode x disabled list x preferred x credentials). Configurations: 6 modes {SASL; SASL2 without <fast/>; SASL2 with FAST "
         "disabled by setting; SASL2 with FAST disabled by missing user agent; SASL2+FAST; SASL2+FAST with HT names in both lists} "
         "x 5 disabled lists (library default, empty, 3 others) x 8 preferred {none, ANONYMOUS, PLAIN, DIGEST-MD5, SCRAM-SHA-256, "
         "HT-SHA-256-NONE, X-OAUTH2, unparseable} x 10 credential states {password, nothing, password+HT token, HT token only, "
         "password+oauth tokens, oauth tokens only, and four with EMPTY-BUT-NON-NULL strings (QString(\"\")): password \"\" only; password \"\" + HT "
         "token with secret \"\"; password + all oauth strings \"\"; password \"\" + google token + facebook token with app id \"\"} = 2400 "
         "(every string credential has the three states null / empty-non-null / non-empty; the random part draws them independently). Exhaustive: thorough = every one of the 4096 subsets of a 12-name "
         "universe (one name per family + 4 SCRAM hashes + 2 HT variants + unknown + SCRAM-SHA-1-PLUS) for all 2400 configurations, "
         "plus a second 12-name universe (other X- families, HT with channel binding, doubly-matching HT names, case variants, "
         "empty name) on a 1/8 sample; quick = all 256 subsets of an 8-name universe for all 2400 configurations + all 4096 subsets "
         "for a seeded 1/24 sample + second universe on a 1/120 sample. Then seeded random: shuffled/duplicated orderings of subsets "
         "(outcome must not change), and random configurations x random offer lists (length <= 10, duplicates) over a ~90-name "
         "space (all 28 HT names, truncated/extended/lower-case/concatenated names, empty name). A group is non-trivial when it "
         "yields >= 2 distinct observations. The oracle (independent of the model) checks on every line: chosen in offered, not "
         "disabled, supported and credential-usable (usable = the needed secret strings are NON-EMPTY); = preferred if that is permitted; else no permitted mechanism stronger per "
         "token > SCRAM-SHA3-512 > -512 > -256 > -1 > DIGEST-MD5 > PLAIN > ANONYMOUS; <fast/> attached iff FAST on and name in "
         "<fast/>; nothing sent and MechanismMismatch iff nothing permitted. "
         "(B) client level: one line = a fresh real QXmppClient/QXmppOutgoingClient (fake QSslSocket under the real XmppSocket: writes "
         "captured, disconnect recorded) that got its stream header and is fed one <stream:features/>: <mechanisms/> x legacy "
         "<auth xmlns=iq-auth/> yes/no x <bind/> yes/no x SASL 2 <authentication/> {absent, same names with HT names in <fast/>, only "
         "unimplemented names}; configurations = 8 combinations of useSasl2/useSASL/useNonSASLAuthentication x 3 disabled lists x 3 "
         "preferred x 4 credential states x FAST on/off; every subset of a 6-name (quick) / 8-name (thorough) universe, plus random "
         "features over the ~90-name space with a bias to offers made only of unimplemented names. Observation = the set of "
         "{sasl <mech>, sasl2 <mech> <fast>, mismatch <disabled names>, legacy (jabber:iq:auth sent), bind, session, error} + disconnected. "
         "Client oracle (independent of the model): when SASL 2 (offered+enabled) or else SASL (non-empty offer+enabled) is "
         "negotiated and no offered name is enabled+implemented+usable: MechanismMismatch reported to QXmppClient::errorOccurred, "
         "disconnect, and NO <auth/>, <authenticate/>, jabber:iq:auth, bind or session; when something is permitted: exactly that "
         "SASL element, judged by the manager-level oracle; SASL disabled or not offered: no SASL element and no mismatch.",
    trusted_base=[
        "Lean 4.33.0 kernel; axioms per theorem listed under coverage.theorems (subset of propext, Classical.choice, Quot.sound)",
        "translators/sasl_order.py (regex reader of QXmppSasl_p.h, QXmppSasl.cpp, QXmppConfiguration.cpp, QXmppSaslManager.cpp; "
        "exits non-zero when an anchor is not found exactly once or an anchored function contains unrecognised code); "
        "lean/Qx/Generated/SaslOrder.lean is rewritten from the working tree before every lake build",
        "hand-written model lean/Qx/Model/C05Sasl.lean (choose = filter disabled -> parse -> filter available -> preferred -> max; "
        "isMechanismAvailable; SASL2/FAST glue), tied to the C++ by the correspondence run",
        "C++ semantics assumed, not proved: std::variant compares by alternative index first, defaulted operator<=> compares members "
        "in declaration order, unscoped/scoped enums compare by declaration position (no explicit values: the translator rejects them), "
        "std::ranges::max returns the first greatest element",
    ],
    assumptions=[
        "Qt 5 branch of the #if QT_VERSION blocks (the harness and library are built against Qt 5)",
        "token expiry, the SASL exchanges after the first element and SASL2 user-agent validation are outside this property (C06)",
        "mechanisms the property text does not rank (X-OAUTH2, X-MESSENGER-OAUTH2, X-FACEBOOK-PLATFORM) are only required by the "
        "oracle to be offered/enabled/usable; their position (below ANONYMOUS) is stated by theorem x_mechanisms_below_anonymous "
        "and checked by the correspondence",
    ],
    level_text="Theorems for every offer list, disabled list, preferred string and credential state: the choice is a permitted "
               "mechanism, the maximum of the permitted ones under the C++ order unless the preferred one is permitted, none iff "
               "nothing is permitted, independent of order/duplicates; rank_matches_spec proves the property's chain on the order "
               "regenerated from the header on every run; the name that goes on the wire was offered and is not disabled, for every "
               "mechanism incl. HT (choose_name_offered_enabled; uses the break in SaslHtMechanism::fromString's hash loop, read "
               "from the source by the translator); PLAIN never used under the default configuration.",
    level_note="Proved about the hand-written model over translator-generated data; model-to-code tie is differential "
               "(exhaustive over the reduced universes, sampled beyond) plus the translator.",
    design_ref="5.5",
    technique="Lean 4 proofs over translator-generated order/name tables + model/implementation correspondence",
)
