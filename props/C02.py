SPEC = dict(
    id="C02",
    title="Parsing any well-formed XML is safe and normalising: no crash, UB, hang or drift",
    lean_modules=["Qx.Props.C02Codec"],
    props_files=["lean/Qx/Props/C02Codec.lean"],
    drivers=["qxdriver_c01"],
    harnesses=[
        dict(name="codec", asan=False, driver="qxdriver_c01", reset_prefix="codec-reset", args=["--mode", "c02"]),
        dict(name="parsers", asan="lib", args=["--mode", "c02"], timeout=3000),
        dict(name="clientfeed", asan="lib", timeout=1500),
    ],
    rule="fixpoint half: Lean norm_idem for every well-formed schema on EVERY tree, tied by the codec correspondence (own-form, mutated and "
         "foreign documents through the real fromDom/toXml of each modelled class). Runtime half (partial, not a theorem): every parser in "
         "harness/cxx/codec_table.h x corpus extracted from the repository's tests x structural mutations, and a client with every bundled "
         "extension fed the same elements, built with ASan+UBSan against a sanitizer-instrumented library; oracle: output well-formed, "
         "second pass is a fixpoint, no sanitizer report, no timeout.",
    trusted_base=[
        "Lean 4.33.0 kernel; axioms per theorem under coverage.theorems (subset of propext, Classical.choice, Quot.sound)",
        "hand-written class schemas lean/Qx/Xml/Codec/Classes.lean, tied to the C++ by the codec correspondence",
        "ASan/UBSan for the runtime half (exploration, not proof)",
    ],
    assumptions=["no crash / out-of-bounds / UB / hang is a statement about the C++ runtime: sanitizer exploration only (partial)"],
    level_text="Theorem norm_idem: for every well-formed schema and every XML tree, one parse/serialize pass is a fixpoint and decode lands in "
               "canonical values; instantiated for the modelled classes. The no-crash/UB/hang half is sanitizer-instrumented exploration "
               "over all parsers and a fully equipped client (partial).",
    level_note="Fixpoint proved for modelled classes only; runtime safety is not provable in Lean and is explored, not proved.",
    design_ref="5.2",
    technique="Lean 4 proof (generic schema codec idempotence) + correspondence + sanitizer-instrumented exploration",
)
