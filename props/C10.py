SPEC = dict(
    id="C10",
    title="Losing the connection at any point leaves a consistent client that can reconnect",
    lean_modules=["Qx.Props.C10"],
    props_files=["lean/Qx/Props/C10.lean"],
    drivers=["qxdriver_c10"],
    harnesses=[dict(name="negotiation_c10", driver="qxdriver_c10", args=["--mode", "c10"])],
    exhaustive=True,
    rule="a real QXmppClient (default extensions, one object kept across attempts) connects over loopback TCP to an in-process "
         "scripted QSslSocket server driven by a protocol-conforming responder (it answers what the client actually asked: "
         "<proceed/>, SASL success/challenge, SASL2 success with bound/resumed, bind result, <enabled/>, <resumed/>/<failed/>, "
         "XEP-0078 fields/result) under 19 policies {SASL PLAIN|SCRAM + bind, STARTTLS first, SASL2+bind2 with inline SM, SASL2 + "
         "classic bind, legacy auth (pre-1.0 header / as stream feature), SM none|enabled|resumable, resumption accepted|refused, "
         "see-other-host early / after STARTTLS / inside an established session (second local listener), header + features pipelined in "
         "ONE segment, <enabled resume location=…> naming a THIRD local listener}. (0) 70 retry scenarios (a re-entrant application: `sendiq-retry` = a request whose failure continuation sends one more request, 1-2 outstanding at every way a session can end - cut, reset, stream error+close, </stream:stream>, rejected element, stream error then cut, second connectToServer - without SM, with SM not resumable / resumable / inline, over TLS; then a new session, an answer, an orderly end; script-side oracle: after an end that leaves nothing to resume NO request is pending, continuation-created ones included); 32 incidents (incl. location then stream error+close / </stream:stream> / rejected element / cut / reset), each followed by a full conforming attempt that must connect: authentication failure "
         "(plain / over TLS), bind error, <failure/> to starttls, failed TLS handshake (TLS required / optional), stream error + "
         "</stream:stream> in one segment (negotiation / session / resumable session), see-other-host + </stream:stream> in ONE segment "
         "(session, resumable session, over TLS, during negotiation - the client continues on the second listener), cut in the MIDDLE of an "
         "element (half an element in the read buffer; session / negotiation / over TLS), TCP reset instead of orderly close (session, "
         "negotiation, TLS, with half an element buffered), white space keep-alive inside a session. (1) every policy x EVERY cut point "
         "(server closes after k elements, k=0..len) followed by a full attempt, for 4 configurations (TLS enabled, + CSI inactive, TLS "
         "disabled without SASL2, TLS REQUIRED for the STARTTLS policies); (2) ordered pairs of different policies x cut "
         "points, half of them followed by a third attempt (all pairs in thorough, a seeded quarter in quick); an application "
         "request (sendIq) is outstanding at the cut of an established session. Every op gives one line comparing ordered "
         "sends/signals + state(), isConnected(), isAuthenticated(), encrypted between client and Lean model. Oracles (model "
         "independent): after the cut state()==Disconnected, !isConnected(), !isAuthenticated(), exactly one more disconnected "
         "signal; while the responder still has something to say nothing may report an established session; <= 1 connected per TCP "
         "connection; SessionBegin.bind2Used must describe the current connection; the outstanding request is finished unless the "
         "script made the stream resumable, and does not survive a new non-resumed session; a full conforming script must end in "
         "connected/isConnected()/state()==Connected; every connect must land on the listener the script predicts (resume location iff the "
         "script left a resumable stream whose <enabled/> named one, else the configured host; every line also compares tg=a|b|c with the model).",
    trusted_base=[
        "Lean 4.33.0 kernel; axioms per theorem listed under coverage.theorems (subset of propext, Classical.choice, Quot.sound)",
        "hand-written model lean/Qx/Model/C04Negotiation.lean (shared with C04) of QXmppOutgoingClient / XmppSocket / StreamAckManager / "
        "C2sStreamManager / CsiManager / the slots of QXmppClient::connected, tied to the code by the correspondence run",
        "Qt socket behaviour taken as observed: disconnectFromHost() delivers disconnected synchronously; a peer close reports one socket "
        "error (two on a TLS link); the see-other-host reconnect is a queued call and always completes on loopback",
        "the outstanding-request table is abstracted to a counter (the table itself: C07)",
    ],
    assumptions=[
        "connectToServer may be called in any state (6235115: a live socket is aborted first); automatic reconnection is modelled as the event reconnectTick (timer armed by socket errors when autoReconnect is on; back-off delays not modelled)",
        "OUT OF MODEL AND HARNESS: DNS/SRV address lists and the TryNext branch of _q_socketDisconnected (explicit host/port, one address; "
        "the address-list indices have no model field), a location on the inline <enabled/> of bind2, application-initiated disconnectFromServer(), carbons (m_enabled/m_requested), FAST m_tokenChanged, streamFrom, authenticationMethod (no model field; "
        "per_connection_reset says nothing about them), the keep-alive TIMEOUT and the reconnect back-off delays",
        "reads: one element per read, or the listed multi-element segments (header+features, header+stanza, stream error+close); elements that "
        "follow, in the same read, an element on which the client disconnects are not modelled; a cut in the middle of an element is modelled "
        "as 'half an element buffered, then loss' (the buffer content itself is not modelled: resetIncomingState() is exercised, its effect on "
        "later parsing is only checked by the next attempt having to succeed)",
        "bindAvail/smAvail/csiAvail are not reset per connection by the code; they are overwritten by the next features element before use "
        "(read by inspection and confirmed by the correspondence runs, not a theorem)",
        "'next attempt succeeds' is ONE theorem over the inductive type Flow = 11 NAMED conforming scripts (SASL PLAIN, SCRAM incl. server "
        "signature, SASL2+bind2, SASL2+FAST token, legacy; with/without STARTTLS; classic bind + <enable/>; <resume/> accepted; <resume/> refused "
        "then bind + <enable/>; see-other-host then full flow), each after ANY history, with 'connected exactly once, by the last element, "
        "nothing reported at any cut point'. It is NOT a theorem about every conforming flow: the product {tls?} x {sasl|sasl2|legacy|legacy-"
        "feature} x {bind|bind2} x {sm none|enable|resume ok|resume refused} x {csi?} x {redirect?} has more members (e.g. STARTTLS + SCRAM + "
        "resume refused, legacy-as-feature, redirect over TLS); those are covered by the harness policies (17) only",
        "per_connection_reset covers the 12 negotiation fields of negView (listener, streamIdSet, streamVersionSet, encrypted, headerSeen, wedged, "
        "authenticated, sessionStarted, smEnabled, smResumed, ackEnabled, redirect) + bind2Bound; NOT csiAvail/"
        "bindAvail/smAvail (separate theorem avail_fields_written_before_use) and not the C++ state without a model field listed above",
        "'connected at most once per connection' needs the server-conformance hypothesis noNegotiationInSession: no stream header / features into an "
        "established session. A conforming server can never violate it (RFC 6120: header and features only answer a stream restart, which the client performs only "
        "during negotiation); without it the statement fails only against a misbehaving server (openSession is not guarded, its Q_ASSERT is compiled out) - a "
        "robustness gap, not a violation of C10, no finding",
        "'isConnected() means a session was established on this connection' holds for every history; 'isConnected() implies authenticated' is "
        "proved under the named hypothesis demandsAuth (features received while unauthenticated always lead into STARTTLS or an authentication "
        "exchange the configuration uses); an example shows the hypothesis is necessary",
        "bindAvail/smAvail/csiAvail are not reset by handleStart; theorem avail_fields_written_before_use: a step that enters a listener from "
        "which a session can be opened has written them from the features element it received (or cleared csiAvail on a version-less "
        "header), and a session is only opened by the idle listener on a features element, from such a listener, or by a SASL2 success "
        "carrying <resumed/> (stated exception: an inline-resumed session keeps the CSI availability of the session it resumes); that the "
        "fields are not modified while the client stays in those listeners is by inspection of the model (they only change the listener)",
    ],
    level_text="Theorems quantified over every history (all event scripts of any length): the cut leaves disconnected/no session/not "
               "authenticated with exactly one disconnected signal; outstanding requests are finished unless resumable; the 12 negotiation "
               "fields of the model + the bind2 result are back to their initial values after cut+reconnect; each of 11 named conforming flows "
               "reaches connected after any history; connected is reported at most once per step and only by a step that leaves the listener idle, the session flag "
               "set and the socket connected; isConnected() implies that the last session signal was connected and the session flag is never "
               "set without a connected socket; for every history of a server that does not restart negotiation inside a session no two "
               "connected are reported without a disconnected (socket loss) in between; every cut point of the SASL+bind flow reports "
               "nothing until the last element.",
    level_note="Proved about the hand-written model; model-to-code tie is differential (every policy x every cut point, pairs and triples "
               "of attempts). The eight former findings are fixed in the tree (7771c2d legacy login never completes; 7a677f2 bind2 result leaks into the next "
               "session; e363fe9 see-other-host leaves a stale session / hangs over TLS; 7c60ff5, a739aa9 CSI availability of an earlier connection; "
               "8d68c05 white space keep-alive; dcf656f resume location; 6235115 connectToHost() on a live socket); their witnesses are replayed first. A white space keep-alive used to end the connection "
               "even inside an established session (C10:whitespace-keepalive-ends-connection, fixed by 8d68c05; theorem "
               "whitespace_keepalive_is_ignored, witness replayed). Where the next attempt goes: "
               "next_attempt_after_stream_end_targets_configured_host, connect_target_spec. The resume location used to outlive its stream (C10:next-attempt-targets-stale-resume-location, fixed by dcf656f; theorem resume_location_belongs_to_the_enabled_stream, witness replayed).",
    design_ref="5.10",
    technique="Lean 4 proofs over all event histories + model/implementation correspondence against a scripted, cut-at-every-point server",
)
