SPEC = dict(
    id="C03",
    title="Stream framing is independent of how the byte stream is split into reads",
    lean_modules=["Qx.Props.C03"],
    props_files=["lean/Qx/Props/C03.lean"],
    drivers=["qxdriver_c03"],
    harnesses=[dict(name="framing", asan=False, driver="qxdriver_c03")],
    exhaustive=True,
    rule="corpus of 44 streams (9 header shapes with/without XML declaration, incl. '>' in header attribute values and line breaks in the declaration; 18 stanza shapes: ASCII, 2-/3-/4-byte characters in "
         "text and attributes, the 5 entities and numeric references, '>' and '/>' inside attribute values, nested namespaces, "
         "white-space keep-alives between stanzas, several stanzas per read, with/without stream close) x partitions of the BYTE "
         "sequence: every 2-way split of every stream (exhaustive; S streams_with_all_2_splits), one byte at a time, seeded random "
         "k-way splits (25 per stream, k<=7 quick; 1000 per stream, k<=13 thorough), thorough: every 3-way split of the 5 shortest streams "
         "and of the 4 streams with 2-/3-/4-byte characters; plus every 2-way split of the former defect witnesses, of two streams with unusual legal "
         "headers, of a stream preceded by a byte order mark (which must be ignored at the very start and only there) and of 21 streams with white "
         "space after the closing tag (7 trailers x 3 streams; also bytewise and random k-way; the one-read run must itself deliver every item; PrefixOracle measured on them too); "
         "20 correspondence-only sequences with garbage / further stanzas / a second close after the closing tag; multi-connection histories on ONE "
         "XmppSocket (connection 1 = prefix of a stream cut at every byte position of 3 (thorough 6) streams, ended by the peer or by "
         "disconnectFromHost(), real reconnect through connectToHost() over loopback, then a second/third stream: S reconnect_histories); 4 multi-header streams (stream restart on one connection: headers differing in "
         "default namespace and prefix bindings, stanzas using the prefixes; every cut inside the sessions, bytewise, random: S runs_restart). "
         "Canonical elements carry the namespace URI of every element and attribute. Each chunk travels "
         "through a real loopback TCP connection into XmppSocket (one read per chunk, verified), and the events of that read "
         "(signal + canonical element + buffered/cached lengths) are compared line by line with the Lean model fed the same bytes; "
         "text-level splits incl. empty reads go through processData directly; 16 probe sequences exercise the two regular "
         "expressions. Oracle (model independent): non-keep-alive events of the split run == events of the one-read run. "
         "A sequence is non-trivial when it yields >= 2 distinct observations. The PrefixOracle hypothesis of the theorems is "
         "evaluated on the real QDomDocument at every (boundary, cut) pair of every corpus stream (S prefix_oracle_checks/"
         "_violations) and, by checkOracle, on the Lean parser used by the driver ('oracle' lines).",
    trusted_base=[
        "Lean 4.33.0 kernel; axioms per theorem listed under coverage.theorems (subset of propext, Classical.choice, Quot.sound)",
        "hand-written model lean/Qx/Model/C03Framing.lean (processData, the two regexes, per-read UTF-8 decoding), tied to "
        "src/base/Stream.cpp:178-180,228-331 by the correspondence run",
        "lean/Qx/Base/Utf8.lean (ideal incremental decoder Dec) + 'U+FEFF dropped only as first character of the stream' as a model of "
        "Qt 5.15 QTextDecoder on WELL-FORMED UTF-8: exercised on every read of every split, including all cuts inside multi-byte "
        "characters and inside a leading BOM; on malformed UTF-8 QTextDecoder is known to differ (not chunk independent) - out of scope",
        "QDomDocument::setContent is a PARAMETER of the theorems; the only assumption about it is the hypothesis structure "
        "PrefixOracle, measured on the real QDomDocument on exactly the corpus inputs (not proved about Qt)",
        "loopback TCP delivering each flushed chunk as one read (checked per chunk: S transport_rechunked)",
    ],
    assumptions=[
        "PrefixOracle P items: a buffer ending on an item boundary parses to exactly the items it holds, a buffer ending inside an "
        "item is rejected (hypothesis of every framing theorem; satisfiable: examples in Props/C03.lean; measured on Qt)",
        "keep-alive (null element) notifications depend on the split by design and are excluded from the compared events",
        "streams covered by the theorems = (optional BOM,) header first, no leading white space, closing tag (if any) at the very end "
        "optionally followed by white space (since 109544b), well-formed UTF-8; not covered: white space in front of the header",
    ],
    level_text="What is proved is ARRIVAL INDEPENDENCE; what is recognised in a buffer is defined by the model of the code (two regular "
               "expressions + one whole-document DOM parse of the wrapped buffer: a buffer yields the nodes of the whole document or nothing "
               "- not an incremental tokenizer), tied to the code by the correspondence only. All framing theorems carry the side condition "
               "PrefixOracle, which the code does not enforce, hence their _partial names. "
               "Theorems for every parser satisfying PrefixOracle, every stream and every chunking: text-level split independence "
               "(framing_split_independent_partial, framing_delivers_exactly_partial); stateful UTF-8 decoding is chunk independent for all byte "
               "lists; full byte-level property for the code as it is (framing_bytes_split_independent_partial: every split, including "
               "inside multi-byte characters and inside a leading BOM, delivers exactly the stream's events). The five defects found "
               "earlier (split inside a character, U+FEFF at read start, '>' in a header attribute, line break in the XML declaration, "
               "white space after the closing tag) are fixed in the repo (49994ec, 381fe43, 109544b); their witnesses stay first in the corpus. Header matcher: stable under "
               "appended data, matches exactly one quote-aware open tag (theorems). Lean parser: completeness at item boundaries "
               "proved for a sub-language (leanParser_complete_at_boundary_partial). Reconnects: the events of a connection depend only on "
               "its own bytes (connection_events_depend_only_on_own_bytes), tied by real reconnect histories. Stream restarts: every header "
               "replaces the cached one; split independence for multi-header connections (framing_restart_split_independent_partial).",
    level_note="White space after </stream:stream> was a defect (C03:bytes-after-stream-close: one read delivered nothing), fixed in repo "
               "commit 109544b; the model uses the tolerant close detection, such streams now satisfy PrefixOracle (measured on Qt and on the "
               "Lean parser for 21 trailer streams) and are covered by the _partial theorems. "
               "PrefixOracle stays a hypothesis of the framing theorems: for the Lean parser only its first half is proved (sub-language, "
               "no entities/double quotes/'>' in attribute values), the rejection half and the assembly are not; it is established per corpus "
               "stream by the proved-sound checkOracle (Lean parser) and measured on QDomDocument (S prefix_oracle_checks, 0 violations). "
               "Proved about the hand-written model with the DOM parser abstracted by a measured hypothesis; model-to-code tie is "
               "differential (exhaustive 2-splits of a 44-stream corpus, sampled beyond). The decoder is modelled by the ideal "
               "incremental UTF-8 decoder: Qt 5's QTextDecoder coincides with it on well-formed UTF-8 (what the property quantifies "
               "over: 'any valid XMPP stream') but is not chunk independent on MALFORMED input; a BOM is dropped only as the very first "
               "character of the stream (standard XML behaviour), a U+FEFF anywhere later survives every split (measured).",
    design_ref="5.3",
    technique="Lean 4 induction over chunk lists + UTF-8 decoder lemmas + model/implementation correspondence over a real socket",
)
