#!/bin/sh
# MANIFEST.setup_cmd — builds everything the checks need from files on disk only (offline).
set -e
V=$(cd "$(dirname "$0")" && pwd)
cd "$V"
mkdir -p .build/harness .build/locks evidence replays
# 1. library from /repo's working tree (out of tree, guard on): release build and sanitizer build
python3 - <<'P'
import sys; sys.path.insert(0, '.')
import vlib
ok, out = vlib.build_repo()
print(out[-400:])
if not ok: sys.exit(1)
ok, out = vlib.build_repo(asan=True)
print(out[-400:]); sys.exit(0 if ok else 1)
P
# 2. Lean: whole library (all models, proofs, property theorems) + every driver that exists
cd lean
lake build Qx
for f in Driver/*.lean; do
  [ -f "$f" ] || continue
  n=$(basename "$f" .lean | tr 'A-Z' 'a-z')
  lake build qxdriver_$n
done
cd ..
# 3. harnesses are built by the checks themselves (they must follow /repo's tree)
echo setup done
