#!/bin/sh
# usage: build.sh <name> [asan]
# builds harness/cxx/<name>.cpp against the library rebuilt from /repo's working tree (.build/repo-rel).
# If the source contains Q_OBJECT, moc output is generated as <name>.moc (put `#include "<name>.moc"` at the end of the file).
set -e
V=$(cd "$(dirname "$0")/.." && pwd)
N=$1; SAN=""
[ "$2" = "asan" ] && SAN="-fsanitize=address,undefined -fno-sanitize-recover=all -fno-omit-frame-pointer"
mkdir -p $V/.build/harness/moc_$N
QTFLAGS=$(pkg-config --cflags Qt5Core Qt5Network Qt5Xml Qt5Test)
INCS="-I$V/harness/cxx -I/repo/src/base -I/repo/src/client -I/repo/src/server -I/repo/tests -I$V/.build/repo-rel/src -I$V/.build/harness/moc_$N"
if grep -q Q_OBJECT $V/harness/cxx/$N.cpp; then
  moc $INCS $QTFLAGS -DQXMPP_VERIF $V/harness/cxx/$N.cpp -o $V/.build/harness/moc_$N/$N.moc
fi
exec g++ -std=c++20 -O1 -g $SAN -fPIC -DQXMPP_VERIF $INCS $QTFLAGS \
  $V/harness/cxx/$N.cpp -o $V/.build/harness/$N \
  -L$V/.build/repo-rel/src -lQXmppQt5 $(pkg-config --libs Qt5Core Qt5Network Qt5Xml Qt5Test) -Wl,-rpath,$V/.build/repo-rel/src
