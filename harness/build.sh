#!/bin/sh
# usage: build.sh <name> [asan]   builds harness/cxx/<name>.cpp against the library rebuilt from /repo
set -e
V=$(cd "$(dirname "$0")/.." && pwd)
N=$1; SAN=""
[ "$2" = "asan" ] && SAN="-fsanitize=address,undefined -fno-sanitize-recover=all"
mkdir -p $V/.build/harness
exec g++ -std=c++20 -O1 -g $SAN -fPIC -DQXMPP_VERIF -I$V/harness/cxx -I/repo/src/base -I/repo/src/client -I/repo/src/server -I/repo/tests \
  -I$V/.build/repo-rel/src $(pkg-config --cflags Qt5Core Qt5Network Qt5Xml) \
  $V/harness/cxx/$N.cpp -o $V/.build/harness/$N \
  -L$V/.build/repo-rel/src -lQXmppQt5 $(pkg-config --libs Qt5Core Qt5Network Qt5Xml) -Wl,-rpath,$V/.build/repo-rel/src
