#!/bin/sh
# usage: build.sh <name> [asan|asanlib]
# builds harness/cxx/<name>.cpp against the library rebuilt from /repo's working tree (.build/repo-rel).
# If the source contains Q_OBJECT, moc output is generated as <name>.moc (put `#include "<name>.moc"` at the end of the file).
set -e
V=$(cd "$(dirname "$0")/.." && pwd)
R=${VERIF_REPO:-/repo}
N=$1; SAN=""; LIB=$V/.build/repo-rel
[ "$2" = "asan" ] && SAN="-fsanitize=address,undefined -fno-sanitize-recover=all -fno-omit-frame-pointer"
# asanlib: additionally link against the sanitizer-instrumented library build (.build/repo-asan, built by vlib.build_repo(asan=True))
[ "$2" = "asanlib" ] && SAN="-fsanitize=address,undefined -fno-sanitize-recover=all -fno-omit-frame-pointer" && LIB=$V/.build/repo-asan
OUT=${VERIF_HARNESS_OUT:-$V/.build/harness/$N}
MOC=$V/.build/harness/moc_$N; [ -n "${VERIF_HARNESS_OUT:-}" ] && MOC=$OUT.moc.d
mkdir -p $MOC
QTFLAGS=$(pkg-config --cflags Qt5Core Qt5Network Qt5Xml Qt5Test)
INCS="-I$V/harness/cxx -I$R/src/base -I$R/src/client -I$R/src/server -I$R/tests -I$LIB/src -I$MOC"
if grep -q Q_OBJECT $V/harness/cxx/$N.cpp; then
  moc $INCS $QTFLAGS -DQXMPP_VERIF $V/harness/cxx/$N.cpp -o $MOC/$N.moc
fi
exec g++ -std=c++20 -O1 -g $SAN -fPIC -DQXMPP_VERIF $INCS $QTFLAGS \
  $V/harness/cxx/$N.cpp -o $OUT \
  -L$LIB/src -lQXmppQt5 $(pkg-config --libs Qt5Core Qt5Network Qt5Xml Qt5Test) -Wl,-rpath,$LIB/src
