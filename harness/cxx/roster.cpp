// C12 harness: drives the real QXmppRosterManager behind a real QXmppClient / QXmppOutgoingClient
// (IQ request tracking, stanza dispatch and the stream-management flags are the library's own code;
// only the TCP socket is absent).  Prints op/observation lines for the Lean model
// (lean/Qx/Model/C12Roster.lean) and evaluates the property itself with a small reference fold
// over the history that is independent of the model.
//
// Session events are produced by calling what the library calls:
//   conn  : handleStart() [stream (re)start: resets the SM flags], then the SM handshake outcome
//           (C2sStreamManager::onEnabled / onResumed), then QXmppOutgoingClient::openSession()
//   drop  : _q_socketDisconnected()                       (socket lost, flags as they are)
//   clean : disconnectFromHost() + _q_socketDisconnected() (stream closed: not resumable any more)
//   fail  : handleStart() + _q_socketDisconnected()        (reconnect attempt lost before the session)
// Stanzas are injected through QXmppOutgoingClient::handlePacketReceived (the slot the socket feeds).
#include "common.h"

#include "QXmppClient.h"
#include "QXmppClient_p.h"
#include "QXmppClientExtension.h"
#include "QXmppLogger.h"
#include "QXmppOutgoingClient.h"
#include "QXmppOutgoingClient_p.h"
#include "QXmppPresence.h"
#include "QXmppRosterIq.h"
#include "QXmppRosterManager.h"
#include "QXmppStreamManagement_p.h"

#include <QCoreApplication>
#include <QDomDocument>
#include <algorithm>
#include <functional>
#include <memory>
#include <set>

using namespace vh;
using namespace QXmpp::Private;

static const QString OWN_BARE = QStringLiteral("me@example.org");
static const QString OWN_FULL = QStringLiteral("me@example.org/home");

// ---------------------------------------------------------------------------------------------
// the library declares `friend class TestClient` (QXmppClient, QXmppOutgoingClient, QXmppStanza,
// C2sStreamManager): this class reaches the private entry points without patching anything
class TestClient : public QXmppClient
{
public:
    TestClient()
    {
        qDeleteAll(d->extensions);
        d->extensions.clear();
        logger()->setLoggingType(QXmppLogger::SignalLogging);
        connect(logger(), &QXmppLogger::message, this, [this](QXmppLogger::MessageType type, const QString &text) {
            if (type == QXmppLogger::SentMessage) {
                sent << text;
            }
        });
        QXmppStanza::s_uniqeIdNo = 0;
        configuration().setJid(OWN_FULL);
        // as tests/TestClient.h: with acking on, a stanza "written" to the absent socket is queued instead of failing
        d->stream->enableStreamManagement(true);
    }

    QXmppOutgoingClient *stream() const { return d->stream; }
    QXmppOutgoingClientPrivate *sp() const { return d->stream->d.get(); }
    C2sStreamManager &c2s() const { return d->stream->c2sStreamManager(); }

    bool smEnabled() const { return c2s().enabled(); }
    bool smCanResume() const { return c2s().canResume(); }

    void ackAll()
    {
        // pretend the server acknowledged everything sent so far (keeps the unacked queue empty)
        d->stream->streamAckManager().setAcknowledgedSequenceNumber(0xffffffffu);
    }

    // sm: 0 none, 1 new (resumable), 2 new (not resumable), 3 resumed
    void open(int sm, bool auth)
    {
        d->stream->handleStart();
        sp()->isAuthenticated = auth;
        if (sm == 1 || sm == 2) {
            SmEnabled e;
            e.resume = sm == 1;
            e.id = QStringLiteral("sm-id");
            c2s().onEnabled(e);
        } else if (sm == 3) {
            SmResumed r;
            r.h = 0xffffffffu;
            r.previd = QStringLiteral("sm-id");
            c2s().onResumed(r);
        } else {
            d->stream->enableStreamManagement(true);  // acking only, streamManagementState() stays NoStreamManagement
        }
        d->stream->openSession();
    }
    void socketLost() { d->stream->_q_socketDisconnected(); }
    void streamClosed() { d->stream->disconnectFromHost(); }
    void streamRestart() { d->stream->handleStart(); }
    void receive(const QDomElement &el) { d->stream->handlePacketReceived(el); }

    QStringList sent;
};

// ---------------------------------------------------------------------------------------------
struct Item {
    std::string jid, name, sub;        // sub: "-" (attribute absent) none both from to remove bogus
    std::vector<std::string> groups;   // as written on the wire (may repeat)
};

// strings that may be empty or contain a blank: '=' prefix, blank and '%' percent-encoded
static std::string enc(const std::string &s)
{
    std::string o = "=";
    for (char c : s) { if (c == ' ') o += "%20"; else if (c == '%') o += "%25"; else o += c; }
    return o;
}

static std::string itemTok(const Item &i)
{
    std::string g;
    for (size_t k = 0; k < i.groups.size(); k++) { if (k) g += ";"; g += i.groups[k]; }
    return i.jid + "|" + i.name + "|" + i.sub + "|" + g;
}
static std::string itemsTok(const std::vector<Item> &v)
{
    if (v.empty()) return "-";
    std::string s;
    for (size_t k = 0; k < v.size(); k++) { if (k) s += ","; s += itemTok(v[k]); }
    return s;
}
static QString xmlEsc(const std::string &s) { return QString::fromStdString(s).toHtmlEscaped(); }
// The pending-subscription state of an item (ask='subscribe', approved='true') travels inside the name token as a
// "~s" / "~a" / "~sa" suffix: for the model the name is an opaque payload stored with the item, so the suffix is carried
// through every full roster and push without a change to the model; here it is written as the real attributes and read
// back through subscriptionStatus() / isApproved().
static std::string plainName(const std::string &n) { auto k = n.find('~'); return k == std::string::npos ? n : n.substr(0, k); }
static std::string flagsOf(const std::string &n) { auto k = n.find('~'); return k == std::string::npos ? "" : n.substr(k + 1); }
static QString itemsXml(const std::vector<Item> &v)
{
    QString x;
    for (auto &i : v) {
        x += "<item jid='" + xmlEsc(i.jid) + "'";
        if (!plainName(i.name).empty()) x += " name='" + xmlEsc(plainName(i.name)) + "'";
        if (i.sub != "-") x += " subscription='" + xmlEsc(i.sub) + "'";
        if (flagsOf(i.name).find('s') != std::string::npos) x += " ask='subscribe'";
        if (flagsOf(i.name).find('a') != std::string::npos) x += " approved='true'";
        x += ">";
        for (auto &g : i.groups) x += "<group>" + xmlEsc(g) + "</group>";
        x += "</item>";
    }
    return x;
}
static QDomElement dom(const QString &xml)
{
    QDomDocument doc;
    QString err;
    if (!doc.setContent(xml, true, &err)) {
        fprintf(stderr, "harness bug: bad xml %s: %s\n", qPrintable(xml), qPrintable(err));
        exit(3);
    }
    return doc.documentElement();
}

// symbolic operation chosen by the generators; resolved against the live objects when applied
struct Sym {
    enum Kind { Conn, Drop, Clean, Fail, Res, Err, Iq, Pres, Api, SetJid } kind;
    int sm = 0; bool auth = true;          // Conn
    int which = 0;                         // Res/Err: 0 = newest roster GET sent, -2 = newest roster SET sent by a mutator,
                                           //          -1 = an id never used, n>0 = request #n (gets and sets are numbered together)
    std::string from, id, type, status;    // Res/Err/Iq/Pres (type: iq type or presence type); Api: type = call, from = jid, status = name
    std::vector<Item> items;
    std::vector<std::string> groups;       // Api add
    bool tracked = false;                  // Api: task-returning variant (addRosterItem, subscribeTo, ...)
    // wire variants that must not matter (same op line): from='' instead of no from; result without <query/>; ver attribute
    bool emptyFromAttr = false, noQuery = false, ver = false;
};

// ---------------------------------------------------------------------------------------------
// reference history for the oracle (property level, independent of the Lean model)
struct HEv {
    enum K { Fresh, NoSmDisc, Full, Push, PresAU } k;
    std::vector<Item> items;
    std::string bare, res, status; bool avail = false;
};
struct ViewEntry { std::string name, sub; std::set<std::string> groups; bool operator==(const ViewEntry &o) const { return name == o.name && sub == o.sub && groups == o.groups; } };
using View = std::map<std::string, ViewEntry>;
using PresTab = std::map<std::string, std::map<std::string, std::string>>;

static std::string normSub(const std::string &s) { return (s == "-" || s == "bogus") ? "" : s; }

// "the most recent full roster received on the session with every later authorised push applied in order";
// noSmDiscIsBoundary = false: the property's reading (a session ends only where a fresh one begins)
// noSmDiscIsBoundary = true : additionally forget everything at a `disconnected` seen without stream management
//                             (the behaviour before repo commit fd7e86c; only used to name that regression precisely)
static void refFold(const std::vector<HEv> &h, bool noSmDiscIsBoundary, View &view, PresTab &pres)
{
    view.clear(); pres.clear();
    for (auto &e : h) {
        if (e.k == HEv::Fresh || (e.k == HEv::NoSmDisc && noSmDiscIsBoundary)) { view.clear(); pres.clear(); }
        if (e.k == HEv::Full) view.clear();
        if (e.k == HEv::Full || e.k == HEv::Push)
            for (auto &i : e.items) {
                if (e.k == HEv::Push && i.sub == "remove") view.erase(i.jid);
                else view[i.jid] = ViewEntry { i.name, normSub(i.sub), std::set<std::string>(i.groups.begin(), i.groups.end()) };
            }
        if (e.k == HEv::PresAU) { if (e.avail) pres[e.bare][e.res] = e.status; else pres[e.bare].erase(e.res); }
    }
    for (auto it = pres.begin(); it != pres.end();) { if (it->second.empty()) it = pres.erase(it); else ++it; }
}

// ---------------------------------------------------------------------------------------------
struct Env {
    std::unique_ptr<TestClient> client;
    QXmppRosterManager *mgr = nullptr;
    std::vector<std::string> sigs;
    std::map<int, QString> reqId;      // number of a roster IQ sent by the client (get or set, in order) -> stanza id
    int issued = 0, lastGet = 0, lastSet = 0;
    std::string ownNow = OWN_BARE.toStdString();   // configuration().jidBare() as the oracle tracks it
    bool open = false;
    std::set<std::string> knownBare;
    std::string history;               // replay text
    // oracle bookkeeping
    std::vector<HEv> hist;
    std::map<int, std::string> chainReqs;   // roster GETs sent since the last fresh connect and not yet answered -> bare JID configured then
    bool noSmDiscInChain = false;
    bool lastSessionResumable = false;

    Env()
    {
        client = std::make_unique<TestClient>();
        mgr = client->addNewExtension<QXmppRosterManager>(client.get());
        QObject::connect(mgr, &QXmppRosterManager::rosterReceived, [this]() { sigs.push_back("recv"); });
        QObject::connect(mgr, &QXmppRosterManager::itemAdded, [this](const QString &j) { sigs.push_back("add:" + j.toStdString()); });
        QObject::connect(mgr, &QXmppRosterManager::itemChanged, [this](const QString &j) { sigs.push_back("chg:" + j.toStdString()); });
        QObject::connect(mgr, &QXmppRosterManager::itemRemoved, [this](const QString &j) { sigs.push_back("rem:" + j.toStdString()); });
        QObject::connect(mgr, &QXmppRosterManager::presenceChanged, [this](const QString &b, const QString &r) { sigs.push_back("pc:" + b.toStdString() + "/" + r.toStdString()); });
        client->sent.clear();
    }

    static std::string subStr(QXmppRosterIq::Item::SubscriptionType t)
    {
        switch (t) {
        case QXmppRosterIq::Item::None: return "none";
        case QXmppRosterIq::Item::From: return "from";
        case QXmppRosterIq::Item::To: return "to";
        case QXmppRosterIq::Item::Both: return "both";
        case QXmppRosterIq::Item::Remove: return "remove";
        case QXmppRosterIq::Item::NotSet: return "";
        }
        return "?";
    }

    View actualView() const
    {
        View v;
        for (const auto &j : mgr->getRosterBareJids()) {
            auto e = mgr->getRosterEntry(j);
            std::string fl = std::string(e.subscriptionStatus() == "subscribe" ? "s" : "") + (e.isApproved() ? "a" : "");
            ViewEntry ve { e.name().toStdString() + (fl.empty() ? "" : "~" + fl), subStr(e.subscriptionType()), {} };
            for (const auto &g : e.groups()) ve.groups.insert(g.toStdString());
            v[j.toStdString()] = ve;
        }
        return v;
    }
    PresTab actualPres() const
    {
        PresTab p;
        std::set<std::string> ks = knownBare;
        for (const auto &j : mgr->getRosterBareJids()) ks.insert(j.toStdString());
        for (auto &b : ks) {
            const auto qb = QString::fromStdString(b);
            for (const auto &r : mgr->getResources(qb))
                p[b][r.toStdString()] = mgr->getPresence(qb, r).statusText().toStdString();
            // getAllPresencesForBareJid must tell the same story
            if (mgr->getAllPresencesForBareJid(qb).keys() != mgr->getResources(qb)) p[b]["<inconsistent>"] = "";
        }
        return p;
    }
    static std::string showView(const View &v)
    {
        if (v.empty()) return "-";
        std::string s;
        for (auto &kv : v) {
            if (!s.empty()) s += ",";
            std::string g;
            for (auto &x : kv.second.groups) { if (!g.empty()) g += ";"; g += x; }
            s += kv.first + "|" + kv.second.name + "|" + (kv.second.sub.empty() ? "-" : kv.second.sub) + "|" + g;
        }
        return s;
    }
    static std::string showPres(const PresTab &p)
    {
        if (p.empty()) return "-";
        std::string s;
        for (auto &kv : p) {
            if (!s.empty()) s += ",";
            s += kv.first + "=";
            bool first = true;
            for (auto &r : kv.second) { if (!first) s += "+"; first = false; s += r.first + ":" + r.second; }
        }
        return s;
    }

    // classifies what was written to the (absent) socket during the op
    std::vector<std::string> takeSent(std::vector<std::string> &resultIds)
    {
        std::vector<std::string> out;
        for (const auto &text : std::as_const(client->sent)) {
            QDomDocument doc;
            if (!doc.setContent(text, true)) continue;   // stream header and other non-documents
            auto el = doc.documentElement();
            if (el.tagName() == u"presence" && el.hasAttribute("type")) {   // subscription management (initial presence has no type)
                out.push_back("p:" + el.attribute("type").toStdString() + ">" + el.attribute("to").toStdString());
                continue;
            }
            if (el.tagName() != u"iq") continue;
            const auto type = el.attribute("type");
            const auto id = el.attribute("id");
            auto child = el.firstChildElement();
            const bool rosterQuery = child.tagName() == u"query" && child.namespaceURI() == u"jabber:iq:roster";
            if (type == u"get" && rosterQuery) {
                reqId[++issued] = id;
                lastGet = issued;
                chainReqs[issued] = ownNow;
                out.push_back("get#" + std::to_string(issued));
            } else if (type == u"set" && rosterQuery) {
                reqId[++issued] = id;
                lastSet = issued;
                std::string it;
                for (auto ie = child.firstChildElement("item"); !ie.isNull(); ie = ie.nextSiblingElement("item")) {
                    std::set<std::string> gs;
                    for (auto g = ie.firstChildElement("group"); !g.isNull(); g = g.nextSiblingElement("group")) gs.insert(g.text().toStdString());
                    std::string gj;
                    for (auto &g : gs) { if (!gj.empty()) gj += ";"; gj += g; }
                    const auto sub = ie.attribute("subscription").toStdString();
                    it += ":" + ie.attribute("jid").toStdString() + "|" + ie.attribute("name").toStdString() + "|" + (sub.empty() ? "-" : sub) + "|" + gj;
                }
                out.push_back("set#" + std::to_string(issued) + it);
            } else if (type == u"result") {
                out.push_back("result=" + id.toStdString() + ">" + el.attribute("to").toStdString());
                resultIds.push_back(id.toStdString());
            } else if (type == u"error") {
                out.push_back("error=" + id.toStdString());
            } else {
                out.push_back("iq-" + type.toStdString());
            }
        }
        client->sent.clear();
        return out;
    }

    std::string observe(const std::vector<std::string> &sentNow)
    {
        auto join = [](const std::vector<std::string> &v) { if (v.empty()) return std::string("-"); std::string s; for (size_t i = 0; i < v.size(); i++) { if (i) s += ";"; s += v[i]; } return s; };
        return join(sigs) + " | " + join(sentNow) + " | r=" + (mgr->isRosterReceived() ? "1" : "0") + " | " + showView(actualView()) + " | " + showPres(actualPres());
    }

    // a symbolic op may be impossible in the current situation (the library itself would never do it)
    bool legal(const Sym &s) const
    {
        switch (s.kind) {
        // a resumption continues the LATEST established session, which must have negotiated a resumable SM
        // session (environment assumption `resumesContinueSmSession`).  Before repo commit c590ae4 the library's
        // canResume flag could be stale after an intermediate session without SM; the harness keeps its own record
        // so that the assumption does not depend on that flag
        case Sym::Conn: return !open && (s.sm != 3 || (client->smCanResume() && lastSessionResumable));
        case Sym::Drop: case Sym::Clean: return open;
        case Sym::Fail: return !open;
        case Sym::SetJid: return true;
        default: return open;
        }
    }

    void oracleView(const char *what)
    {
        if (!open) return;   // judged at connected moments only
        View want, wantDefect; PresTab pwant, pwantDefect;
        refFold(hist, false, want, pwant);
        auto gotV = actualView(); auto gotP = actualPres();
        bool okV = gotV == want, okP = gotP == pwant;
        if (okV && okP) { oraclePass()++; return; }
        refFold(hist, true, wantDefect, pwantDefect);
        if (!okV) {
            if (noSmDiscInChain && gotV == wantDefect) oracleFail("C12:resume:roster-view-lost", history);
            else oracleFail(std::string("C12:view-mismatch:") + what, history + " want=" + showView(want) + " got=" + showView(gotV));
        }
        if (!okP) {
            if (noSmDiscInChain && gotP == pwantDefect) oracleFail("C12:resume:presence-table-lost", history);
            else oracleFail(std::string("C12:presence-mismatch:") + what, history + " want=" + showPres(pwant) + " got=" + showPres(gotP));
        }
    }

    // applies the op to the real objects; returns the op line and the observation
    std::pair<std::string, std::string> apply(const Sym &s)
    {
        sigs.clear();
        std::string line;
        const std::string before = showView(actualView()) + "#" + showPres(actualPres()) + "#" + (mgr->isRosterReceived() ? "1" : "0");
        bool foreignRosterIq = false, authorisedSet = false, fullAccepted = false, freshConn = false;
        bool mustNotChange = false; const char *mustNotChangeKey = "";
        std::string iqId;
        switch (s.kind) {
        case Sym::Conn: {
            static const char *names[] = { "none", "new", "new", "resumed" };
            line = std::string("conn ") + names[s.sm] + " " + (s.auth ? "1" : "0");
            client->open(s.sm, s.auth);
            open = true;
            if (s.sm != 3) lastSessionResumable = s.sm == 1;
            if (s.sm != 3) { freshConn = true; hist.clear(); hist.push_back({ HEv::Fresh }); chainReqs.clear(); noSmDiscInChain = false; }
            break;
        }
        case Sym::Drop: case Sym::Clean: case Sym::Fail: {
            if (s.kind == Sym::Clean) { client->streamClosed(); lastSessionResumable = false; }
            if (s.kind == Sym::Fail) client->streamRestart();
            const bool en = client->smEnabled(), cr = client->smCanResume();
            line = std::string("disc ") + (en ? "1" : "0") + " " + (cr ? "1" : "0");
            client->socketLost();
            open = false;
            if (!en) { hist.push_back({ HEv::NoSmDisc }); noSmDiscInChain = true; }
            break;
        }
        case Sym::Res: case Sym::Err: {
            int k = s.which == 0 ? lastGet : (s.which == -2 ? lastSet : (s.which < 0 ? 0 : s.which));
            if (k > issued) k = 0;
            const QString id = k > 0 ? reqId[k] : QStringLiteral("no-such-request");
            const bool ok = s.kind == Sym::Res;
            line = std::string(ok ? "res " : "err ") + std::to_string(k) + " " + enc(s.from) + (ok ? " " + itemsTok(s.items) : "");
            QString xml = "<iq xmlns='jabber:client' id='" + id + "' type='" + (ok ? "result" : "error") + "'";
            if (!s.from.empty()) xml += " from='" + xmlEsc(s.from) + "'";
            else if (s.emptyFromAttr) xml += " from=''";
            xml += " to='" + OWN_FULL + "'>";
            if (ok && !(s.noQuery && s.items.empty())) xml += QString("<query xmlns='jabber:iq:roster'") + (s.ver ? " ver='v42'" : "") + ">" + itemsXml(s.items) + "</query>";
            else xml += "<error type='cancel'><item-not-found xmlns='urn:ietf:params:xml:ns:xmpp-stanzas'/></error>";
            xml += "</iq>";
            // oracle: an answer counts iff it answers an unanswered roster request of this session chain and comes
            // from the server (no from) or the account's bare JID
            // from the server (no from) or the account's bare JID as configured when the request was sent; anything else —
            // third party, own full JID, unknown id, an id already answered, the id of a mutator's set — is a forgery
            auto cr = chainReqs.find(k);
            if (cr != chainReqs.end() && (s.from.empty() || s.from == cr->second)) {
                chainReqs.erase(cr);
                if (ok) { fullAccepted = true; HEv e { HEv::Full }; e.items = s.items; hist.push_back(e); }
            } else { mustNotChange = true; mustNotChangeKey = "C12:forged-result-changed-view"; }
            client->receive(dom(xml));
            break;
        }
        case Sym::Iq: {
            line = "iq " + s.type + " " + enc(s.from) + " " + enc(s.id) + " " + itemsTok(s.items);
            QString xml = "<iq xmlns='jabber:client' type='" + QString::fromStdString(s.type) + "'";
            if (!s.id.empty()) xml += " id='" + xmlEsc(s.id) + "'";
            if (!s.from.empty()) xml += " from='" + xmlEsc(s.from) + "'";
            else if (s.emptyFromAttr) xml += " from=''";
            xml += QString("><query xmlns='jabber:iq:roster'") + (s.ver ? " ver='v42'" : "") + ">" + itemsXml(s.items) + "</query></iq>";
            const std::string own = ownNow;
            const bool authorised = s.from.empty() || s.from == own || s.from.compare(0, own.size() + 1, own + "/") == 0;
            iqId = s.id;
            if (!authorised) foreignRosterIq = true;
            else if (s.type == "set") { authorisedSet = true; HEv e { HEv::Push }; e.items = s.items; hist.push_back(e); }
            else { mustNotChange = true; mustNotChangeKey = "C12:non-set-roster-iq-changed-view"; }
            client->receive(dom(xml));
            break;
        }
        case Sym::Pres: {
            line = "pres " + enc(s.from) + " " + s.type + " " + enc(s.status);
            QString xml = "<presence xmlns='jabber:client'";
            if (!s.from.empty()) xml += " from='" + xmlEsc(s.from) + "'";
            if (s.type != "available") xml += " type='" + QString::fromStdString(s.type) + "'";
            xml += ">";
            if (!s.status.empty()) xml += "<status>" + xmlEsc(s.status) + "</status>";
            xml += "</presence>";
            const auto slash = s.from.find('/');
            const std::string bare = s.from.substr(0, slash), res = slash == std::string::npos ? "" : s.from.substr(slash + 1);
            if (!bare.empty()) knownBare.insert(bare);
            if (!bare.empty() && (s.type == "available" || s.type == "unavailable")) {
                HEv e { HEv::PresAU }; e.bare = bare; e.res = res; e.status = s.status; e.avail = s.type == "available"; hist.push_back(e);
            }
            client->receive(dom(xml));
            break;
        }
        case Sym::Api: {
            const QString j = QString::fromStdString(s.from), n = QString::fromStdString(s.status);
            line = std::string("api ") + (s.tracked ? "t " : "u ") + s.type + " " + enc(s.from);
            mustNotChange = true; mustNotChangeKey = "C12:api-changed-view";
            if (s.type == "add") {
                std::string g; QSet<QString> gs;
                for (auto &x : s.groups) { if (!g.empty()) g += ";"; g += x; gs.insert(QString::fromStdString(x)); }
                line += " " + enc(s.status) + " " + (g.empty() ? "-" : g);
                if (s.tracked) mgr->addRosterItem(j, n, gs); else mgr->addItem(j, n, gs);
            } else if (s.type == "rm") {
                if (s.tracked) mgr->removeRosterItem(j); else mgr->removeItem(j);
            } else if (s.type == "ren") {
                line += " " + enc(s.status);
                if (s.tracked) mgr->renameRosterItem(j, n); else mgr->renameItem(j, n);
            } else if (s.type == "sub") {
                if (s.tracked) mgr->subscribeTo(j); else mgr->subscribe(j);
            } else if (s.type == "unsub") {
                if (s.tracked) mgr->unsubscribeFrom(j); else mgr->unsubscribe(j);
            } else if (s.type == "acc") {
                mgr->acceptSubscription(j);
            } else {
                mgr->refuseSubscription(j);
            }
            break;
        }
        case Sym::SetJid: {
            client->configuration().setJid(QString::fromStdString(s.from));
            ownNow = client->configuration().jidBare().toStdString();
            line = "setjid " + enc(ownNow);
            mustNotChange = true; mustNotChangeKey = "C12:setjid-changed-view";
            break;
        }
        }
        client->ackAll();
        std::vector<std::string> resultIds;
        auto sentNow = takeSent(resultIds);
        history += line + "; ";
        const std::string obs = observe(sentNow);

        // ---- oracle (property text, not the model) ----
        const std::string after = showView(actualView()) + "#" + showPres(actualPres()) + "#" + (mgr->isRosterReceived() ? "1" : "0");
        if (foreignRosterIq) {
            bool acked = std::find(resultIds.begin(), resultIds.end(), iqId) != resultIds.end();
            if (before != after || !sigs.empty()) oracleFail("C12:foreign-push-changed-view", history);
            else if (acked) oracleFail("C12:foreign-push-acknowledged", history);
            else oraclePass()++;
        }
        if (mustNotChange) {
            if (before != after || !sigs.empty()) oracleFail(mustNotChangeKey, history); else oraclePass()++;
        }
        if (authorisedSet) {
            long n = std::count(resultIds.begin(), resultIds.end(), iqId);
            if (n != 1) oracleFail("C12:authorised-push-not-acked-once", history); else oraclePass()++;
        }
        if (s.kind == Sym::Res || s.kind == Sym::Err) {
            bool recv = std::find(sigs.begin(), sigs.end(), "recv") != sigs.end();
            if (recv != fullAccepted) oracleFail("C12:roster-received-signal", history); else oraclePass()++;
        }
        if (freshConn) {
            // nothing of the earlier session is visible before the new roster arrives
            if (!actualView().empty() || !actualPres().empty() || mgr->isRosterReceived()) oracleFail("C12:survived-new-session", history);
            else oraclePass()++;
        }
        oracleView(line.substr(0, line.find(' ')).c_str());
        return { line, obs };
    }
};

// ---------------------------------------------------------------------------------------------
static long long nSeq = 0, nLines = 0;

static void runSeq(const std::vector<Sym> &ops, bool emitSample = false)
{
    Env env;
    corr("reset " + OWN_BARE.toStdString(), "ok");
    std::string text;
    for (auto &s : ops) {
        if (!env.legal(s)) { stat("skipped_illegal_ops"); continue; }
        auto r = env.apply(s);
        corr(r.first, r.second);
        nLines++;
        stat("op_" + r.first.substr(0, r.first.find(' ')));
        if (emitSample) text += r.first + " -> " + r.second + " ;; ";
    }
    if (emitSample) sample(text);
    nSeq++;
}

// exhaustive: every session-legal sequence of exactly `depth` symbols (shorter ones are its prefixes and every
// line is compared, so they are covered too).  Legality (a session can only be opened when none is open, resumed
// only when the library holds a resumable SM session, stanzas only arrive on an open session) is tracked by a
// two-bit simulation while enumerating and re-checked against the live objects when the sequence is run.
struct SimState { bool open = false, canResume = false; };
static bool simStep(SimState &st, const Sym &s)
{
    switch (s.kind) {
    case Sym::Conn:
        if (st.open || (s.sm == 3 && !st.canResume)) return false;
        st.open = true;
        if (s.sm == 1) st.canResume = true;
        if (s.sm == 0 || s.sm == 2) st.canResume = false;
        return true;
    case Sym::Drop: if (!st.open) return false; st.open = false; return true;
    case Sym::Clean: if (!st.open) return false; st.open = false; st.canResume = false; return true;
    case Sym::Fail: return !st.open;
    case Sym::SetJid: return true;
    default: return st.open;
    }
}
static void enumerate(const std::vector<Sym> &alpha, int depth, std::vector<int> &cur, SimState st, long long &count)
{
    if ((int)cur.size() == depth) {
        Env env;
        corr("reset " + OWN_BARE.toStdString(), "ok");
        for (int i : cur) {
            if (!env.legal(alpha[i])) { fprintf(stderr, "harness bug: legality simulation disagrees with the library\n"); exit(3); }
            auto r = env.apply(alpha[i]);
            corr(r.first, r.second);
            nLines++;
            stat("op_" + r.first.substr(0, r.first.find(' ')));
        }
        count++; nSeq++;
        return;
    }
    for (size_t i = 0; i < alpha.size(); i++) {
        SimState nx = st;
        if (!simStep(nx, alpha[i])) continue;
        cur.push_back((int)i); enumerate(alpha, depth, cur, nx, count); cur.pop_back();
    }
}

static Sym conn(int sm, bool auth = true) { Sym s; s.kind = Sym::Conn; s.sm = sm; s.auth = auth; return s; }
static Sym simple(Sym::Kind k) { Sym s; s.kind = k; return s; }
static Sym res(int which, const std::string &from, std::vector<Item> items) { Sym s; s.kind = Sym::Res; s.which = which; s.from = from; s.items = std::move(items); return s; }
static Sym err(int which, const std::string &from) { Sym s; s.kind = Sym::Err; s.which = which; s.from = from; return s; }
static Sym iq(const std::string &type, const std::string &from, const std::string &id, std::vector<Item> items) { Sym s; s.kind = Sym::Iq; s.type = type; s.from = from; s.id = id; s.items = std::move(items); return s; }
static Sym api(const std::string &call, bool tracked, const std::string &jid, const std::string &name = "", std::vector<std::string> groups = {}) { Sym s; s.kind = Sym::Api; s.type = call; s.tracked = tracked; s.from = jid; s.status = name; s.groups = std::move(groups); return s; }
static Sym setjid(const std::string &full) { Sym s; s.kind = Sym::SetJid; s.from = full; return s; }
static Sym pres(const std::string &from, const std::string &type, const std::string &status) { Sym s; s.kind = Sym::Pres; s.from = from; s.type = type; s.status = status; return s; }

int main(int argc, char **argv)
{
    qInstallMessageHandler([](QtMsgType, const QMessageLogContext &, const QString &) {});  // the library's qWarning chatter
    QCoreApplication app(argc, argv);
    Args a = parseArgs(argc, argv);
    const bool thorough = a.tier == "thorough";
    const std::string own = OWN_BARE.toStdString(), ownFull = OWN_FULL.toStdString();
    const std::string A = "alice@example.org", B = "bob@example.net";
    const std::string STRANGER = "mallory@evil.example/x";
    // look-alikes of the own account: other case, domain suffix, prefix, user-less domain, leading slash
    const std::vector<std::string> LOOKALIKES = { "Me@example.org", "me@example.org.evil.example", "me@example.orgx/home", "example.org",
                                                  "/me@example.org", "me@example.org@evil.example/home", " me@example.org" };

    // ---- corpus: minimized interesting histories first --------------------------------------
    // failed reconnect attempt between a resumable drop and the successful resumption: before repo commit fd7e86c the
    // `disconnected` of the failed attempt wiped roster and presences (oracle keys C12:resume:*); `resumeWitness` in Props/C12.lean
    runSeq({ conn(1), res(0, "", { { A, "Alice", "both", { "friends" } } }), pres(A + "/phone", "available", "hi"),
             simple(Sym::Drop), simple(Sym::Fail), conn(3) }, true);
    runSeq({ conn(1), res(0, "", { { A, "Alice", "both", {} } }), simple(Sym::Drop), conn(3), iq("set", "", "p1", { { B, "", "to", {} } }) }, true);
    runSeq({ conn(0), iq("set", STRANGER, "p1", { { B, "evil", "both", {} } }), iq("set", ownFull, "p2", { { B, "", "none", {} } }),
             res(0, own, { { A, "", "-", {} } }), simple(Sym::Drop), conn(0) }, true);
    // stale answer from the previous session after a fresh connect
    runSeq({ conn(1), simple(Sym::Drop), conn(1), res(1, "", { { A, "old", "both", {} } }), res(2, "", { { B, "new", "both", {} } }) }, true);

    // forged / stray / repeated roster results: third party with the right id, own full JID, unknown id, the genuine answer,
    // the same id again, an unsolicited roster result from the server, a roster payload answering a mutator's set
    runSeq({ conn(0), res(0, STRANGER, { { B, "evil", "both", {} } }), res(0, ownFull, { { B, "evil", "both", {} } }),
             res(-1, "", { { B, "evil", "both", {} } }), res(0, "", { { A, "Alice", "both", {} } }), res(0, "", { { B, "evil", "both", {} } }),
             res(1, STRANGER, {}), iq("result", "", "x1", { { B, "evil", "both", {} } }),
             api("rm", true, A), res(-2, "", { { B, "evil", "both", {} } }), api("ren", false, A, "Ally"), res(-2, own, {}) }, true);
    // JID reconfigured in mid-session: the sender rule follows the configuration, an answer is expected from the old address
    runSeq({ conn(0), setjid("me2@example.org/home"), iq("set", own, "p1", { { A, "A", "both", {} } }),
             iq("set", "me2@example.org/tab", "p2", { { B, "B", "to", {} } }), res(0, "me2@example.org", { { A, "x", "both", {} } }),
             res(0, own, { { A, "Alice", "both", {} } }), setjid(ownFull), iq("set", "me2@example.org", "p3", { { B, "", "remove", {} } }) }, true);

    // pushes for a contact already in the roster that differ from the stored item ONLY in ask= / approved=
    runSeq({ conn(0), res(0, "", { { A, "A1~s", "none", { "g" } }, { B, "B0", "to", {} } }),
             iq("set", "", "q1", { { A, "A1", "none", { "g" } } }),        // request denied / cancelled: ask cleared
             iq("set", own, "q2", { { A, "A1~a", "none", { "g" } } }),     // pre-approval granted
             iq("set", "", "q3", { { A, "A1~sa", "none", { "g" } } }),
             iq("set", ownFull, "q4", { { B, "B0~s", "to", {} } }),
             iq("set", "", "q5", { { A, "A1~s", "none", { "g" } } }) }, true);  // approval withdrawn

    // ---- exhaustive, roster alphabet ---------------------------------------------------------
    const std::vector<Item> R1 = { { A, "A1", "both", { "g" } } }, R2 = { { B, "B0", "to", {} }, { A, "A0", "none", {} } };
    std::vector<Sym> alphaR = {
        conn(0), conn(1), conn(3), simple(Sym::Drop), simple(Sym::Fail), simple(Sym::Clean),
        res(0, "", R1), res(0, own, R2), res(0, ownFull, R2), err(0, ""),
        iq("set", "", "p1", { { A, "A2", "to", {} } }),
        iq("set", own, "p2", { { B, "B1", "from", {} } }),
        iq("set", ownFull, "p3", { { A, "", "remove", {} } }),
        iq("set", STRANGER, "p4", { { B, "evil", "both", {} } }),
        iq("set", LOOKALIKES[1], "p5", { { A, "", "remove", {} } }),
        iq("get", A, "p6", {}),
        iq("get", "", "p7", {}),
    };
    // ---- exhaustive, presence alphabet -------------------------------------------------------
    // resources containing '/' and '@' on purpose: the resource is everything after the FIRST '/', the bare JID nothing else
    const std::string RA = "/r@1", RB = "/home/desk";
    std::vector<Sym> alphaP = {
        conn(0), conn(1), conn(3), simple(Sym::Drop), simple(Sym::Fail),
        pres(A + RA, "available", "s1"), pres(A + RA, "unavailable", ""), pres(A + RB, "available", "s2"),
        pres(A + RA, "available", "s3"), pres(B, "available", "s4"), pres(A + RB, "error", ""), pres(A + RB, "unavailable", "bye"),
    };
    // ---- exhaustive, forgery / mutator API / reconfiguration alphabet ----------------------------
    std::vector<Sym> alphaX = {
        conn(0), simple(Sym::Drop),
        res(0, "", R1),                                         // the genuine answer (a second one is a replay)
        res(0, STRANGER, { { B, "evil", "both", {} } }),        // third party, right id
        res(-2, "", { { B, "evil", "both", {} } }),             // roster payload answering a mutator's set
        res(-1, own, { { B, "evil", "both", {} } }),            // id never used
        iq("result", "", "x1", { { B, "evil", "both", {} } }),  // unsolicited roster result "from the server"
        iq("set", "", "p1", { { A, "A2", "to", {} }, { B, "B1", "from", {} }, { A, "", "remove", {} } }),   // several items
        api("ren", false, A, "Ally"), api("rm", true, A), api("add", true, B, "Bob", { "g" }),
        setjid("me2@example.org/home"),
        iq("set", "me2@example.org", "p8", { { B, "B2", "both", {} } }),
        iq("set", own + "/other", "p9", { { B, "", "remove", {} } }),
    };
    int depth = thorough ? 6 : 5;
    if (a.mode == "tiny") depth = 3;
    std::vector<int> cur;
    long long cR = 0, cP = 0, cX = 0;
    enumerate(alphaR, depth, cur, SimState(), cR);
    enumerate(alphaP, depth + 1, cur, SimState(), cP);   // smaller alphabet: one level deeper
    enumerate(alphaX, depth, cur, SimState(), cX);
    stat("exhaustive_alphabet_forgery_api", (long long)alphaX.size());
    stat("exhaustive_legal_sequences_forgery_api", cX);
    stat("exhaustive_depth_roster", depth);
    stat("exhaustive_depth_presence", depth + 1);
    stat("exhaustive_alphabet_roster", (long long)alphaR.size());
    stat("exhaustive_alphabet_presence", (long long)alphaP.size());
    stat("exhaustive_legal_sequences_roster", cR);
    stat("exhaustive_legal_sequences_presence", cP);

    // ---- seeded random, deep ------------------------------------------------------------------
    Rng rng(a.seed);
    const std::vector<std::string> jids = { A, B, "carol@example.org", own, "", "alice@example.org/r1" };
    const std::vector<std::string> names = { "", "N1", "N2", "n3" };
    const std::vector<std::string> subs = { "-", "none", "both", "from", "to", "remove", "remove", "bogus" };
    const std::vector<std::string> groups = { "g1", "g2", "Z" };
    std::vector<std::string> froms = { "", "", own, ownFull, own + "/other", own + "/", STRANGER, A, A + "/r1",
                                       own + "//", own + "/a/b", "@", "me@", "@example.org", "me2@example.org", "me2@example.org/tab" };
    for (auto &l : LOOKALIKES) froms.push_back(l);
    const std::vector<std::string> pfroms = { A + "/r1", A + "/r2", A, B + "/r1", B + "/x/y", own + "/home", "", "/r", "carol@example.org/r1",
                                              A + "/home/desk", A + "/desk", B + "/r@1/", A + "/" };
    const std::vector<std::string> ptypes = { "available", "available", "available", "unavailable", "unavailable", "error", "subscribed", "probe", "unsubscribed" };
    auto randItems = [&](int maxN) {
        std::vector<Item> v;
        int n = rng.below(10) == 0 ? 0 : 1 + rng.below(maxN);
        for (int i = 0; i < n; i++) {
            Item it { jids[rng.below(jids.size())], names[rng.below(names.size())], subs[rng.below(subs.size())], {} };
            int ng = rng.below(3);
            for (int g = 0; g < ng; g++) it.groups.push_back(groups[rng.below(groups.size())]);
            static const char *fl[] = { "", "", "", "~s", "~a", "~sa" };
            it.name += fl[rng.below(6)];
            v.push_back(it);
        }
        return v;
    };
    int nrand = thorough ? 60000 : 4000;
    if (a.mode == "tiny") nrand = 20;
    int pid = 0;
    for (int n = 0; n < nrand; n++) {
        int len = 5 + rng.below(46);
        std::vector<Sym> ops;
        bool open = false;   // generator's own guess, only to bias towards legal ops (legality is re-checked live)
        for (int j = 0; j < len; j++) {
            uint32_t r = rng.below(100);
            if (!open) {
                if (r < 75) { static const int sms[] = { 0, 1, 1, 2, 3, 3 }; ops.push_back(conn(sms[rng.below(6)], rng.below(25) != 0)); open = true; }
                else ops.push_back(simple(Sym::Fail));
                continue;
            }
            if (r < 10) { ops.push_back(simple(rng.below(4) == 0 ? Sym::Clean : Sym::Drop)); open = false; }
            else if (r < 28) {
                int which = rng.below(6) == 0 ? -1 : (rng.below(5) == 0 ? -2 : (rng.below(3) == 0 ? 1 + (int)rng.below(8) : 0));
                std::string from = rng.below(4) == 0 ? froms[rng.below(froms.size())] : (rng.coin() ? "" : (rng.below(8) == 0 ? "me2@example.org" : own));
                Sym x = rng.below(6) == 0 ? err(which, from) : res(which, from, randItems(4));
                x.emptyFromAttr = rng.below(4) == 0; x.noQuery = rng.below(3) == 0; x.ver = rng.below(4) == 0;
                if (x.emptyFromAttr || x.noQuery || x.ver) stat("wire_variants");
                ops.push_back(x);
            } else if (r < 62) {
                static const char *types[] = { "set", "set", "set", "set", "set", "set", "get", "result", "error" };
                Sym x = iq(types[rng.below(9)], froms[rng.below(froms.size())], rng.below(20) == 0 ? "" : "p" + std::to_string(++pid % 50), randItems(3));
                x.emptyFromAttr = rng.below(4) == 0; x.ver = rng.below(4) == 0;
                if (x.emptyFromAttr || x.ver) stat("wire_variants");
                ops.push_back(x);
            } else if (r < 72) {
                static const char *calls[] = { "add", "rm", "ren", "ren", "sub", "unsub", "acc", "ref" };
                const std::string c = calls[rng.below(8)];
                std::vector<std::string> gs;
                for (int g = rng.below(3); g > 0; g--) gs.push_back(groups[rng.below(groups.size())]);
                ops.push_back(api(c, rng.coin(), jids[rng.below(jids.size())], names[rng.below(names.size())], c == "add" ? gs : std::vector<std::string>()));
            } else if (r < 75) {
                static const char *js[] = { "me2@example.org/home", "me@example.org/home", "alice@example.org/x", "example.org", "me@example.org/home" };
                ops.push_back(setjid(js[rng.below(5)]));
            } else {
                ops.push_back(pres(pfroms[rng.below(pfroms.size())], ptypes[rng.below(ptypes.size())], rng.coin() ? "" : "st" + std::to_string(rng.below(5))));
            }
        }
        runSeq(ops, n < 2);
    }
    stat("random_sequences", nrand);
    stat("sequences", nSeq);
    stat("op_lines", nLines);
    finish();
    return 0;
}
