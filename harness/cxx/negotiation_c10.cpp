// C10 entry point of the shared negotiation harness (same code, default mode c10, separate binary so that C04 and C10
// checks can run concurrently without sharing output files).
#define NEG_DEFAULT_MODE "c10"
#include "negotiation.cpp"
