// C07 harness: every request completes exactly once, and only by a reply from the entity asked.
//
// Part A (correspondence + oracle): op sequences against the real QXmppClient::sendIq /
//   OutgoingIqManager (send, raw send, send failure, unacked-cache reset, ack, received stanzas of every
//   kind/type/id/from through the stream's receive entry point, session opened/closed, destruction).
// Part B (correspondence + oracle): QXmppMamManager::retrieveMessages with/without an e2ee extension.
// Part C (oracle only): request APIs of the bundled managers answered with {empty result, error,
//   unexpected payload, silence then non-resumable disconnect}; completions are counted.
//
// `class TestClient` is declared a friend by QXmppClient / QXmppOutgoingClient / C2sStreamManager / QXmppStanza.
#include "common.h"

#include "QXmppBlockingManager.h"
#include "QXmppClient.h"
#include "QXmppClientExtension.h"
#include "QXmppClient_p.h"
#include "QXmppDiscoveryIq.h"
#include "QXmppDiscoveryManager.h"
#include "QXmppE2eeExtension.h"
#include "QXmppEntityTimeIq.h"
#include "QXmppEntityTimeManager.h"
#include "QXmppExternalServiceDiscoveryManager.h"
#include "QXmppHttpUploadIq.h"
#include "QXmppIq.h"
#include "QXmppLogger.h"
#include "QXmppMamManager.h"
#include "QXmppAccountMigrationManager.h"
#include "QXmppMessage.h"
#include "QXmppMixConfigItem.h"
#include "QXmppMixInfoItem.h"
#include "QXmppMixInvitation.h"
#include "QXmppMixIq.h"
#include "QXmppMixParticipantItem.h"
#include "QXmppUserTuneItem.h"
#include "QXmppGeolocItem.h"
#include "QXmppMixManager.h"
#include "QXmppMovedManager.h"
#include "QXmppUserTuneManager.h"
#include "QXmppOutgoingClient.h"
#include "QXmppOutgoingClient_p.h"
#include "QXmppPubSubBaseItem.h"
#include "QXmppPubSubManager.h"
#include "QXmppPubSubSubscribeOptions.h"
#include "QXmppPubSubNodeConfig.h"
#include "QXmppPubSubAffiliation.h"
#include "QXmppPubSubSubscription.h"
#include "QXmppRosterManager.h"
#include "QXmppStreamManagement_p.h"
#include "QXmppTask.h"
#include "QXmppUploadRequestManager.h"
#include "QXmppVCardIq.h"
#include "QXmppVCardManager.h"
#include "QXmppVersionManager.h"

#include <QCoreApplication>
#include <QSslSocket>
#include <QTcpSocket>
#include "QXmppPacket_p.h"
#include <QDomDocument>
#include <QMimeDatabase>
#include <QRegularExpression>
#include <QTcpServer>
#include <algorithm>
#include <fcntl.h>
#include <sys/wait.h>
#include <unistd.h>
#include <functional>
#include <memory>
#include <set>
#include <sstream>

#define QL(s) QStringLiteral(s)
using namespace vh;
using IqResult = QXmppClient::IqResult;

static QDomElement toDom(const QString &xml)
{
    QDomDocument doc;
    QString err;
    if (!doc.setContent(xml, true, &err)) {
        fprintf(stderr, "harness bug: bad xml: %s\n%s\n", qPrintable(err), qPrintable(xml));
        exit(3);
    }
    return doc.documentElement();
}

// transport for part D (as harness/cxx/sm.cpp): a QSslSocket whose state is forced and whose writes are captured
class FakeSock : public QSslSocket
{
public:
    std::function<void(const QByteArray &)> sink;
    void up()
    {
        setOpenMode(QIODevice::ReadWrite);
        setSocketState(QAbstractSocket::ConnectedState);
    }
    void down() { setSocketState(QAbstractSocket::UnconnectedState); }
    // as QSslSocket does once the close has been flushed: the state changes and disconnected() is emitted synchronously, from
    // inside the call (so the order of the statements around socket.disconnectFromHost() in the client is observable)
    void disconnectFromHost() override
    {
        if (state() != QAbstractSocket::ConnectedState) return;
        setSocketState(QAbstractSocket::UnconnectedState);
        Q_EMIT disconnected();
    }

protected:
    qint64 writeData(const char *d, qint64 n) override
    {
        if (sink) sink(QByteArray(d, int(n)));
        return n;
    }
};

class TestClient : public QXmppClient
{
public:
    QStringList sent;     // every element written (logged) by the stream
    int randomIds = 0;    // "Using random ID" warnings seen

    explicit TestClient(const QString &jid, bool sm = true)
        : QXmppClient(QXmppClient::NoExtensions)
    {
        if (!jid.isEmpty()) {
            configuration().setJid(jid);
        }
        if (sm) {
            d->stream->enableStreamManagement(true);
        }
        connect(this, &QXmppLoggable::logMessage, this, [this](QXmppLogger::MessageType type, const QString &text) {
            if (type == QXmppLogger::SentMessage) {
                if (!text.startsWith(QL("<r "))) sent << text;
            } else if (type == QXmppLogger::WarningMessage && text.contains(QL("Using random ID"))) {
                randomIds++;
            }
        });
        QXmppStanza::s_uniqeIdNo = 0;
    }

    QXmppOutgoingClient *stream() const { return d->stream; }
    void inject(const QString &xml) { d->stream->handlePacketReceived(toDom(xml)); }
    void enableSm() { d->stream->enableStreamManagement(false); }
    void openSession(bool resumed, bool smEnabled)
    {
        auto &c2s = d->stream->c2sStreamManager();
        c2s.setResumed(resumed);
        c2s.setEnabled(smEnabled);
        d->stream->d->sessionStarted = false;
        d->stream->openSession();
    }
    void closeSession(bool canResume)
    {
        auto &c2s = d->stream->c2sStreamManager();
        c2s.m_canResume = canResume;
        d->stream->closeSession();
    }
    // part D: a transport whose writes are captured, under the real XmppSocket
    void installSocket(QSslSocket *fs)
    {
        fs->setParent(d->stream);
        d->stream->d->socket.setSocket(fs);
        // what the stream's constructor connects for the socket it creates itself
        connect(fs, &QAbstractSocket::disconnected, d->stream, &QXmppOutgoingClient::_q_socketDisconnected);
    }
    void keepAliveTimeout() { d->stream->throwKeepAliveError(); }
    void serverClosesStream() { Q_EMIT d->stream->d->socket.streamClosed(); }
    void streamStart() { d->stream->handleStart(); }
    void socketLost() { d->stream->_q_socketDisconnected(); }
    void streamDisconnect() { d->stream->disconnectFromHost(); }
    bool connectLoopback(quint16 port)
    {
        auto *s = d->stream->socket();
        s->connectToHost(QStringLiteral("127.0.0.1"), port);
        return s->waitForConnected(2000);
    }
};

static QString attrOf(const QString &xml, const QString &name)
{
    // attribute of the root element only
    int end = xml.indexOf(QLatin1Char('>'));
    QRegularExpression re(QL(" ") + name + QL("=\"([^\"]*)\""));
    auto m = re.match(xml.left(end < 0 ? xml.size() : end));
    return m.hasMatch() ? m.captured(1) : QString();
}

static std::string S(const QString &q) { return q.toStdString(); }
static QString Q(const std::string &s) { return QString::fromStdString(s); }

static const char *NS_STANZA = "urn:ietf:params:xml:ns:xmpp-stanzas";

// ------------------------------------------------------------------------------------------------ Part A
struct Injected { std::string kind, type, id, from; QString wireId; };
struct Req {
    std::string idAsked; QString toAsked; bool raw = false;
    QString wireId; bool wireKnown = false;
    QString toEff;         // addressee per the property text: asked one, or "" = none addressed
    int count = 0; std::string how; bool refused = false;
};

static QTcpServer *g_server = nullptr;

struct IqEnv {
    std::unique_ptr<TestClient> c;
    QObject ctx;
    QString ownBare, ownDomain;
    std::vector<Req> reqs;
    std::vector<Injected> inj;
    std::map<std::string, QString> wire;   // canonical id -> id on the wire
    int gens = 0;
    std::vector<std::pair<int, std::string>> stepDone;
    std::string history;
    std::string curOp;     // first word of the op being applied
    int curInj = -1;
    bool sockConnected = false;

    IqEnv(const std::string &own, bool sock, bool sm)
    {
        ownBare = own == "-" ? QString() : Q(own);
        ownDomain = ownBare.contains(QLatin1Char('@')) ? ownBare.section(QLatin1Char('@'), 1) : ownBare;
        c = std::make_unique<TestClient>(ownBare.isEmpty() ? QString() : ownBare + QL("/res"), sm);
        if (sock) {
            if (!c->connectLoopback(g_server->serverPort())) { fprintf(stderr, "loopback connect failed\n"); exit(3); }
            g_server->waitForNewConnection(1000);
            sockConnected = true;
            while (g_server->hasPendingConnections()) g_server->nextPendingConnection()->setParent(c.get());
        }
        wire["a"] = "a"; wire["b"] = "b"; wire["c"] = "c"; wire["-"] = "";
    }

    QString wireOf(const std::string &canon)
    {
        auto it = wire.find(canon);
        if (it != wire.end()) return it->second;
        return Q("?not-generated-" + canon);
    }

    static QString norm(const QString &j) { return j.toLower(); }

    // sender classes per the PROPERTY text (not per the model)
    bool mustComplete(const Req &r, const Injected &i) const
    {
        // no 'from': on a client-to-server stream only the user's own server can deliver that (it stamps everything it routes)
        if (i.from == "-") return r.toEff.isEmpty() || r.toEff == ownBare || r.toEff == ownDomain;
        QString from = Q(i.from);
        return from == (r.toEff.isEmpty() ? ownBare : r.toEff);
    }
    bool mayComplete(const Req &r, const Injected &i) const
    {
        if (mustComplete(r, i)) return true;
        if (i.from == "-") return true;   // the own server answering on behalf of the addressee: trusted, see SPEC assumptions
        QString from = Q(i.from);
        if (r.toEff.isEmpty()) return norm(from) == norm(ownBare) || norm(from) == norm(ownDomain);
        return norm(from) == norm(r.toEff);
    }

    void completed(int req, const std::string &how, int marker)
    {
        Req &r = reqs[req];
        r.count++; r.how = how;
        stepDone.push_back({ req, how });
        vh::stat("completed:" + (how.rfind("reply:result", 0) == 0 ? std::string("reply-result") : how.rfind("reply:error", 0) == 0 ? std::string("reply-error") : how));
        if (r.count > 1) { oracleFail("C07:iq:completed-twice", history); return; }
        bool byReply = how.rfind("reply:", 0) == 0;
        if (byReply) {
            if (curOp != "recv" || curInj < 0 || marker != curInj) { oracleFail("C07:iq:reply-completion-outside-its-stanza", history); return; }
            const Injected &i = inj[curInj];
            if (i.kind != "iq" || (i.type != "result" && i.type != "error")) { oracleFail("C07:iq:completed-by-non-response", history); return; }
            if (!r.wireKnown || i.wireId != r.wireId) { oracleFail("C07:iq:completed-by-wrong-id", history); return; }
            if (!mayComplete(r, i)) { oracleFail("C07:iq:completed-by-foreign-sender", history); return; }
            if (how != "reply:" + i.type + ":" + i.from) { oracleFail("C07:iq:wrong-value-delivered", history); return; }
            oraclePass()++;
        } else {
            // a received element may end a request without answering it only by ending the session: an <iq/> whose type is
            // none of get/set/result/error is a stream-level protocol violation ("Unexpected element received", disconnect)
            bool streamViolation = curOp == "recv" && curInj >= 0 && inj[curInj].kind == "iq" && inj[curInj].type == "none";
            if (curOp == "recv" && !(streamViolation && how == "cancelled")) { oracleFail("C07:iq:cancelled-by-stanza", history); return; }
            oraclePass()++;
        }
    }

    std::string classify(IqResult &&res, int &marker)
    {
        marker = -1;
        if (auto *el = std::get_if<QDomElement>(&res)) {
            marker = el->attribute(QStringLiteral("mk"), QStringLiteral("-1")).toInt();
            return "reply:" + S(el->attribute(QStringLiteral("type"))) + ":" + (el->hasAttribute(QStringLiteral("from")) ? S(el->attribute(QStringLiteral("from"))) : "-");
        }
        auto &e = std::get<QXmppError>(res);
        if (e.isStanzaError()) {
            auto se = e.value<QXmppStanza::Error>();
            QString t = se ? se->text() : QString();
            if (t.startsWith(QL("mk"))) marker = t.mid(2).toInt();
            if (marker >= 0 && marker < (int)inj.size()) return "reply:error:" + inj[marker].from;
            return "reply:error:?";
        }
        auto se = e.value<QXmpp::SendError>();
        if (se && *se == QXmpp::SendError::SocketWriteError) return "senderr";
        if (e.description.contains(QL("cancelled"))) return "cancelled";
        if (e.description.contains(QL("Invalid IQ id"))) return "refused-id";
        if (e.description.contains(QL("'to' address"))) return "refused-to";
        if (e.description == QL("Disconnected")) return "senderr";
        return "error:" + S(e.description);
    }

    void watch(QXmppTask<IqResult> task, int req)
    {
        task.then(&ctx, [this, req](IqResult &&res) {
            int marker;
            std::string how = classify(std::move(res), marker);
            completed(req, how, marker);
        });
    }

    void doSend(const std::string &idC, const std::string &toC, bool raw)
    {
        Req r; r.idAsked = idC; r.toAsked = toC == "-" ? QString() : Q(toC); r.raw = raw;
        r.toEff = r.toAsked;
        QString id = wireOf(idC);
        int req = (int)reqs.size();
        int sentBefore = c->sent.size();
        int randBefore = c->randomIds;
        reqs.push_back(r);
        if (raw) {
            QXmppIq iq(QXmppIq::Get); iq.setId(id); iq.setTo(r.toAsked);
            reqs[req].wireId = id; reqs[req].wireKnown = true;
            watch(c->stream()->iqManager().sendIq(QXmppPacket(iq), id, r.toAsked), req);
        } else {
            QXmppIq iq(QXmppIq::Get); iq.setId(id); iq.setTo(r.toAsked);
            auto task = c->sendIq(std::move(iq));
            // which id went out?  (a random one replaces an empty or used id; the library logs a warning when it does)
            int generated = c->randomIds - randBefore;
            QString w = id;
            bool known = true;
            for (int k = sentBefore; k < c->sent.size(); k++)
                if (c->sent[k].startsWith(QL("<iq"))) w = attrOf(c->sent[k], QStringLiteral("id"));
            if (generated > 0) {
                bool wasSent = false;
                for (int k = sentBefore; k < c->sent.size(); k++) if (c->sent[k].startsWith(QL("<iq"))) wasSent = true;
                for (int g = 0; g < generated; g++) {
                    std::string canon = "g" + std::to_string(gens++);
                    if (g == generated - 1 && wasSent) wire[canon] = w; else { wire[canon] = Q("?unobserved-" + canon); }
                }
                known = wasSent;
                vh::stat("generated_ids", generated);
            }
            reqs[req].wireId = w; reqs[req].wireKnown = known;
            watch(std::move(task), req);
        }
        if (reqs[req].count > 0 && reqs[req].how.rfind("refused", 0) == 0) reqs[req].refused = true;
    }

    void doRecv(const std::string &kind, const std::string &type, const std::string &idC, const std::string &from)
    {
        Injected i { kind, type, idC, from, wireOf(idC) };
        inj.push_back(i);
        curInj = (int)inj.size() - 1;
        QString xml = QL("<") + Q(kind) + QL(" xmlns='jabber:client' mk='") + QString::number(curInj) + QL("'");
        if (type != "none") xml += QL(" type='") + Q(type) + QL("'");
        if (idC != "-") xml += QL(" id='") + i.wireId + QL("'");
        if (from != "-") xml += QL(" from='") + Q(from) + QL("'");
        xml += QL(" to='me@own.org/res'>");
        if (kind == "iq") {
            if (type == "error")
                xml += QL("<error type='cancel'><item-not-found xmlns='") + Q(NS_STANZA) + QL("'/><text xmlns='") + Q(NS_STANZA) + QL("'>mk") + QString::number(curInj) + QL("</text></error>");
            else
                xml += QL("<x xmlns='urn:verif:payload'/>");
        } else if (kind == "message") {
            xml += QL("<body>hi</body>");
        }
        xml += QL("</") + Q(kind) + QL(">");
        // which pending requests does the property REQUIRE this stanza to complete?
        std::vector<int> must;
        if (kind == "iq" && (type == "result" || type == "error") && idC != "-")
            for (size_t k = 0; k < reqs.size(); k++)
                if (reqs[k].count == 0 && reqs[k].wireKnown && reqs[k].wireId == i.wireId && mustComplete(reqs[k], i)) must.push_back((int)k);
        c->inject(xml);
        if (sockConnected) QCoreApplication::processEvents();
        for (int k : must) {
            if (reqs[k].count != 1) oracleFail("C07:iq:legitimate-reply-ignored", history); else oraclePass()++;
        }
    }

    void checkAllFinished(const char *key)
    {
        for (auto &r : reqs) if (r.count != 1) { oracleFail(key, history); return; }
        oraclePass()++;
    }

    std::string apply(const std::string &op)
    {
        stepDone.clear(); curInj = -1;
        history += op + ";";
        std::istringstream is(op); std::string w; is >> w; curOp = w;
        vh::stat("op:" + w);
        if (c) {
            if (w == "send" || w == "sendraw") { std::string id, to; is >> id >> to; doSend(id, to, w == "sendraw"); }
            else if (w == "fail") { std::string id; is >> id; c->stream()->iqManager().finish(wireOf(id), QXmppError { QStringLiteral("Disconnected"), QXmpp::SendError::Disconnected }); }
            else if (w == "failall") c->stream()->streamAckManager().resetCache();
            else if (w == "ackall") c->inject(QStringLiteral("<a xmlns='urn:xmpp:sm:3' h='4000000000'/>"));
            else if (w == "ensm") c->enableSm();
            else if (w == "recv") { std::string k, t, id, from; is >> k >> t >> id >> from; doRecv(k, t, id, from); }
            // opened <smResumed> <smEnabled>: after a session that was NOT resumed nothing may be pending, whatever smEnabled is
            else if (w == "opened") { int r, e; is >> r >> e; c->openSession(r, e); if (!r) checkAllFinished("C07:iq:pending-after-nonresumable-end"); }
            else if (w == "closed") { int r; is >> r; c->closeSession(r); if (!r) checkAllFinished("C07:iq:pending-after-nonresumable-end"); }
            else if (w == "destroy") { c.reset(); checkAllFinished("C07:iq:pending-after-destruction"); }
            else { fprintf(stderr, "harness bug: op %s\n", op.c_str()); exit(3); }
        }
        std::sort(stepDone.begin(), stepDone.end());
        std::string o;
        for (auto &d : stepDone) { if (!o.empty()) o += ","; o += std::to_string(d.first) + ":" + d.second; }
        if (o.empty()) o = "-";
        std::vector<std::string> pend;
        if (c) for (auto &kv : wire) if (kv.first != "-" && c->stream()->iqManager().hasId(kv.second)) pend.push_back(kv.first);
        std::sort(pend.begin(), pend.end());
        std::string p;
        for (auto &x : pend) { if (!p.empty()) p += ","; p += x; }
        if (p.empty()) p = "-";
        return o + "|" + p;
    }
};

static void runIqSeq(const std::string &own, bool sock, bool sm, const std::vector<std::string> &ops, bool emitSample = false)
{
    std::string smp = "reset iq " + own + (sock ? " 1" : " 0") + (sm ? " 1" : " 0") + "; ";
    IqEnv env(own, sock, sm);
    corr("reset iq " + own + " " + (sock ? "1" : "0") + " " + (sm ? "1" : "0"), "ok");
    for (auto op : ops) {
        // "~N" stands for an id the library has generated earlier in this sequence (if any)
        auto pos = op.find('~');
        if (pos != std::string::npos) {
            auto end = op.find(' ', pos);
            if (end == std::string::npos) end = op.size();
            int n = atoi(op.substr(pos + 1, end - pos - 1).c_str());
            op = op.substr(0, pos) + (env.gens > 0 ? "g" + std::to_string(n % env.gens) : std::string("a")) + op.substr(end);
        }
        std::string obs = env.apply(op);
        corr(op, obs);
        if (emitSample) smp += op + " => " + obs + "; ";
    }
    if (emitSample) sample(smp);
    if (env.c) corr("destroy", env.apply("destroy"));   // exactly once: whatever is left must complete now
    vh::stat("iq_sequences");
}

static void enumIq(const std::vector<std::string> &alpha, int depth, std::vector<std::string> &cur)
{
    if ((int)cur.size() == depth) { runIqSeq("me@own.org", false, true, cur); return; }
    for (auto &a : alpha) { cur.push_back(a); enumIq(alpha, depth, cur); cur.pop_back(); }
}

// ------------------------------------------------------------------------------------------------ Part B
class DummyE2ee : public QXmppE2eeExtension
{
public:
    bool instant = false;
    struct Job { int idx; QXmppPromise<MessageDecryptResult> p; QXmppMessage m; bool done = false; };
    std::vector<Job> jobs;

    QXmppTask<MessageEncryptResult> encryptMessage(QXmppMessage &&m, const std::optional<QXmppSendStanzaParams> &) override
    {
        QXmppPromise<MessageEncryptResult> p; p.finish(std::make_unique<QXmppMessage>(std::move(m))); return p.task();
    }
    QXmppTask<MessageDecryptResult> decryptMessage(QXmppMessage &&m) override
    {
        m.setBody(QStringLiteral("decrypted"));
        QXmppPromise<MessageDecryptResult> p;
        auto t = p.task();
        if (instant) { p.finish(MessageDecryptResult { std::move(m) }); return t; }
        int idx = m.id().mid(1).toInt();
        jobs.push_back(Job { idx, std::move(p), std::move(m) });
        return t;
    }
    bool deferIq = false;   // part F: encryptIq / decryptIq report when the harness says so
    struct EncJob { QXmppPromise<IqEncryptResult> p; QXmppIq iq; bool done = false; };
    struct DecJob { QXmppPromise<IqDecryptResult> p; QDomElement el; bool done = false; };
    std::vector<EncJob> encJobs;
    std::vector<DecJob> decJobs;
    QXmppTask<IqEncryptResult> encryptIq(QXmppIq &&iq, const std::optional<QXmppSendStanzaParams> &) override
    {
        QXmppPromise<IqEncryptResult> p;
        auto t = p.task();
        if (deferIq) { encJobs.push_back(EncJob { std::move(p), std::move(iq) }); return t; }
        p.finish(std::make_unique<QXmppIq>(std::move(iq))); return t;
    }
    QXmppTask<IqDecryptResult> decryptIq(const QDomElement &el) override
    {
        QXmppPromise<IqDecryptResult> p;
        auto t = p.task();
        if (deferIq) { decJobs.push_back(DecJob { std::move(p), el }); return t; }
        p.finish(IqDecryptResult { NotEncrypted {} }); return t;
    }
    bool isEncrypted(const QDomElement &el) override
    {
        return !el.firstChildElement(QStringLiteral("encrypted")).isNull();
    }
    bool isEncrypted(const QXmppMessage &) override { return false; }
};

struct MamEnv {
    DummyE2ee e2ee;
    std::unique_ptr<TestClient> c;
    QXmppMamManager *mam = nullptr;
    QObject ctx;
    bool useE2ee, instant;
    bool started = false, answered = false;
    QString qid;
    int nmsgs = 0, nextMsg = 0;
    int finishes = 0;
    int msgsAtAnswer = -1;
    int errRealisation = 0;
    std::vector<std::string> evs;
    std::string history;

    MamEnv(bool e, bool inst) : useE2ee(e), instant(inst)
    {
        e2ee.instant = inst;
        c = std::make_unique<TestClient>(QStringLiteral("me@own.org/res"));
        mam = c->addNewExtension<QXmppMamManager>();
        if (e) c->setEncryptionExtension(&e2ee);
        QObject::connect(mam, &QXmppMamManager::archivedMessageReceived, &ctx, [this](const QString &, const QXmppMessage &) { evs.push_back("sig"); });
    }
    ~MamEnv() { c.reset(); }

    std::string apply(const std::string &op)
    {
        evs.clear();
        history += op + ";";
        std::istringstream is(op); std::string w; is >> w;
        vh::stat("mamop:" + w);
        if (w == "start") {
            if (!started) {
                started = true;
                int before = c->sent.size();
                mam->retrieveMessages().then(&ctx, [this](QXmppMamManager::RetrieveResult &&r) {
                    finishes++;
                    if (finishes > 1) oracleFail("C07:mam:finished-twice", history);
                    if (auto *ok = std::get_if<QXmppMamManager::RetrievedMessages>(&r)) {
                        evs.push_back("ok:" + std::to_string(ok->messages.size()));
                        // value: message i is the i-th collected one; encrypted ones went through the extension
                        bool good = (int)ok->messages.size() == msgsAtAnswer;
                        for (int i = 0; good && i < ok->messages.size(); i++) good = ok->messages[i].id() == QL("m") + QString::number(i);
                        if (!good) oracleFail("C07:mam:wrong-messages-delivered", history); else oraclePass()++;
                    } else evs.push_back("err");
                });
                for (int k = before; k < c->sent.size(); k++) if (c->sent[k].startsWith(QL("<iq"))) qid = attrOf(c->sent[k], QStringLiteral("id"));
            }
        } else if (w == "msg") {
            int mine, enc; is >> mine >> enc;
            QString id = QL("m") + QString::number(nmsgs);
            QString q = mine && started ? qid : QStringLiteral("other-query");
            QString xml = QL("<message xmlns='jabber:client' from='me@own.org' to='me@own.org/res'><result xmlns='urn:xmpp:mam:2' queryid='") + q +
                QL("' id='arch1'><forwarded xmlns='urn:xmpp:forward:0'><delay xmlns='urn:xmpp:delay' stamp='2020-01-01T00:00:00Z'/>") +
                QL("<message xmlns='jabber:client' from='bob@rem.org/r' to='me@own.org' type='chat' id='") + id + QL("'><body>plain</body>") +
                (enc ? QL("<encrypted xmlns='urn:verif:enc'/>") : QL("")) + QL("</message></forwarded></result></message>");
            size_t sig = evs.size();
            c->inject(xml);
            if (evs.size() == sig) nmsgs++;   // not handed to the signal API: the request state swallowed it
        } else if (w == "fin") {
            if (started) {
                if (!answered) msgsAtAnswer = nmsgs;
                c->inject(QL("<iq xmlns='jabber:client' type='result' id='") + qid + QL("' from='me@own.org'><fin xmlns='urn:xmpp:mam:2' complete='true'>") +
                          QL("<set xmlns='http://jabber.org/protocol/rsm'><count>0</count></set></fin></iq>"));
                if (!answered) msgsAtAnswer = nmsgs;
                answered = true;
            }
        } else if (w == "err") {
            if (started) {
                if (!answered) msgsAtAnswer = nmsgs;
                if ((errRealisation++ & 1) == 0)
                    c->inject(QL("<iq xmlns='jabber:client' type='error' id='") + qid + QL("'><error type='cancel'><item-not-found xmlns='") + Q(NS_STANZA) + QL("'/></error></iq>"));
                else
                    c->closeSession(false);
                if (!answered) msgsAtAnswer = nmsgs;
                answered = true;
            }
        } else if (w == "dec") {
            int i; is >> i;
            for (auto &j : e2ee.jobs) if (j.idx == i && !j.done) {
                j.done = true;
                if (i % 2 == 0) j.p.finish(QXmppE2eeExtension::MessageDecryptResult { std::move(j.m) });
                else j.p.finish(QXmppE2eeExtension::MessageDecryptResult { QXmppError { QStringLiteral("no key"), {} } });
                break;
            }
        } else { fprintf(stderr, "harness bug: mam op %s\n", op.c_str()); exit(3); }
        std::string o;
        for (auto &e : evs) { if (!o.empty()) o += ","; o += e; }
        return o.empty() ? "-" : o;
    }
};

static void runMamSeq(bool e2ee, bool instant, const std::vector<std::string> &ops)
{
    MamEnv env(e2ee, instant);
    corr(std::string("reset mam ") + (e2ee ? "1" : "0") + " " + (instant ? "1" : "0"), "ok");
    for (auto &op : ops) corr(op, env.apply(op));
    // closing suffix: let every outstanding decryption job report, then make sure the IQ has been answered
    for (size_t k = 0; k < env.e2ee.jobs.size(); k++)
        if (!env.e2ee.jobs[k].done) { std::string op = "dec " + std::to_string(env.e2ee.jobs[k].idx); corr(op, env.apply(op)); }
    if (env.started && !env.answered) {
        corr("err", env.apply("err"));
        for (size_t k = 0; k < env.e2ee.jobs.size(); k++)
            if (!env.e2ee.jobs[k].done) { std::string op = "dec " + std::to_string(env.e2ee.jobs[k].idx); corr(op, env.apply(op)); }
    }
    if (env.started) {
        // the request was answered (result / error / non-resumable end) and nothing is outstanding: exactly once
        if (env.finishes == 1) oraclePass()++;
        else if (env.finishes == 0)
            oracleFail(e2ee && env.msgsAtAnswer == 0 ? "C07:mam:e2ee-empty-page-never-finishes" : "C07:mam:never-finishes",
                       "e2ee=" + std::to_string(e2ee) + " instant=" + std::to_string(instant) + " " + env.history);
    }
    vh::stat("mam_sequences");
}

static void enumMam(const std::vector<std::string> &alpha, int depth, std::vector<std::string> &cur)
{
    if ((int)cur.size() == depth) {
        for (int cfg = 0; cfg < 4; cfg++) runMamSeq(cfg & 1, cfg & 2, cur);
        return;
    }
    for (auto &a : alpha) { cur.push_back(a); enumMam(alpha, depth, cur); cur.pop_back(); }
}

// ------------------------------------------------------------------------------------------------ Part D
// Session boundaries through the REAL negotiation of a real client: stream start, <stream:features/>, the client's
// <resume/> answered with <resumed/> or <failed/>, resource binding, <enable/> answered with <enabled/>, connection loss
// through _q_socketDisconnected(), orderly disconnect through disconnectFromHost() — with requests outstanding across
// every boundary.  The model ops printed carry the resumed / canResume values a CORRECT negotiation yields for what the
// scripted server answered; the oracle judges by the script alone (what the server said), never by client flags.
struct NegEnv {
    std::unique_ptr<TestClient> c;
    FakeSock *fs = nullptr;
    QObject ctx;
    enum Rq { None, Resume, Bind, Enable } lastReq = None;
    QString bindId;
    bool connected = false;      // a session is established
    bool attempting = false;     // transport up and stream started, but no session yet
    int discRoute = 0;           // which non-resumable route the next `disc` takes
    bool refResumable = false;   // script truth: the last session had stream management with resume='true' and was not ended orderly
    bool olderResumable = false; // an EARLIER session was resumable and nothing since told the client otherwise (orderly close,
                                 // <enabled/> without resume): the situation in which a stale belief can survive
    struct R { QString id; std::string canon; int count = 0; std::string how; };
    std::vector<R> reqs;
    std::vector<std::pair<int, std::string>> stepDone;
    std::string history;
    int injected = 0;

    NegEnv()
    {
        c = std::make_unique<TestClient>(QStringLiteral("me@own.org/res"), false);
        fs = new FakeSock;
        fs->sink = [this](const QByteArray &d) { onWrite(d); };
        c->installSocket(fs);
    }
    void onWrite(const QByteArray &d)
    {
        if (d.startsWith("<resume ")) lastReq = Resume;
        else if (d.startsWith("<enable ")) lastReq = Enable;
        else if (d.startsWith("<iq ") && d.contains("xmpp-bind")) { bindId = attrOf(QString::fromUtf8(d), QStringLiteral("id")); lastReq = Bind; }
    }
    void watch(QXmppTask<IqResult> task, int req)
    {
        task.then(&ctx, [this, req](IqResult &&res) {
            std::string how;
            if (auto *el = std::get_if<QDomElement>(&res)) how = "reply:" + S(el->attribute(QStringLiteral("type"))) + ":" + S(el->attribute(QStringLiteral("from")));
            else {
                auto &e = std::get<QXmppError>(res);
                auto se = e.value<QXmpp::SendError>();
                if (e.isStanzaError()) how = "reply:error:?";
                else if (se && *se == QXmpp::SendError::SocketWriteError) how = "senderr";
                else if (e.description.contains(QL("cancelled"))) how = "cancelled";
                else if (e.description == QL("Disconnected")) how = "senderr";
                else how = "error:" + S(e.description);
            }
            reqs[req].count++; reqs[req].how = how;
            stepDone.push_back({ req, how });
            if (reqs[req].count > 1) oracleFail("C07:neg:completed-twice", history);
        });
    }
    std::string obs()
    {
        std::sort(stepDone.begin(), stepDone.end());
        std::string o;
        for (auto &d : stepDone) { if (!o.empty()) o += ","; o += std::to_string(d.first) + ":" + d.second; }
        if (o.empty()) o = "-";
        std::vector<std::string> pend;
        if (c) for (auto &r : reqs) if (c->stream()->iqManager().hasId(r.id)) pend.push_back(r.canon);
        std::sort(pend.begin(), pend.end());
        std::string p;
        for (auto &x : pend) { if (!p.empty()) p += ","; p += x; }
        return o + "|" + (p.empty() ? "-" : p);
    }
    void line(const std::string &modelOp) { corr(modelOp, obs()); stepDone.clear(); }
    std::vector<int> pendingNow() const
    {
        std::vector<int> v;
        for (size_t k = 0; k < reqs.size(); k++) if (reqs[k].count == 0) v.push_back((int)k);
        return v;
    }
    // the session that just ended / began cannot continue the old one: every request issued so far must have completed
    void mustAllBeCompleted(const char *key)
    {
        for (auto &r : reqs) if (r.count != 1) { oracleFail(key, history); return; }
        oraclePass()++;
    }
    // across a genuine resumption (and a loss that can still be resumed) nothing may be given up
    void mustAllBeRetained(const std::vector<int> &before)
    {
        for (int k : before) if (reqs[k].count != 0) { oracleFail("C07:neg:cancelled-across-resumption", history); return; }
        oraclePass()++;
    }

    // a connection attempt begins: transport up, stream started, nothing negotiated yet (no session)
    void begin()
    {
        if (connected) loss();
        if (attempting) return;
        fs->up(); attempting = true;
        c->streamStart();
        lastReq = None;
        line("sock 1");
    }
    // the client itself gives the attempt up during negotiation (here: an element it does not understand -> "Unexpected element
    // received", disconnectFromHost(): resumption is given up too), then the socket reports the disconnect.  No session was ever
    // established on this connection, but the requests kept from a lost resumable session — and those issued while negotiating —
    // now belong to nothing that could be resumed: they must complete.
    void abortAttempt()
    {
        if (!attempting) return;
        c->inject(QL("<bogus xmlns='urn:verif:bogus'/>"));
        attempting = false;
        if (fs->state() == QAbstractSocket::ConnectedState) { fs->down(); c->socketLost(); }   // (not reached: the stand-in reports at once)
        refResumable = false; olderResumable = false;
        mustAllBeCompleted("C07:neg:pending-after-aborted-attempt");
        line("ndisc");
    }
    void loss()
    {
        if (!connected && !attempting) return;
        auto before = pendingNow();
        fs->down(); connected = false; attempting = false;
        c->socketLost();
        bool can = refResumable;
        if (can) mustAllBeRetained(before);
        else mustAllBeCompleted(olderResumable ? "C07:neg:stale-resumable-after-session-without-sm" : "C07:neg:pending-after-nonresumable-end");
        line("nloss");
    }
    void orderlyDisconnect()
    {
        if (!connected) return;
        // every route that ends the session for good goes through QXmppOutgoingClient::disconnectFromHost(): resumption is given
        // up, the socket is closed, and the socket reports disconnected() synchronously from inside that call
        switch (discRoute++ % 5) {
        case 0: c->disconnectFromServer(); vh::stat("neg_disc_application"); break;            // the application logs out
        case 1: c->serverClosesStream(); vh::stat("neg_disc_server_stream_close"); break;      // </stream:stream> from the server
        case 2: c->inject(QL("<bogus xmlns='urn:verif:bogus'/>")); vh::stat("neg_disc_rejected_element"); break;
        case 3: c->keepAliveTimeout(); vh::stat("neg_disc_keepalive_timeout"); break;
        default: c->streamDisconnect(); vh::stat("neg_disc_stream_disconnect"); break;
        }
        connected = false;
        if (fs->state() == QAbstractSocket::ConnectedState) { fs->down(); c->socketLost(); }   // (not reached: the stand-in reports at once)
        refResumable = false; olderResumable = false;
        mustAllBeCompleted("C07:neg:pending-after-nonresumable-end");
        line("ndisc");
    }
    // pol: 'R' server resumes if asked, 'F' server refuses resumption and offers a new resumable SM session,
    //      'U' as F but the new SM session is not resumable, 'N' server without stream management
    void connect(char pol)
    {
        if (connected) loss();
        auto before = pendingNow();
        if (!attempting) { fs->up(); c->streamStart(); }   // otherwise the attempt begun earlier goes on
        attempting = false; connected = true;
        lastReq = None;
        bool sm = pol != 'N';
        c->inject(QL("<stream:features xmlns:stream='http://etherx.jabber.org/streams'><bind xmlns='urn:ietf:params:xml:ns:xmpp-bind'/>") +
                  (sm ? QL("<sm xmlns='urn:xmpp:sm:3'/>") : QString()) + QL("</stream:features>"));
        bool genuine = false, smNow = false, resumableNow = false;
        for (int guard = 0; guard < 8; guard++) {
            Rq rq = lastReq; lastReq = None;
            if (rq == None) break;
            if (rq == Bind) {
                c->inject(QL("<iq xmlns='jabber:client' type='result' id='") + bindId + QL("'><bind xmlns='urn:ietf:params:xml:ns:xmpp-bind'><jid>me@own.org/res</jid></bind></iq>"));
            } else if (rq == Resume) {
                vh::stat("neg_resume_requests");
                if (pol == 'R' && refResumable) {   // a correct server resumes only a session it still holds
                    genuine = true; smNow = true; resumableNow = true;
                    c->inject(QL("<resumed xmlns='urn:xmpp:sm:3' previd='sess' h='0'/>"));
                } else {
                    c->inject(QL("<failed xmlns='urn:xmpp:sm:3'><item-not-found xmlns='urn:ietf:params:xml:ns:xmpp-stanzas'/></failed>"));
                }
            } else if (rq == Enable) {
                smNow = true; resumableNow = pol != 'U';
                c->inject(pol == 'U' ? QL("<enabled xmlns='urn:xmpp:sm:3' id='sess'/>") : QL("<enabled xmlns='urn:xmpp:sm:3' resume='true' id='sess'/>"));
            }
        }
        if (resumableNow) olderResumable = true;           // (re-)established a resumable session
        else if (smNow) olderResumable = false;            // <enabled/> without resume: the client was told
        refResumable = resumableNow;
        vh::stat(genuine ? "neg_sessions_resumed" : smNow ? "neg_sessions_new_sm" : "neg_sessions_new_nosm");
        if (genuine) mustAllBeRetained(before);
        else mustAllBeCompleted("C07:neg:pending-after-new-session");
        line(std::string("nconn ") + (smNow ? "1 " : "0 ") + (resumableNow ? "1 " : "0 ") + (genuine ? "1" : "0"));
    }
    void send()
    {
        R r; r.canon = "r" + std::to_string(reqs.size()); r.id = Q(r.canon);
        int req = (int)reqs.size();
        reqs.push_back(r);
        QXmppIq iq(QXmppIq::Get); iq.setId(r.id); iq.setTo(QStringLiteral("bob@rem.org/r"));
        watch(c->sendIq(std::move(iq)), req);
        line("send " + r.canon + " bob@rem.org/r");
    }
    void reply(bool stranger)
    {
        if (!connected || reqs.empty()) return;
        auto pend = pendingNow();
        int k = pend.empty() ? (int)reqs.size() - 1 : pend.front();
        bool wasPending = reqs[k].count == 0;
        std::string from = stranger ? "eve@evil.org/x" : "bob@rem.org/r";
        c->inject(QL("<iq xmlns='jabber:client' type='result' id='") + reqs[k].id + QL("' from='") + Q(from) + QL("' to='me@own.org/res' mk='") + QString::number(injected++) + QL("'><x xmlns='urn:verif:payload'/></iq>"));
        if (wasPending) {
            if (stranger && reqs[k].count != 0) oracleFail("C07:neg:completed-by-foreign-sender", history);
            else if (!stranger && reqs[k].count != 1) oracleFail("C07:neg:legitimate-reply-ignored", history);
            else oraclePass()++;
        }
        line("recv iq result " + reqs[k].canon + " " + from);
    }
    void apply(const std::string &sym)
    {
        history += sym + ";";
        vh::stat("negop:" + sym);
        if (sym == "send") send();
        else if (sym == "reply") reply(false);
        else if (sym == "stray") reply(true);
        else if (sym == "loss") loss();
        else if (sym == "begin") begin();
        else if (sym == "abort") abortAttempt();
        else if (sym == "disc") orderlyDisconnect();
        else if (sym == "connR") connect('R');
        else if (sym == "connF") connect('F');
        else if (sym == "connU") connect('U');
        else if (sym == "connN") connect('N');
        else { fprintf(stderr, "harness bug: neg op %s\n", sym.c_str()); exit(3); }
    }
};

static void runNegSeq(const std::vector<std::string> &ops)
{
    static int seqNo = 0;
    NegEnv env;
    env.discRoute = seqNo++;   // rotate the route of the first `disc` from sequence to sequence
    corr("reset neg me@own.org", "ok");
    for (auto &op : ops) env.apply(op);
    env.history += "destroy;";
    env.c.reset();
    for (auto &r : env.reqs) if (r.count != 1) { oracleFail("C07:neg:pending-after-destruction", env.history); break; }
    oraclePass()++;
    env.line("destroy");
    vh::stat("neg_sequences");
}

static void enumNeg(const std::vector<std::string> &alpha, int depth, std::vector<std::string> &cur)
{
    if ((int)cur.size() == depth) { runNegSeq(cur); return; }
    for (auto &a : alpha) { cur.push_back(a); enumNeg(alpha, depth, cur); cur.pop_back(); }
}

// ------------------------------------------------------------------------------------------------ Part E
// QXmppBlockingManager::fetchBlocklist: one IQ shared by all waiting callers, cached list, reset on a new session.
struct BlkEnv {
    std::unique_ptr<TestClient> c;
    QXmppBlockingManager *m = nullptr;
    QObject ctx;
    std::vector<int> counts;
    std::vector<std::pair<int, std::string>> evs;
    QString pendingId;
    std::string history;

    BlkEnv()
    {
        c = std::make_unique<TestClient>(QStringLiteral("me@own.org/res"));
        m = c->addNewExtension<QXmppBlockingManager>();
    }
    std::string apply(const std::string &op)
    {
        evs.clear();
        history += op + ";";
        vh::stat("blkop:" + op);
        if (op == "fetch") {
            int n = (int)counts.size();
            counts.push_back(0);
            int before = c->sent.size();
            m->fetchBlocklist().then(&ctx, [this, n](QXmppBlockingManager::BlocklistResult &&r) {
                counts[n]++;
                if (counts[n] > 1) oracleFail("C07:blk:call-completed-twice", history);
                evs.push_back({ n, std::holds_alternative<QXmppBlocklist>(r) ? "ok" : "err" });
            });
            for (int k = before; k < c->sent.size(); k++) if (c->sent[k].startsWith(QL("<iq"))) pendingId = attrOf(c->sent[k], QStringLiteral("id"));
        } else if (op == "iqok" || op == "iqerr") {
            if (!pendingId.isEmpty()) {
                QString id = pendingId; pendingId.clear();
                if (op == "iqok") c->inject(QL("<iq xmlns='jabber:client' type='result' id='") + id + QL("'><blocklist xmlns='urn:xmpp:blocking'><item jid='eve@evil.org'/></blocklist></iq>"));
                else c->inject(QL("<iq xmlns='jabber:client' type='error' id='") + id + QL("'><error type='cancel'><service-unavailable xmlns='") + Q(NS_STANZA) + QL("'/></error></iq>"));
                // the shared IQ has been answered: nobody may be left waiting
                bool all = true; for (int x : counts) all = all && x == 1;
                if (!all) oracleFail("C07:blk:caller-left-waiting", history); else oraclePass()++;
            }
        } else if (op == "newsess") {
            pendingId.clear();
            c->openSession(false, false);
            bool all = true; for (int x : counts) all = all && x == 1;
            if (!all) oracleFail("C07:blk:caller-left-waiting", history); else oraclePass()++;
        } else if (op == "resumed") {
            c->openSession(true, true);
        } else { fprintf(stderr, "harness bug: blk op %s\n", op.c_str()); exit(3); }
        std::sort(evs.begin(), evs.end());
        std::string o;
        for (auto &e : evs) { if (!o.empty()) o += ","; o += std::to_string(e.first) + ":" + e.second; }
        return (o.empty() ? "-" : o) + (m->isSubscribed() ? "|c=1" : "|c=0");
    }
};

static void runBlkSeq(const std::vector<std::string> &ops)
{
    BlkEnv env;
    corr("reset blk", "ok");
    for (auto &op : ops) corr(op, env.apply(op));
    corr("newsess", env.apply("newsess"));   // whatever is still waiting must complete now
    for (int x : env.counts) if (x != 1) { oracleFail("C07:blk:call-not-completed-once", env.history); break; }
    oraclePass()++;
    vh::stat("blk_sequences");
}

static void enumBlk(const std::vector<std::string> &alpha, int depth, std::vector<std::string> &cur)
{
    if ((int)cur.size() == depth) { runBlkSeq(cur); return; }
    for (auto &a : alpha) { cur.push_back(a); enumBlk(alpha, depth, cur); cur.pop_back(); }
}

// ------------------------------------------------------------------------------------------------ Part F
// QXmppClient::sendSensitiveIq with an encryption extension: encrypt -> request -> decrypt, one hand-rolled promise.
struct SensEnv {
    DummyE2ee e2ee;
    std::unique_ptr<TestClient> c;
    QObject ctx;
    bool started = false, extDropped = false, answered = false;
    QString sentId;
    int finishes = 0;
    std::vector<std::string> evs;
    std::string history;

    SensEnv()
    {
        e2ee.deferIq = true;
        c = std::make_unique<TestClient>(QStringLiteral("me@own.org/res"));
        c->setEncryptionExtension(&e2ee);
    }
    ~SensEnv() { c.reset(); }
    std::string apply(const std::string &op)
    {
        evs.clear();
        history += op + ";";
        std::istringstream is(op); std::string w, arg; is >> w >> arg;
        vh::stat("sensop:" + w);
        if (w == "start") {
            if (!started && !extDropped) {
                started = true;
                QXmppIq iq(QXmppIq::Get); iq.setId(QStringLiteral("s1")); iq.setTo(QStringLiteral("bob@rem.org/r"));
                c->sendSensitiveIq(std::move(iq)).then(&ctx, [this](IqResult &&r) {
                    finishes++;
                    if (finishes > 1) oracleFail("C07:sens:finished-twice", history);
                    if (auto *el = std::get_if<QDomElement>(&r)) evs.push_back(el->attribute(QStringLiteral("dec")) == QL("1") ? "ok:1" : "ok:0");
                    else evs.push_back("err");
                });
            }
        } else if (w == "enc") {
            for (auto &j : e2ee.encJobs) if (!j.done) {
                j.done = true;
                int before = c->sent.size();
                if (arg == "1") j.p.finish(QXmppE2eeExtension::IqEncryptResult { std::make_unique<QXmppIq>(std::move(j.iq)) });
                else j.p.finish(QXmppE2eeExtension::IqEncryptResult { QXmppError { QStringLiteral("no session"), {} } });
                for (int k = before; k < c->sent.size(); k++) if (c->sent[k].startsWith(QL("<iq"))) sentId = attrOf(c->sent[k], QStringLiteral("id"));
                break;
            }
        } else if (w == "iq") {
            if (!sentId.isEmpty() && !answered) {
                answered = true;
                if (arg == "1") c->inject(QL("<iq xmlns='jabber:client' type='result' id='") + sentId + QL("' from='bob@rem.org/r'><x xmlns='urn:verif:payload'/></iq>"));
                else c->inject(QL("<iq xmlns='jabber:client' type='error' id='") + sentId + QL("' from='bob@rem.org/r'><error type='cancel'><item-not-found xmlns='") + Q(NS_STANZA) + QL("'/></error></iq>"));
            }
        } else if (w == "dec") {
            for (auto &j : e2ee.decJobs) if (!j.done) {
                j.done = true;
                if (arg == "ok") { QDomElement e2 = j.el.cloneNode(true).toElement(); e2.setAttribute(QStringLiteral("dec"), QStringLiteral("1")); j.p.finish(QXmppE2eeExtension::IqDecryptResult { e2 }); }
                else if (arg == "ne") j.p.finish(QXmppE2eeExtension::IqDecryptResult { QXmppE2eeExtension::NotEncrypted {} });
                else j.p.finish(QXmppE2eeExtension::IqDecryptResult { QXmppError { QStringLiteral("bad mac"), {} } });
                break;
            }
        } else if (w == "dropext") {
            extDropped = true;
            c->setEncryptionExtension(nullptr);
        } else { fprintf(stderr, "harness bug: sens op %s\n", op.c_str()); exit(3); }
        std::string o;
        for (auto &e : evs) { if (!o.empty()) o += ","; o += e; }
        return o.empty() ? "-" : o;
    }
};

static void runSensSeq(const std::vector<std::string> &ops)
{
    SensEnv env;
    corr("reset sens", "ok");
    for (auto &op : ops) corr(op, env.apply(op));
    // every stage reports: the pipeline must have ended, exactly once
    for (auto op : { "enc 1", "iq 1", "dec ok" }) corr(op, env.apply(op));
    if (env.started) { if (env.finishes != 1) oracleFail("C07:sens:not-finished-once", env.history); else oraclePass()++; }
    vh::stat("sens_sequences");
}

static void enumSens(const std::vector<std::string> &alpha, int depth, std::vector<std::string> &cur)
{
    if ((int)cur.size() == depth) { runSensSeq(cur); return; }
    for (auto &a : alpha) { cur.push_back(a); enumSens(alpha, depth, cur); cur.pop_back(); }
}

// ------------------------------------------------------------------------------------------------ Part C
struct MgrCase {
    std::string name;
    // sets up extensions on the client and issues the request; increments *count on every completion
    std::function<void(TestClient &, QObject *, int *)> run;
    bool e2ee = false;
    std::function<void(TestClient &, QObject *, int *)> run2;   // same request again, on the manager added by run
};

// what a waiter was handed: "ok[:id=<stanza id>]" | "err:stanza:<condition>" | "err:send:<kind>[:cancelled]" | "err:other" | "value"
static std::vector<std::string> g_delivered;

template<typename T>
static std::string describeResult(T &r)
{
    if constexpr (requires { std::get_if<QXmppError>(&r); }) {
        if (auto *e = std::get_if<QXmppError>(&r)) {
            if (e->isStanzaError()) { auto se = e->template value<QXmppStanza::Error>(); return "err:stanza:" + std::to_string(se ? int(se->condition()) : -1); }
            if (auto se = e->template value<QXmpp::SendError>()) return "err:send:" + std::to_string(int(*se)) + (e->description.contains(QL("cancelled")) ? ":cancelled" : "");
            return "err:other";
        }
        return std::visit([](auto &v) -> std::string {
            using V = std::decay_t<decltype(v)>;
            if constexpr (std::is_same_v<V, QDomElement>) return "ok:id=" + S(v.attribute(QStringLiteral("id")));
            else if constexpr (requires { { v.id() } -> std::convertible_to<QString>; }) return "ok:id=" + S(v.id());
            else return "ok";
        }, r);
    } else {
        return "value";
    }
}

template<typename T>
static void countTask(QXmppTask<T> task, QObject *ctx, int *count)
{
    task.then(ctx, [count](T &&r) { (*count)++; g_delivered.push_back(describeResult(r)); });
}

// the value each waiter got must be the one the history calls for: the error the entity returned, the cancellation error when the
// session ended unanswered, and for a result the response to THIS request (its id) — never another path's value
static std::string wrongValue(const std::string &answer, const QString &lastId)
{
    static const std::string stanzaErr = "err:stanza:" + std::to_string(int(QXmppStanza::Error::ServiceUnavailable));
    static const std::string cancelled = "err:send:" + std::to_string(int(QXmpp::SendError::Disconnected)) + ":cancelled";
    for (auto &d : g_delivered) {
        bool ok;
        if (answer == "error") ok = d == stanzaErr;
        else if (answer == "silence-then-disconnect" || answer == "reply-from-stranger-then-disconnect") ok = d == cancelled;
        else {
            ok = d != cancelled && d.rfind("err:stanza", 0) != 0 && d.rfind("err:send", 0) != 0;
            auto p = d.find(":id=");
            if (ok && p != std::string::npos && !lastId.isEmpty()) ok = d.substr(p + 4) == S(lastId);
        }
        if (!ok) return d;
    }
    return "";
}

template<typename M, typename... A>
static M *ext(TestClient &c, A... a)
{
    if (auto *m = c.findExtension<M>()) return m;
    return c.addNewExtension<M>(a...);
}

static std::vector<MgrCase> mgrCases()
{
    std::vector<MgrCase> v;
    auto add = [&](const std::string &n, std::function<void(TestClient &, QObject *, int *)> f, bool e2ee = false) { v.push_back({ n, f, e2ee, f }); };
    add("client:sendIq", [](TestClient &c, QObject *x, int *n) { QXmppIq iq(QXmppIq::Get); iq.setTo(QStringLiteral("bob@rem.org/r")); countTask(c.sendIq(std::move(iq)), x, n); });
    add("client:sendGenericIq", [](TestClient &c, QObject *x, int *n) { QXmppIq iq(QXmppIq::Set); iq.setTo(QStringLiteral("own.org")); countTask(c.sendGenericIq(std::move(iq)), x, n); });
    add("client:sendSensitiveIq", [](TestClient &c, QObject *x, int *n) { QXmppIq iq(QXmppIq::Get); iq.setTo(QStringLiteral("bob@rem.org/r")); countTask(c.sendSensitiveIq(std::move(iq)), x, n); }, true);
    add("disco:requestDiscoInfo", [](TestClient &c, QObject *x, int *n) { countTask(ext<QXmppDiscoveryManager>(c)->requestDiscoInfo(QStringLiteral("own.org")), x, n); });
    add("disco:requestDiscoItems", [](TestClient &c, QObject *x, int *n) { countTask(ext<QXmppDiscoveryManager>(c)->requestDiscoItems(QStringLiteral("own.org")), x, n); });
    add("time:requestEntityTime", [](TestClient &c, QObject *x, int *n) { countTask(ext<QXmppEntityTimeManager>(c)->requestEntityTime(QStringLiteral("bob@rem.org/r")), x, n); });
    add("vcard:fetchVCard", [](TestClient &c, QObject *x, int *n) { countTask(ext<QXmppVCardManager>(c)->fetchVCard(QStringLiteral("bob@rem.org")), x, n); });
    add("vcard:setVCard", [](TestClient &c, QObject *x, int *n) { countTask(ext<QXmppVCardManager>(c)->setVCard(QXmppVCardIq()), x, n); });
    add("roster:addRosterItem", [](TestClient &c, QObject *x, int *n) { countTask(ext<QXmppRosterManager>(c, &c)->addRosterItem(QStringLiteral("bob@rem.org")), x, n); });
    add("roster:removeRosterItem", [](TestClient &c, QObject *x, int *n) { countTask(ext<QXmppRosterManager>(c, &c)->removeRosterItem(QStringLiteral("bob@rem.org")), x, n); });
    add("roster:renameRosterItem", [](TestClient &c, QObject *x, int *n) { countTask(ext<QXmppRosterManager>(c, &c)->renameRosterItem(QStringLiteral("bob@rem.org"), QStringLiteral("Bob")), x, n); });
    add("pubsub:requestItems", [](TestClient &c, QObject *x, int *n) { countTask(ext<QXmppPubSubManager>(c)->requestItems<QXmppPubSubBaseItem>(QStringLiteral("pubsub.own.org"), QStringLiteral("node")), x, n); });
    add("pubsub:requestItem", [](TestClient &c, QObject *x, int *n) { countTask(ext<QXmppPubSubManager>(c)->requestItem<QXmppPubSubBaseItem>(QStringLiteral("pubsub.own.org"), QStringLiteral("node"), QStringLiteral("item1")), x, n); });
    add("pubsub:publishItem", [](TestClient &c, QObject *x, int *n) { QXmppPubSubBaseItem it(QStringLiteral("item1")); countTask(ext<QXmppPubSubManager>(c)->publishItem(QStringLiteral("pubsub.own.org"), QStringLiteral("node"), it), x, n); });
    add("pubsub:publishItems", [](TestClient &c, QObject *x, int *n) { QVector<QXmppPubSubBaseItem> its { QXmppPubSubBaseItem(QStringLiteral("i1")), QXmppPubSubBaseItem(QStringLiteral("i2")) }; countTask(ext<QXmppPubSubManager>(c)->publishItems(QStringLiteral("pubsub.own.org"), QStringLiteral("node"), its), x, n); });
    add("pubsub:requestNodes", [](TestClient &c, QObject *x, int *n) { countTask(ext<QXmppPubSubManager>(c)->requestNodes(QStringLiteral("pubsub.own.org")), x, n); });
    add("pubsub:createInstantNode", [](TestClient &c, QObject *x, int *n) { countTask(ext<QXmppPubSubManager>(c)->createInstantNode(QStringLiteral("pubsub.own.org")), x, n); });
    add("pubsub:requestItemIds", [](TestClient &c, QObject *x, int *n) { countTask(ext<QXmppPubSubManager>(c)->requestItemIds(QStringLiteral("pubsub.own.org"), QStringLiteral("node")), x, n); });
    add("pubsub:requestSubscriptions", [](TestClient &c, QObject *x, int *n) { countTask(ext<QXmppPubSubManager>(c)->requestSubscriptions(QStringLiteral("pubsub.own.org")), x, n); });
    add("pubsub:requestAffiliations", [](TestClient &c, QObject *x, int *n) { countTask(ext<QXmppPubSubManager>(c)->requestAffiliations(QStringLiteral("pubsub.own.org")), x, n); });
    add("pubsub:requestNodeConfiguration", [](TestClient &c, QObject *x, int *n) { countTask(ext<QXmppPubSubManager>(c)->requestNodeConfiguration(QStringLiteral("pubsub.own.org"), QStringLiteral("node")), x, n); });
    add("pubsub:requestSubscribeOptions", [](TestClient &c, QObject *x, int *n) { countTask(ext<QXmppPubSubManager>(c)->requestSubscribeOptions(QStringLiteral("pubsub.own.org"), QStringLiteral("node")), x, n); });
    add("pubsub:requestOwnPepItemIds", [](TestClient &c, QObject *x, int *n) { countTask(ext<QXmppPubSubManager>(c)->requestOwnPepItemIds(QStringLiteral("node")), x, n); });
    add("mam:retrieveMessages", [](TestClient &c, QObject *x, int *n) { countTask(ext<QXmppMamManager>(c)->retrieveMessages(), x, n); });
    add("mam-e2ee:retrieveMessages", [](TestClient &c, QObject *x, int *n) { countTask(ext<QXmppMamManager>(c)->retrieveMessages(), x, n); }, true);
    add("blocking:fetchBlocklist-x2", [](TestClient &c, QObject *x, int *n) { auto *m = ext<QXmppBlockingManager>(c); countTask(m->fetchBlocklist(), x, n); countTask(m->fetchBlocklist(), x, n); });
    add("blocking:block", [](TestClient &c, QObject *x, int *n) { countTask(ext<QXmppBlockingManager>(c)->block(QStringLiteral("eve@evil.org")), x, n); });
    add("blocking:unblock", [](TestClient &c, QObject *x, int *n) { countTask(ext<QXmppBlockingManager>(c)->unblock(QStringLiteral("eve@evil.org")), x, n); });
    add("upload:requestSlot", [](TestClient &c, QObject *x, int *n) { countTask(ext<QXmppUploadRequestManager>(c)->requestSlot(QStringLiteral("f.png"), 10, QMimeDatabase().mimeTypeForName(QStringLiteral("image/png")), QStringLiteral("upload.own.org")), x, n); });
    add("extdisco:requestServices", [](TestClient &c, QObject *x, int *n) { countTask(ext<QXmppExternalServiceDiscoveryManager>(c)->requestServices(QStringLiteral("own.org")), x, n); });
    // --- MIX (needs discovery + pubsub managers)
    auto mix = [](TestClient &c) { ext<QXmppDiscoveryManager>(c); ext<QXmppPubSubManager>(c); return ext<QXmppMixManager>(c); };
    const QString CH = QStringLiteral("room@mix.own.org"), SVC = QStringLiteral("mix.own.org");
    add("mix:createChannel", [=](TestClient &c, QObject *x, int *n) { countTask(mix(c)->createChannel(SVC, QStringLiteral("room")), x, n); });
    add("mix:requestChannelJids", [=](TestClient &c, QObject *x, int *n) { countTask(mix(c)->requestChannelJids(SVC), x, n); });
    add("mix:requestChannelNodes", [=](TestClient &c, QObject *x, int *n) { countTask(mix(c)->requestChannelNodes(CH), x, n); });
    add("mix:requestChannelConfiguration", [=](TestClient &c, QObject *x, int *n) { countTask(mix(c)->requestChannelConfiguration(CH), x, n); });
    add("mix:updateChannelConfiguration", [=](TestClient &c, QObject *x, int *n) { countTask(mix(c)->updateChannelConfiguration(CH, QXmppMixConfigItem()), x, n); });
    add("mix:requestChannelInformation", [=](TestClient &c, QObject *x, int *n) { countTask(mix(c)->requestChannelInformation(CH), x, n); });
    add("mix:updateChannelInformation", [=](TestClient &c, QObject *x, int *n) { countTask(mix(c)->updateChannelInformation(CH, QXmppMixInfoItem()), x, n); });
    add("mix:joinChannel", [=](TestClient &c, QObject *x, int *n) { countTask(mix(c)->joinChannel(CH, QStringLiteral("nick")), x, n); });
    add("mix:updateNickname", [=](TestClient &c, QObject *x, int *n) { countTask(mix(c)->updateNickname(CH, QStringLiteral("nick2")), x, n); });
    add("mix:updateSubscriptions", [=](TestClient &c, QObject *x, int *n) { countTask(mix(c)->updateSubscriptions(CH), x, n); });
    add("mix:requestInvitation", [=](TestClient &c, QObject *x, int *n) { countTask(mix(c)->requestInvitation(CH, QStringLiteral("bob@rem.org")), x, n); });
    add("mix:requestAllowedJids", [=](TestClient &c, QObject *x, int *n) { countTask(mix(c)->requestAllowedJids(CH), x, n); });
    add("mix:allowJid", [=](TestClient &c, QObject *x, int *n) { countTask(mix(c)->allowJid(CH, QStringLiteral("bob@rem.org")), x, n); });
    add("mix:requestParticipants", [=](TestClient &c, QObject *x, int *n) { countTask(mix(c)->requestParticipants(CH), x, n); });
    // --- moved, PEP request, remaining pubsub
    auto moved = [](TestClient &c) { ext<QXmppDiscoveryManager>(c); ext<QXmppPubSubManager>(c); return ext<QXmppMovedManager>(c); };
    add("moved:publishStatement", [=](TestClient &c, QObject *x, int *n) { countTask(moved(c)->publishStatement(QStringLiteral("new@own.org")), x, n); });
    add("moved:verifyStatement", [=](TestClient &c, QObject *x, int *n) { countTask(moved(c)->verifyStatement(QStringLiteral("old@rem.org"), QStringLiteral("new@rem.org")), x, n); });
    add("tune:request", [](TestClient &c, QObject *x, int *n) { ext<QXmppPubSubManager>(c); countTask(ext<QXmppUserTuneManager>(c)->request(QStringLiteral("bob@rem.org")), x, n); });
    add("pubsub:requestNodeAffiliations", [](TestClient &c, QObject *x, int *n) { countTask(ext<QXmppPubSubManager>(c)->requestNodeAffiliations(QStringLiteral("pubsub.own.org"), QStringLiteral("node")), x, n); });
    add("pubsub:createInstantNode-config", [](TestClient &c, QObject *x, int *n) { countTask(ext<QXmppPubSubManager>(c)->createInstantNode(QStringLiteral("pubsub.own.org"), QXmppPubSubNodeConfig()), x, n); });
    // --- account migration: export runs the export functions registered by the roster and vCard managers in parallel
    add("migration:exportData", [](TestClient &c, QObject *x, int *n) {
        auto *mig = ext<QXmppAccountMigrationManager>(c);
        ext<QXmppRosterManager>(c, &c); ext<QXmppVCardManager>(c);
        countTask(mig->exportData(), x, n); });
    add("migration:importData-empty", [](TestClient &c, QObject *x, int *n) {
        auto *mig = ext<QXmppAccountMigrationManager>(c);
        ext<QXmppRosterManager>(c, &c); ext<QXmppVCardManager>(c);
        countTask(mig->importData(QXmppExportData()), x, n); });
    return v;
}

// which of the request-API functions listed by translators/promise_sites.py each part of this harness drives
static std::map<std::string, std::vector<std::string>> coverageTable()
{
    return {
        { "partA", { "IqState" } },
        { "partB", { "RetrieveRequestState" } },
        { "partE", { "QXmppBlockingManagerPrivate", "QXmppBlockingManager::fetchBlocklist" } },
        { "partF", { "QXmppClient::sendSensitiveIq" } },
        { "client:sendGenericIq", { "QXmppClient::sendGenericIq" } },
        { "client:sendSensitiveIq", { "QXmppClient::sendSensitiveIq" } },
        { "disco:requestDiscoInfo", { "QXmppDiscoveryManager::requestDiscoInfo" } },
        { "disco:requestDiscoItems", { "QXmppDiscoveryManager::requestDiscoItems" } },
        { "time:requestEntityTime", { "QXmppEntityTimeManager::requestEntityTime" } },
        { "vcard:fetchVCard", { "QXmppVCardManager::fetchVCard" } },
        { "pubsub:requestItems", { "QXmppPubSubManager::requestItems" } },
        { "pubsub:requestItem", { "QXmppPubSubManager::requestItem" } },
        { "pubsub:publishItem", { "QXmppPubSubManager::publishItem" } },
        { "pubsub:publishItems", { "QXmppPubSubManager::publishItems" } },
        { "pubsub:requestNodes", { "QXmppPubSubManager::requestNodes" } },
        { "pubsub:createInstantNode", { "QXmppPubSubManager::createInstantNode" } },
        { "pubsub:requestItemIds", { "QXmppPubSubManager::requestItemIds" } },
        { "pubsub:requestSubscriptions", { "QXmppPubSubManager::requestSubscriptions" } },
        { "pubsub:requestAffiliations", { "QXmppPubSubManager::requestAffiliations" } },
        { "pubsub:requestNodeConfiguration", { "QXmppPubSubManager::requestNodeConfiguration" } },
        { "pubsub:requestSubscribeOptions", { "QXmppPubSubManager::requestSubscribeOptions" } },
        { "pubsub:requestNodeAffiliations", { "QXmppPubSubManager::requestNodeAffiliations" } },
        { "mam:retrieveMessages", { "RetrieveRequestState" } },
        { "blocking:fetchBlocklist-x2", { "QXmppBlockingManager::fetchBlocklist" } },
        { "upload:requestSlot", { "QXmppUploadRequestManager::requestSlot" } },
        { "extdisco:requestServices", { "QXmppExternalServiceDiscoveryManager::requestServices" } },
        { "mix:createChannel", { "QXmppMixManager::createChannel" } },
        { "mix:requestChannelJids", { "QXmppMixManager::requestChannelJids" } },
        { "mix:requestChannelNodes", { "QXmppMixManager::requestChannelNodes" } },
        { "mix:requestChannelConfiguration", { "QXmppMixManager::requestChannelConfiguration" } },
        { "mix:updateChannelConfiguration", { "QXmppMixManager::updateChannelConfiguration" } },
        { "mix:requestChannelInformation", { "QXmppMixManager::requestChannelInformation" } },
        { "mix:updateChannelInformation", { "QXmppMixManager::updateChannelInformation" } },
        { "mix:joinChannel", { "QXmppMixManager::joinChannel" } },
        { "mix:updateNickname", { "QXmppMixManager::updateNickname" } },
        { "mix:updateSubscriptions", { "QXmppMixManager::updateSubscriptions" } },
        { "mix:requestInvitation", { "QXmppMixManager::requestInvitation" } },
        { "mix:requestAllowedJids", { "QXmppMixManager::requestJids" } },
        { "mix:allowJid", { "QXmppMixManager::addJidToNode" } },
        { "mix:requestParticipants", { "QXmppMixManager::requestParticipants" } },
        { "moved:publishStatement", { "QXmppMovedManager::publishStatement" } },
        { "moved:verifyStatement", { "QXmppMovedManager::verifyStatement" } },
        { "tune:request", { "request" } },
        { "migration:exportData", { "QXmppAccountMigrationManager::exportData", "QXmppAccountMigrationManager::registerExportData",
                                    "QXmppRosterManager::onRegistered", "QXmppRosterManager::requestRoster", "QXmppVCardManager::onRegistered" } },
        { "migration:importData-empty", { "QXmppAccountMigrationManager::importData" } },
    };
}

static void reportCoverage(const std::set<std::string> &ran)
{
    // .build/c07/promise_sites.txt is written by translators/promise_sites.py on every check run (cwd = .build)
    FILE *f = fopen("c07/promise_sites.txt", "r");
    if (!f) { printf("X coverage: c07/promise_sites.txt not found (translator not run)\n"); return; }
    std::set<std::string> found;
    char buf[512];
    while (fgets(buf, sizeof buf, f)) {
        std::string l = buf;
        while (!l.empty() && (l.back() == '\n' || l.back() == '\r')) l.pop_back();
        auto t = l.find('\t');
        if (t != std::string::npos) found.insert(l.substr(t + 1));
    }
    fclose(f);
    std::set<std::string> covered;
    auto tab = coverageTable();
    for (auto &r : ran) { auto it = tab.find(r); if (it != tab.end()) for (auto &fn : it->second) covered.insert(fn); }
    std::string missing;
    int hit = 0;
    for (auto &fn : found) { if (covered.count(fn)) hit++; else missing += (missing.empty() ? "" : ",") + fn; }
    vh::stat("api_functions_found", (long long)found.size());
    vh::stat("api_functions_exercised", hit);
    printf("S api_functions_not_exercised %s\n", missing.empty() ? "-" : missing.c_str());
}

static void runManagerLayer()
{
    std::set<std::string> ran = { "partA", "partB", "partE", "partF" };
    bool firstPass = false;   // true inside a probing child
    static const char *answers[] = { "empty-result", "error", "unexpected-payload", "silence-then-disconnect", "reply-from-stranger-then-disconnect" };
    for (auto &mc : mgrCases()) {
        for (const char *ans : answers) {
            std::string a = ans;
            int count = 0, expected = mc.name.find("-x2") != std::string::npos ? 2 : 1;
            int rounds = 0;
            // probe: the same case in a child process first — a converter that crashes on the answer must not take the harness down
            if (!firstPass) {
                fflush(stdout);
                pid_t pid = fork();
                int st = 0;
                if (pid == 0) {
                    int nul = open("/dev/null", O_WRONLY);
                    dup2(nul, 1); dup2(nul, 2);
                    firstPass = true;
                } else {
                    waitpid(pid, &st, 0);
                }
                if (pid != 0 && WIFSIGNALED(st)) {
                    // key of the defect fixed by repo commit c3b50d7 (takeFirst() on an empty item list); the witness cases stay in part C
                    bool mixFirst = (mc.name == "mix:requestChannelConfiguration" || mc.name == "mix:requestChannelInformation") && (a == "empty-result" || a == "unexpected-payload");
                    oracleFail(mixFirst ? "C07:mgr:mix:empty-items-takeFirst-crash" : "C07:mgr:" + mc.name + ":" + a + ":crash",
                               "manager layer: " + mc.name + " answered with " + a + ": the process dies with signal " + std::to_string(WTERMSIG(st)) + " instead of completing the request");
                    ran.insert(mc.name);
                    vh::stat("mgr_cases"); vh::stat("mgr_crashes");
                    continue;
                }
            }
            {
                DummyE2ee e2ee; e2ee.instant = true;
                QObject ctx;
                TestClient c(QStringLiteral("me@own.org/res"));
                if (mc.e2ee) c.setEncryptionExtension(&e2ee);
                int handled = 0;
                QString lastId;
                g_delivered.clear();
                int sentBefore = c.sent.size();
                mc.run(c, &ctx, &count);
                // answered locally without any request (e.g. renaming an item that is not in the roster, importing no data):
                // no reply or session end decides that value
                bool sentIq = false;
                for (int k = sentBefore; k < c.sent.size(); k++) if (c.sent[k].startsWith(QL("<iq"))) sentIq = true;
                const bool local = !sentIq && count == expected;
                // answer every request the API sends (some APIs chain several), at most 6 rounds
                while (a != "silence-then-disconnect" && rounds < 6) {
                    int k = handled;
                    for (; k < c.sent.size(); k++) if (c.sent[k].startsWith(QL("<iq")) && attrOf(c.sent[k], QStringLiteral("type")) != QL("error") && attrOf(c.sent[k], QStringLiteral("type")) != QL("result")) break;
                    if (k >= c.sent.size()) break;
                    handled = k + 1; rounds++;
                    QString id = attrOf(c.sent[k], QStringLiteral("id")), to = attrOf(c.sent[k], QStringLiteral("to"));
                    lastId = id;
                    QString from = a == "reply-from-stranger-then-disconnect" ? QStringLiteral(" from='eve@evil.org/x'") : (to.isEmpty() ? QString() : QL(" from='") + to + QL("'"));
                    QString head = QL("<iq xmlns='jabber:client' id='") + id + QL("'") + from + QL(" to='me@own.org/res'");
                    int before = count;
                    if (a == "error") c.inject(head + QL(" type='error'><error type='cancel'><service-unavailable xmlns='") + Q(NS_STANZA) + QL("'/></error></iq>"));
                    else if (a == "unexpected-payload") c.inject(head + QL(" type='result'><junk xmlns='urn:verif:junk'><x y='1'>text</x></junk></iq>"));
                    else c.inject(head + QL(" type='result'/>"));
                    QCoreApplication::processEvents();
                    if (a == "reply-from-stranger-then-disconnect" && count != before)
                        oracleFail("C07:mgr:" + mc.name + ":completed-by-stranger", mc.name + " answered from eve@evil.org/x");
                    if (a == "reply-from-stranger-then-disconnect") break;
                    // the same reply once more: must change nothing
                    before = count;
                    if (a == "error") c.inject(head + QL(" type='error'><error type='cancel'><service-unavailable xmlns='") + Q(NS_STANZA) + QL("'/></error></iq>"));
                    else c.inject(head + QL(" type='result'/>"));
                    if (count != before) oracleFail("C07:mgr:" + mc.name + ":duplicate-reply-completes-again", mc.name + " " + a);
                }
                auto checkValues = [&](const char *phase) {
                    if (local) { g_delivered.clear(); return; }
                    std::string bad = wrongValue(a, lastId);
                    if (!bad.empty()) oracleFail("C07:mgr:" + mc.name + ":" + a + ":wrong-value", "manager layer: " + mc.name + " answered with " + a + " (" + phase + "): a waiter was handed " + bad + " (last answered request id " + S(lastId) + ")");
                    else if (!g_delivered.empty()) oraclePass()++;
                    g_delivered.clear();
                };
                if (a == "empty-result" || a == "error" || a == "unexpected-payload") checkValues("first call");
                // the same API once more on the same manager (stale per-manager state must not swallow it)
                if (a == "empty-result" || a == "error" || a == "unexpected-payload") {
                    int count2 = 0;
                    handled = c.sent.size();
                    mc.run2 ? mc.run2(c, &ctx, &count2) : (void)0;
                    int r2 = 0;
                    while (mc.run2 && r2 < 6) {
                        int k = handled;
                        for (; k < c.sent.size(); k++) if (c.sent[k].startsWith(QL("<iq")) && attrOf(c.sent[k], QStringLiteral("type")) != QL("error") && attrOf(c.sent[k], QStringLiteral("type")) != QL("result")) break;
                        if (k >= c.sent.size()) break;
                        handled = k + 1; r2++;
                        QString id = attrOf(c.sent[k], QStringLiteral("id")), to = attrOf(c.sent[k], QStringLiteral("to"));
                        lastId = id;
                        QString head = QL("<iq xmlns='jabber:client' id='") + id + QL("'") + (to.isEmpty() ? QString() : QL(" from='") + to + QL("'")) + QL(" to='me@own.org/res'");
                        if (a == "error") c.inject(head + QL(" type='error'><error type='cancel'><service-unavailable xmlns='") + Q(NS_STANZA) + QL("'/></error></iq>"));
                        else if (a == "unexpected-payload") c.inject(head + QL(" type='result'><junk xmlns='urn:verif:junk'><x y='1'>text</x></junk></iq>"));
                        else c.inject(head + QL(" type='result'/>"));
                        QCoreApplication::processEvents();
                    }
                    if (mc.run2) {
                        checkValues("second call");
                        c.closeSession(false);
                        g_delivered.clear();
                        if (count2 != expected) {
                            bool mamKnown = mc.name == "mam-e2ee:retrieveMessages" && count2 == 0 && a != "error";
                            oracleFail(mamKnown ? "C07:mam:e2ee-empty-page-never-finishes" : "C07:mgr:" + mc.name + ":" + a + ":second-call-completions=" + std::to_string(count2),
                                       "manager layer: " + mc.name + " called a second time after the first call was answered with " + a);
                        } else oraclePass()++;
                    }
                }
                // the session ends and cannot be resumed: whatever is still pending must complete now
                c.closeSession(false);
                QCoreApplication::processEvents();
                if (a == "silence-then-disconnect" || a == "reply-from-stranger-then-disconnect") checkValues("session end");
                int atClose = count;
                if (atClose != expected) {
                    std::string key = mc.name == "mam-e2ee:retrieveMessages" && count == 0 && (a == "empty-result" || a == "unexpected-payload")
                        ? "C07:mam:e2ee-empty-page-never-finishes"
                        : "C07:mgr:" + mc.name + ":" + a + ":completions=" + std::to_string(count);
                    oracleFail(key, "manager layer: " + mc.name + " answered with " + a + " (" + std::to_string(rounds) + " requests answered), then non-resumable session end: " +
                                   std::to_string(count) + " completions, expected " + std::to_string(expected));
                } else oraclePass()++;
            }
            // after destruction of the client nothing may complete again
            if (count > expected) oracleFail("C07:mgr:" + mc.name + ":" + a + ":completed-again-at-destruction", mc.name);
            if (firstPass) _exit(0);
            ran.insert(mc.name);
            vh::stat("mgr_cases");
            vh::stat("mgr_requests_answered", rounds);
        }
    }
    reportCoverage(ran);
}

// ------------------------------------------------------------------------------------------------ main
int main(int argc, char **argv)
{
    QCoreApplication app(argc, argv);
    Args a = parseArgs(argc, argv);
    bool thorough = a.tier == "thorough";
    Rng rng(a.seed);
    QTcpServer server; g_server = &server;
    if (!server.listen(QHostAddress::LocalHost, 0)) { fprintf(stderr, "cannot listen on loopback\n"); return 3; }

    const std::string A1 = "bob@rem.org/r", OWN = "me@own.org", DOM = "own.org";
    // ---- Part A: corpus
    runIqSeq(OWN, false, true, { "send a " + A1, "recv iq result a eve@evil.org", "recv iq result a bob@rem.org", "recv iq result a BOB@rem.org/r", "recv iq result a " + A1, "recv iq result a " + A1 });
    runIqSeq(OWN, false, true, { "send a -", "recv iq result a own.org", "recv iq result a me@own.org/res", "recv iq error a me@own.org" });
    runIqSeq(OWN, false, true, { "send a " + A1, "send a " + A1, "send - " + A1, "recv iq result g0 " + A1, "recv iq error g1 -", "closed 1", "opened 1 1", "recv iq result a " + A1 });
    runIqSeq(OWN, false, true, { "send a " + A1, "opened 0 0", "send a own.org", "failall", "recv iq result a own.org" });
    runIqSeq(OWN, false, true, { "send a " + A1, "closed 1", "ensm", "opened 0 1" });   // seeded change C07_a1: new session with SM enabled
    runIqSeq(OWN, false, true, { "send a bob@rem.org", "recv iq result a bob@rem.org/r", "recv iq result a bob@rem.org" });   // seeded change C07_a2
    runIqSeq("-", false, true, { "send a -", "send - -", "sendraw - x@y", "sendraw a -", "sendraw a x@y", "sendraw a x@y" });
    runIqSeq(OWN, false, false, { "send a " + A1, "ensm", "send a " + A1, "closed 1", "send b " + A1, "closed 0" });
    runIqSeq(OWN, true, false, { "send a " + A1, "send b -", "recv iq result a " + A1, "destroy", "recv iq result b -" });

    // ---- Part A: bounded-exhaustive
    std::vector<std::string> small = {
        "send a -", "send a " + A1, "send b " + DOM,
        "recv iq result a -", "recv iq result a " + A1, "recv iq error a eve@evil.org", "recv iq result b " + DOM, "recv iq error a " + OWN,
        "closed 1", "closed 0", "opened 0 1", "fail a",
    };
    std::vector<std::string> big;
    std::vector<std::string> ids = { "a", "b" }, tos = { "-", A1, DOM };
    std::vector<std::string> froms = { "-", A1, "bob@rem.org", "BOB@rem.org/r", "eve@evil.org", OWN, DOM };
    for (auto &i : ids) for (auto &t : tos) big.push_back("send " + i + " " + t);
    for (auto &i : ids) for (auto &f : froms) { big.push_back("recv iq result " + i + " " + f); }
    for (auto &f : froms) big.push_back("recv iq error a " + f);
    big.push_back("send a bob@rem.org");   // bare addressee: a reply from the full JID is a different entity
    for (auto s : { "closed 1", "closed 0", "opened 1 1", "opened 1 0", "opened 0 1", "opened 0 0", "fail a", "fail b", "failall", "ackall", "destroy" }) big.push_back(s);
    std::vector<std::string> cur;
    std::vector<std::string> tiny = {
        "send a -", "send a " + A1, "recv iq result a -", "recv iq result a " + A1, "recv iq error a eve@evil.org", "recv iq error a " + OWN,
        "closed 1", "closed 0", "fail a",
    };
    std::vector<std::string> medium;
    for (auto &i : ids) for (auto &t : tos) medium.push_back("send " + i + " " + t);
    for (auto &f : froms) medium.push_back("recv iq result a " + f);
    for (auto s : { "recv iq result b bob@rem.org/r", "closed 1", "closed 0", "opened 0 1", "opened 0 0", "opened 1 1", "fail a", "send a bob@rem.org" }) medium.push_back(s);
    int dSmall = 5, dBig = 3;
    if (a.mode == "fast") { dSmall = 3; dBig = 2; }
    for (int d = 1; d <= dSmall; d++) enumIq(small, d, cur);
    for (int d = 1; d <= dBig; d++) enumIq(big, d, cur);
    vh::stat("exhaustive_depth_small", dSmall); vh::stat("alphabet_small", (long long)small.size());
    vh::stat("exhaustive_depth_big", dBig); vh::stat("alphabet_big", (long long)big.size());
    if (thorough) {
        enumIq(tiny, 6, cur);
        enumIq(medium, 4, cur);
        vh::stat("exhaustive_depth_tiny", 6); vh::stat("alphabet_tiny", (long long)tiny.size());
        vh::stat("exhaustive_depth_medium", 4); vh::stat("alphabet_medium", (long long)medium.size());
    }

    // ---- Part A: random, full alphabet, depth up to 40
    std::vector<std::string> rids = { "a", "b", "c", "-", "~0", "~1", "~2" };
    std::vector<std::string> rtos = { "-", A1, "bob@rem.org", DOM, OWN, "eve@evil.org" };
    std::vector<std::string> rfroms = { "-", A1, "bob@rem.org", "BOB@rem.org/r", "Bob@Rem.Org/r", "eve@evil.org", "eve@evil.org/r", OWN, "me@own.org/res", "ME@own.org", DOM, "OWN.org", "rem.org" };
    std::vector<std::string> kinds = { "iq", "iq", "iq", "iq", "message", "presence" };
    std::vector<std::string> types = { "result", "result", "error", "get", "set", "none" };
    int nrand = thorough ? 30000 : 2500;
    if (a.mode == "fast") nrand = 200;
    for (int n = 0; n < nrand; n++) {
        int len = 2 + rng.below(39);
        std::vector<std::string> ops;
        for (int j = 0; j < len; j++) {
            uint32_t r = rng.below(100);
            if (r < 28) ops.push_back("send " + rids[rng.below(rids.size())] + " " + rtos[rng.below(rtos.size())]);
            else if (r < 33) ops.push_back("sendraw " + rids[rng.below(4)] + " " + rtos[rng.below(rtos.size())]);  // never a not-yet-generated id
            else if (r < 75) ops.push_back("recv " + kinds[rng.below(kinds.size())] + " " + types[rng.below(types.size())] + " " + rids[rng.below(rids.size())] + " " + rfroms[rng.below(rfroms.size())]);
            else if (r < 79) ops.push_back("fail " + rids[rng.below(rids.size())]);
            else if (r < 82) ops.push_back("failall");
            else if (r < 85) ops.push_back("ackall");
            else if (r < 88) ops.push_back("ensm");
            else if (r < 92) ops.push_back(std::string("closed ") + (rng.coin() ? "1" : "0"));
            else if (r < 96) ops.push_back(std::string("opened ") + (rng.coin() ? "1" : "0") + (rng.coin() ? " 1" : " 0"));
            else if (r < 97) ops.push_back("destroy");
            else ops.push_back("recv iq result " + rids[rng.below(3)] + " " + A1);
        }
        uint32_t v = rng.below(10);
        std::string own = v == 0 ? "-" : OWN;
        bool sock = v == 1 || v == 2, sm = !(v == 2 || v == 3);
        runIqSeq(own, sock, sm, ops, n < 3);
    }
    vh::stat("random_sequences", nrand);

    // ---- Part B: archive retrieval machine
    // corpus first: the witness of the defect fixed by repo commit bf0355b (e2ee + empty result page never finished;
    // oracle key C07:mam:e2ee-empty-page-never-finishes)
    runMamSeq(true, false, { "start", "fin" });
    runMamSeq(true, true, { "start", "fin" });
    runMamSeq(true, false, { "start", "msg 1 1", "msg 1 0", "fin", "dec 0" });
    runMamSeq(false, false, { "start", "fin" });
    std::vector<std::string> malpha = { "start", "msg 1 0", "msg 1 1", "msg 0 0", "fin", "err", "dec 0", "dec 1" };
    int dMam = a.mode == "fast" ? 3 : 4;
    for (int d = 1; d <= dMam; d++) enumMam(malpha, d, cur);
    vh::stat("exhaustive_depth_mam", dMam); vh::stat("alphabet_mam", (long long)malpha.size());
    // after "start": everything but a second start, two levels deeper
    std::vector<std::string> malpha2(malpha.begin() + 1, malpha.end());
    int dMam2 = a.mode == "fast" ? 3 : thorough ? 6 : 5;
    cur.push_back("start");
    enumMam(malpha2, dMam2 + 1, cur);
    cur.clear();
    vh::stat("exhaustive_depth_mam_after_start", dMam2); vh::stat("alphabet_mam_after_start", (long long)malpha2.size());
    int nmam = thorough ? 6000 : 800;
    for (int n = 0; n < nmam; n++) {
        int len = 2 + rng.below(14);
        std::vector<std::string> ops = { "start" };
        for (int j = 0; j < len; j++) {
            uint32_t r = rng.below(100);
            if (r < 45) ops.push_back(std::string("msg ") + (rng.below(8) ? "1 " : "0 ") + (rng.coin() ? "1" : "0"));
            else if (r < 60) ops.push_back("fin");
            else if (r < 66) ops.push_back("err");
            else if (r < 70) ops.push_back("start");
            else ops.push_back("dec " + std::to_string(rng.below(8)));
        }
        if (n < 2) { std::string s = "reset mam; "; for (auto &o : ops) s += o + "; "; sample(s); }
        runMamSeq(rng.below(4) != 0, rng.coin(), ops);
    }

    // ---- Part D: session boundaries through the real stream-management negotiation
    // corpus first: witness of the defect fixed by repo commit c590ae4 (stale "can resume" after a session without stream
    // management; oracle key C07:neg:stale-resumable-after-session-without-sm)
    runNegSeq({ "connR", "connN", "send", "loss" });
    runNegSeq({ "connF", "send", "loss", "begin", "abort" });       // seeded change C07_c1 (a): kept request, then an attempt the client aborts
    runNegSeq({ "begin", "send", "abort" });                        // seeded change C07_c1 (b): request issued while negotiating, attempt fails
    for (int k = 0; k < 5; k++) runNegSeq({ "connF", "send", "disc" });   // seeded change C07_d2: resumable SM session ended for good, every route
    runNegSeq({ "connF", "send", "connF" });                        // seeded change C07_a1: refused resumption, new session WITH stream management
    runNegSeq({ "connF", "connR", "send", "connF" });               // seeded change C07_b1: 'resumed' of the previous session must not leak
    runNegSeq({ "connF", "send", "loss", "connR", "reply", "send", "loss", "connN" });
    {
        std::vector<std::string> nalpha = { "send", "reply", "loss", "connR", "connF", "connN", "disc", "begin", "abort" };
        int dNeg = a.mode == "fast" ? 4 : thorough ? 6 : 5;
        for (int d = 1; d <= dNeg; d++) enumNeg(nalpha, d, cur);
        vh::stat("exhaustive_depth_neg", dNeg); vh::stat("alphabet_neg", (long long)nalpha.size());
        std::vector<std::string> nfull = { "send", "send", "reply", "stray", "loss", "connR", "connR", "connF", "connU", "connN", "disc", "begin", "begin", "abort" };
        int nneg = a.mode == "fast" ? 200 : thorough ? 20000 : 2000;
        for (int n = 0; n < nneg; n++) {
            int len = 3 + rng.below(28);
            std::vector<std::string> ops;
            for (int j = 0; j < len; j++) ops.push_back(nfull[rng.below(nfull.size())]);
            runNegSeq(ops);
        }
        vh::stat("random_neg_sequences", nneg);
    }

    // ---- Part E: fetchBlocklist machine
    {
        std::vector<std::string> balpha = { "fetch", "iqok", "iqerr", "newsess", "resumed" };
        int dBlk = a.mode == "fast" ? 4 : thorough ? 7 : 6;
        runBlkSeq({ "fetch", "fetch", "iqerr", "fetch", "iqok", "fetch" });
        for (int d = 1; d <= dBlk; d++) enumBlk(balpha, d, cur);
        vh::stat("exhaustive_depth_blk", dBlk); vh::stat("alphabet_blk", (long long)balpha.size());
    }
    // ---- Part F: sendSensitiveIq pipeline
    {
        std::vector<std::string> salpha = { "start", "enc 1", "enc 0", "iq 1", "iq 0", "dec ok", "dec ne", "dec err", "dropext" };
        int dSens = a.mode == "fast" ? 3 : thorough ? 5 : 4;
        runSensSeq({ "start", "enc 1", "iq 1", "dec ok" });
        runSensSeq({ "start", "enc 1", "dropext", "iq 1" });
        for (int d = 1; d <= dSens; d++) enumSens(salpha, d, cur);
        vh::stat("exhaustive_depth_sens", dSens); vh::stat("alphabet_sens", (long long)salpha.size());
    }

    // ---- Part C: manager layer
    runManagerLayer();
    finish();
    return 0;
}
