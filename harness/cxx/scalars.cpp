// C01 tier B harness: the typed scalar helpers of src/base/QXmppUtils.cpp / QXmppUtils_p.h
//   parseInt<T> / serializeInt<T>, parseBoolean / serializeBoolean, parseBase64 / serializeBase64,
//   QXmppUtils::datetimeFromString / datetimeToString, timezoneOffsetFromString / ToString, enumFromString
// driven over their whole lexical range.  Every C line is compared with the Lean model
// (lean/Qx/Xml/Codec/Scalar.lean through qxdriver_c01, ops `scalar-*`); the O lines are the property
// itself, model independent: parse(serialize(v)) == v for every in-range value generated.
#include "common.h"
#include "QXmppUtils.h"
#include "QXmppUtils_p.h"
#include <QCoreApplication>
#include <QDateTime>
#include <QTimeZone>
#include <array>
#include <limits>
#include <set>
#include <ctime>

using namespace vh;
using namespace QXmpp::Private;

// The scalar ops are stateless.  For the evidence the lines are cut into batches of 16 consecutive cases of one
// generator ("reset scalar <generator>"); a batch counts as non-trivial when it shows at least two different outcomes.
static std::string g_section = "start";
static int g_inBatch = 0;
static void section(const std::string &name) { g_section = name; g_inBatch = 0; }
static void corrB(const std::string &op, const std::string &obs) {
    if (g_inBatch == 0) vh::corr("reset scalar " + g_section, "ok");
    g_inBatch = (g_inBatch + 1) % 16;
    vh::corr(op, obs);
}
#define corr corrB
typedef __int128 i128;

static std::string hexB(const QByteArray &b) {
    return b.isEmpty() ? std::string("-") : hex(reinterpret_cast<const unsigned char *>(b.constData()), size_t(b.size()));
}
static std::string hexQ(const QString &s) { return hexB(s.toUtf8()); }
// generators never hand a lone surrogate to the library (it has no UTF-8 form to give the model)
static bool wellFormed(const QString &s) {
    for (int i = 0; i < s.size(); i++) {
        if (s[i].isHighSurrogate()) { if (i + 1 >= s.size() || !s[i + 1].isLowSurrogate()) return false; i++; }
        else if (s[i].isLowSurrogate()) return false;
    }
    return true;
}
static QString U(const char *utf8) { return QString::fromUtf8(utf8); }
static QString cp(uint c) { return QString::fromUcs4(&c, 1); }

static std::string dec128(i128 v) {
    if (v == 0) return "0";
    bool neg = v < 0;
    unsigned __int128 m = neg ? (unsigned __int128)(-(v + 1)) + 1 : (unsigned __int128)v;
    std::string s;
    while (m) { s.insert(s.begin(), char('0' + int(m % 10))); m /= 10; }
    return neg ? "-" + s : s;
}

// ------------------------------------------------------------------------------------------- integers
template<typename T> struct TI;
template<> struct TI<int8_t> { static constexpr const char *n = "i8"; static constexpr int bits = 8; };
template<> struct TI<uint8_t> { static constexpr const char *n = "u8"; static constexpr int bits = 8; };
template<> struct TI<int16_t> { static constexpr const char *n = "i16"; static constexpr int bits = 16; };
template<> struct TI<uint16_t> { static constexpr const char *n = "u16"; static constexpr int bits = 16; };
template<> struct TI<int32_t> { static constexpr const char *n = "i32"; static constexpr int bits = 32; };
template<> struct TI<uint32_t> { static constexpr const char *n = "u32"; static constexpr int bits = 32; };
template<> struct TI<int64_t> { static constexpr const char *n = "i64"; static constexpr int bits = 64; };
template<> struct TI<uint64_t> { static constexpr const char *n = "u64"; static constexpr int bits = 64; };

template<typename T> static std::string showT(T v) {
    if constexpr (std::is_signed_v<T>) return std::to_string((long long)v);
    else return std::to_string((unsigned long long)v);
}

template<typename T> static void intParseCase(const QString &s) {
    if (!wellFormed(s)) { stat("skipped_lone_surrogate"); return; }
    auto r = parseInt<T>(s);
    corr(std::string("scalar-int ") + std::to_string(TI<T>::bits) + " " + (std::is_signed_v<T> ? "s" : "u") + " " + hexQ(s),
         r ? showT<T>(*r) : "none");
    stat(std::string("int_") + TI<T>::n + (r ? "_accepted" : "_rejected"));
}
static void intParseAll(const QString &s) {
    intParseCase<int8_t>(s); intParseCase<uint8_t>(s); intParseCase<int16_t>(s); intParseCase<uint16_t>(s);
    intParseCase<int32_t>(s); intParseCase<uint32_t>(s); intParseCase<int64_t>(s); intParseCase<uint64_t>(s);
}

// property oracle + serialisation correspondence for one in-range value
template<typename T> static void intRoundtrip(T v) {
    QString s = serializeInt<T>(v);
    corr("scalar-numstr " + showT<T>(v), hexQ(s));
    auto r = parseInt<T>(s);
    if (r && *r == v) oraclePass()++;
    else oracleFail(std::string("C01:int-roundtrip:") + TI<T>::n, "value=" + showT<T>(v) + " serialized=" + s.toStdString() +
                    " parsed=" + (r ? showT<T>(*r) : "nullopt"));
    intParseCase<T>(s);
    stat("int_roundtrip_values");
}

template<typename T> static void intBoundsAndRandom(Rng &rng, int nRandom) {
    section(std::string("int-roundtrip-") + TI<T>::n);
    using L = std::numeric_limits<T>;
    std::set<T> vs = { L::min(), T(L::min() + 1), T(L::min() + 2), L::max(), T(L::max() - 1), T(L::max() - 2), T(0), T(1), T(2), T(9), T(10), T(99), T(100), T(127) };
    if constexpr (std::is_signed_v<T>) { vs.insert(T(-1)); vs.insert(T(-2)); vs.insert(T(-10)); vs.insert(T(-128)); }
    // every narrower type's bounds are in-range values of this type too
    const long long marks[] = { -32768, -129, -128, 127, 128, 255, 256, 32767, 32768, 65535, 65536, -2147483648LL, 2147483647LL, 2147483648LL, 4294967295LL, 4294967296LL, -32769, -2147483649LL };
    for (long long m : marks) if ((std::is_signed_v<T> || m >= 0) && i128(m) >= i128(L::min()) && i128(m) <= i128(L::max())) vs.insert(T(m));
    for (int i = 0; i < nRandom; i++) {
        uint64_t r = rng.next();
        int width = 1 + int(rng.below(TI<T>::bits));  // random magnitude: every bit length is likely
        if (width < 64) r &= ((uint64_t(1) << width) - 1);
        vs.insert(T(r));
        if constexpr (std::is_signed_v<T>) vs.insert(T(-T(r)));
    }
    for (T v : vs) intRoundtrip<T>(v);
}

static const char *WS[] = { " ", "\t", "\n", "\r", "\x0b", "\x0c", "\xc2\x85", "\xc2\xa0", "\xe1\x9a\x80", "\xe2\x80\x80", "\xe2\x80\x8a",
                            "\xe2\x80\xa8", "\xe2\x80\xa9", "\xe2\x80\xaf", "\xe2\x81\x9f", "\xe3\x80\x80" };
static const char *NOTWS[] = { "\x1c", "\x1f", "\xe2\x80\x8b", "\xef\xbb\xbf", "\xe1\xa0\x8e", "\x08", "\x0e", "\xc2\x84", "\xc2\x86", "\xe2\x80\x8b" };

static void intLexical(Rng &rng, bool thorough) {
    // values at and around every type bound (±2), far outside, beyond 64 and 128 bits
    std::vector<i128> marks;
    const i128 one = 1;
    for (int b : { 7, 8, 15, 16, 31, 32, 63, 64 }) {
        for (int d = -2; d <= 2; d++) { marks.push_back((one << b) + d); marks.push_back(-(one << b) + d); }
    }
    for (int d = -2; d <= 2; d++) marks.push_back(d);
    for (int i = 0; i < (thorough ? 400 : 60); i++) {
        int width = 1 + int(rng.below(100));
        i128 v = (i128(rng.next()) << 40) ^ i128(rng.next());
        v &= ((one << width) - 1);
        marks.push_back(v); marks.push_back(-v);
    }
    std::vector<QString> bases;
    for (i128 m : marks) bases.push_back(QString::fromStdString(dec128(m)));
    bases.push_back(QString(40, QLatin1Char('9')));
    bases.push_back(QStringLiteral("-") + QString(40, QLatin1Char('9')));
    bases.push_back(QString(300, QLatin1Char('0')) + QStringLiteral("17"));
    bases.push_back(QStringLiteral("1") + QString(300, QLatin1Char('0')));
    section("int-plain-around-bounds");
    for (const QString &b : bases) { intParseAll(b); stat("int_lexical_plain"); }
    section("int-decorated");
    // decorations of a plain number
    for (const QString &b : bases) {
        if (!thorough && rng.below(3)) continue;
        QString mag = b.startsWith(QLatin1Char('-')) ? b.mid(1) : b;
        bool neg = b.startsWith(QLatin1Char('-'));
        std::vector<QString> forms;
        forms.push_back(QStringLiteral("+") + mag);
        forms.push_back(U("\xe2\x88\x92") + mag);          // U+2212 MINUS SIGN
        forms.push_back(U("\xef\xbc\x8b") + mag);          // U+FF0B fullwidth plus: not a sign
        forms.push_back((neg ? QStringLiteral("-") : QString()) + QStringLiteral("000") + mag);
        forms.push_back(QStringLiteral("-") + mag);
        forms.push_back(U(WS[rng.below(16)]) + b);
        forms.push_back(b + U(WS[rng.below(16)]));
        forms.push_back(U(WS[rng.below(16)]) + U(WS[rng.below(16)]) + b + U(WS[rng.below(16)]));
        forms.push_back(U(NOTWS[rng.below(10)]) + b);
        forms.push_back(b + U(NOTWS[rng.below(10)]));
        forms.push_back((neg ? QStringLiteral("-") : QString()) + QStringLiteral(" ") + mag);
        forms.push_back(QStringLiteral("0x") + mag);
        forms.push_back(b + QStringLiteral("e0"));
        forms.push_back(b + QStringLiteral(".0"));
        forms.push_back(b + QStringLiteral(","));
        forms.push_back(b + QStringLiteral("L"));
        forms.push_back(QStringLiteral("+") + b);
        forms.push_back(QStringLiteral("-") + b);
        forms.push_back(b + QChar(0));
        if (mag.size() > 3) forms.push_back((neg ? QStringLiteral("-") : QString()) + mag.left(mag.size() - 3) + QStringLiteral(",") + mag.right(3));
        if (mag.size() > 1) forms.push_back((neg ? QStringLiteral("-") : QString()) + mag.left(1) + QStringLiteral(" ") + mag.mid(1));
        for (const QString &f : forms) { intParseAll(f); stat("int_lexical_decorated"); }
    }
    section("int-odd");
    // fixed oddities
    const char *odd[] = { "", " ", "  ", "+", "-", "\xe2\x88\x92", "+-1", "-+1", "--1", "++1", "- 1", "+ 1", "0", "-0", "+0", "\xe2\x88\x92" "0", "00", "-00", "0x", "0x10", "0X10", "010",
                          "1e2", "1E2", "1.0", ".5", "1,000", "1,00", "1_000", "1'000", "\xd9\xa1\xd9\xa2", "\xef\xbc\x91", "\xf0\x9d\x9f\x8f", "\xf0\x9f\x98\x80", "1\xf0\x9f\x98\x80",
                          "one", "NaN", "inf", "true", "1 2", "1\t2", "12a", "a12", "%", ";", "1%", "1;", "٣" };
    for (const char *o : odd) { intParseAll(U(o)); stat("int_lexical_odd"); }
    section("int-short-exhaustive");
    // exhaustive short strings over a small adversarial alphabet
    std::vector<QString> alpha = { "0", "1", "9", "+", "-", " ", "\t", ",", ".", "e", "x", U("\xe2\x88\x92"), U("\xc2\xa0") };
    size_t n = alpha.size();
    for (size_t a = 0; a < n; a++) {
        intParseAll(alpha[a]);
        for (size_t b = 0; b < n; b++) {
            intParseAll(alpha[a] + alpha[b]);
            for (size_t c = 0; c < n; c++) {
                if (!thorough && rng.below(4)) continue;
                intParseAll(alpha[a] + alpha[b] + alpha[c]);
                stat("int_lexical_exhaustive3");
            }
        }
    }
}

// ------------------------------------------------------------------------------------------- booleans
static void boolCase(const QString &s) {
    auto r = parseBoolean(s);
    corr("scalar-bool " + hexQ(s), r ? (*r ? "true" : "false") : "none");
    stat(r ? "bool_accepted" : "bool_rejected");
}
static void bools(Rng &rng) {
    section("bool");
    for (bool b : { false, true }) {
        QString s = serializeBoolean(b);
        corr(std::string("scalar-boolstr ") + (b ? "1" : "0"), hexQ(s));
        auto r = parseBoolean(s);
        if (r && *r == b) oraclePass()++;
        else oracleFail("C01:bool-roundtrip", std::string("value=") + (b ? "true" : "false") + " serialized=" + s.toStdString());
        boolCase(s);
    }
    const char *cs[] = { "1", "0", "true", "false", "TRUE", "True", "FALSE", "tRue", " 1", "1 ", " true", "true ", "", " ", "yes", "no", "2", "01", "00", "-1", "+1", "tru", "truee",
                         "fals", "falsee", "t", "f", "1\n", "\xef\xbc\x91", "true\xf0\x9f\x98\x80", "0x1", "on", "off", "null" };
    for (const char *c : cs) boolCase(U(c));
    const QString pool = QStringLiteral("01truefalsTRUE \t");
    for (int i = 0; i < 300; i++) {
        QString s; int len = int(rng.below(7));
        for (int k = 0; k < len; k++) s += pool[int(rng.below(uint32_t(pool.size())))];
        boolCase(s);
    }
    boolCase(QStringLiteral("1") + QChar(0));
}

// ------------------------------------------------------------------------------------------- base64
static void b64dec(const QString &s) {
    if (!wellFormed(s)) { stat("skipped_lone_surrogate"); return; }
    auto r = parseBase64(s);
    corr("scalar-b64dec " + hexQ(s), r ? hexB(*r) : "none");
    stat(r ? "b64_decode_accepted" : "b64_decode_rejected");
}
static void base64(Rng &rng, bool thorough) {
    const QString std64 = QStringLiteral("ABCDEFGHIJKLMNOPQRSTUVWXYZabcdefghijklmnopqrstuvwxyz0123456789+/");
    const QString junk = QStringLiteral(" \t\r\n=-_*!.,:@[`{") + U("\xc3\xa9\xe2\x82\xac\xf0\x9f\x98\x80");
    section("b64-roundtrip-and-variants");
    int reps = thorough ? 40 : 6;
    for (int len = 0; len <= 40; len++) {
        for (int rep = 0; rep < reps; rep++) {
            QByteArray bs(len, 0);
            int kind = int(rng.below(4));
            for (int i = 0; i < len; i++) bs[i] = char(kind == 0 ? 0 : kind == 1 ? 0xff : rng.below(256));
            QString enc = serializeBase64(bs);
            corr("scalar-b64enc " + hexB(bs), hexQ(enc));
            auto back = parseBase64(enc);
            if (back && *back == bs) oraclePass()++;
            else oracleFail("C01:b64-roundtrip", "bytes=" + hexB(bs) + " serialized=" + enc.toStdString() + " parsed=" + (back ? hexB(*back) : "nullopt"));
            stat("b64_roundtrip_values"); stat("b64_len_mod3_" + std::to_string(len % 3));
            b64dec(enc);
            // lexical variants of the encoding
            QString noPad = enc; while (noPad.endsWith(QLatin1Char('='))) noPad.chop(1);
            b64dec(noPad);
            b64dec(enc + QStringLiteral("="));
            QString url = enc; url.replace(QLatin1Char('+'), QLatin1Char('-')).replace(QLatin1Char('/'), QLatin1Char('_'));
            b64dec(url);
            QString mut = enc;
            int nm = 1 + int(rng.below(3));
            for (int k = 0; k < nm; k++) {
                int pos = int(rng.below(uint32_t(mut.size() + 1)));
                int what = int(rng.below(4));
                QString ins = rng.coin() ? QString(junk.mid(int(rng.below(uint32_t(junk.size() - 1))), 1)) : QString(std64[int(rng.below(64))]);
                if (ins.size() == 1 && ins.at(0).isSurrogate()) ins = U("\xf0\x9f\x98\x80");
                if (what == 0 || mut.isEmpty()) mut.insert(pos, ins);
                else if (what == 1 && pos < mut.size() && !mut.at(pos).isSurrogate()) mut.remove(pos, 1);
                else if (what == 2 && pos < mut.size() && !mut.at(pos).isSurrogate()) mut.replace(pos, 1, ins);
                else mut.insert(pos, QStringLiteral("\n"));
            }
            b64dec(mut);
            stat("b64_decode_variants", 5);
        }
    }
    section("b64-fixed");
    const char *fixed[] = { "", "=", "==", "====", "A", "AA", "AAA", "AAAA", "A===", "AA==", "AA=", "AA==AA==", "QQ==", "QR==", "QUI=", "QUJ=", "QUJD", "QU JD", "QUJD\n", " QUJD",
                            "QU-D", "QU_D", "QU+D", "QU/D", "QU*D", "Q=Q=", "QQ=Q", "QUJD=", "QUJD==", "\xc3\xa9", "QUJDQ", "////", "++++", "/w==", "/x==", "//8=", "//9=" };
    for (const char *f : fixed) b64dec(U(f));
    section("b64-random");
    for (int i = 0; i < (thorough ? 3000 : 400); i++) {
        QString s; int len = int(rng.below(24));
        for (int k = 0; k < len; k++) {
            uint32_t r = rng.below(10);
            if (r < 7) s += std64[int(rng.below(64))];
            else if (r < 8) s += QLatin1Char('=');
            else { QChar c = junk[int(rng.below(uint32_t(junk.size())))]; if (c.isSurrogate()) s += U("\xf0\x9f\x98\x80"); else s += c; }
        }
        b64dec(s);
        stat("b64_decode_random");
    }
}

// ------------------------------------------------------------------------------------------- date-times
static std::string showDt(const QDateTime &d) {
    if (!d.isValid()) return "none";
    char buf[96];
    snprintf(buf, sizeof buf, "%d-%d-%d %d:%d:%d.%d", d.date().year(), d.date().month(), d.date().day(), d.time().hour(), d.time().minute(), d.time().second(), d.time().msec());
    return buf;
}
static void dtParse(const QString &s, const char *cls) {
    if (!wellFormed(s)) { stat("skipped_lone_surrogate"); return; }
    QDateTime d = QXmppUtils::datetimeFromString(s);
    corr("scalar-dtparse " + hexQ(s), showDt(d));
    stat(std::string("dt_parse_") + cls + (d.isValid() ? "_valid" : "_invalid"));
}
struct Civil { int y, mo, d, h, mi, s, ms; };
static int daysIn(int y, int m) {
    static const int dm[] = { 31, 28, 31, 30, 31, 30, 31, 31, 30, 31, 30, 31 };
    if (m == 2) return ((y % 4 == 0 && y % 100 != 0) || y % 400 == 0) ? 29 : 28;
    return dm[m - 1];
}
// the record -> QDateTime abstraction: invalid components give the invalid QDateTime
static QDateTime mk(const Civil &c) {
    if (!QDate::isValid(c.y, c.mo, c.d) || !QTime::isValid(c.h, c.mi, c.s, c.ms)) return QDateTime();
    return QDateTime(QDate(c.y, c.mo, c.d), QTime(c.h, c.mi, c.s, c.ms), Qt::UTC);
}
static QString dtPrint(const Civil &c) {
    QString s = QXmppUtils::datetimeToString(mk(c));
    char buf[128];
    snprintf(buf, sizeof buf, "scalar-dtprint %d %d %d %d %d %d %d", c.y, c.mo, c.d, c.h, c.mi, c.s, c.ms);
    corr(buf, hexQ(s));
    return s;
}
// oracle: a value of the XEP-0082 lexical range survives serialize-then-parse
static void dtRoundtrip(const Civil &c) {
    QDateTime v = mk(c);
    QString s = dtPrint(c);
    QDateTime back = QXmppUtils::datetimeFromString(s);
    if (back.isValid() && back == v && back.time().msec() == c.ms && back.date() == v.date() && back.time() == v.time()) oraclePass()++;
    else oracleFail("C01:datetime-roundtrip", "value=" + showDt(v) + " serialized=" + s.toStdString() + " parsed=" + showDt(back));
    dtParse(s, "own");
    stat(c.ms ? "dt_roundtrip_with_ms" : "dt_roundtrip_without_ms");
}
static Civil randCivil(Rng &rng) {
    Civil c;
    uint32_t k = rng.below(10);
    c.y = k == 0 ? 1 + int(rng.below(3)) : k == 1 ? 9997 + int(rng.below(3)) : k < 5 ? 1900 + int(rng.below(200)) : 1 + int(rng.below(9999));
    c.mo = 1 + int(rng.below(12));
    int dim = daysIn(c.y, c.mo);
    uint32_t dk = rng.below(4);
    c.d = dk == 0 ? dim : dk == 1 ? 1 : 1 + int(rng.below(uint32_t(dim)));
    c.h = rng.below(5) == 0 ? (rng.coin() ? 0 : 23) : int(rng.below(24));
    c.mi = rng.below(5) == 0 ? (rng.coin() ? 0 : 59) : int(rng.below(60));
    c.s = rng.below(5) == 0 ? (rng.coin() ? 0 : 59) : int(rng.below(60));
    uint32_t mk_ = rng.below(6);
    c.ms = mk_ < 2 ? 0 : mk_ == 2 ? (rng.coin() ? 1 : 999) : mk_ == 3 ? int(rng.below(10)) * 100 : int(rng.below(1000));
    return c;
}
static QString p2(int v) { return QStringLiteral("%1").arg(v, 2, 10, QLatin1Char('0')); }
static QString p4(int v) { return QStringLiteral("%1").arg(v, 4, 10, QLatin1Char('0')); }
static QString dateStr(const Civil &c) { return p4(c.y) + "-" + p2(c.mo) + "-" + p2(c.d); }
static QString timeStr(const Civil &c) { return p2(c.h) + ":" + p2(c.mi) + ":" + p2(c.s); }

static QString randOffset(Rng &rng) {
    QString sg = rng.coin() ? "+" : "-";
    int hh = rng.below(6) == 0 ? 23 + int(rng.below(3)) : int(rng.below(24));
    int mm = rng.below(6) == 0 ? 59 + int(rng.below(2)) : int(rng.below(60));
    switch (rng.below(10)) {
    case 0: return sg + p2(hh) + p2(mm);
    case 1: return sg + p2(hh);
    case 2: return sg + QString::number(hh % 10) + ":" + p2(mm);
    case 3: return sg + p2(hh) + ":" + QString::number(mm % 10);
    case 4: return sg + p2(hh) + ":";
    case 5: return sg + U("\xe2\x88\x92") + QString::number(hh) + ":" + (rng.coin() ? p2(mm) : QString());
    case 6: return sg + " " + QString::number(hh % 10) + ":" + p2(mm);
    default: return sg + p2(hh) + ":" + p2(mm);
    }
}

// ---- QDateTime values of every time spec.  The XML must depend on the instant only:
//   * correspondence: datetimeToString(x) against the model's stampToStr (wall-clock fields + offsetFromUtc());
//   * oracle (no model involved):  the text names its zone (ends in `Z` or `±hh:mm`), datetimeFromString(text) is the
//     SAME INSTANT as x, and serializing the parsed value again gives the SAME text.
static bool hasZoneDesignator(const QString &s) {
    if (s.endsWith(QLatin1Char('Z'))) return true;
    int n = s.size();
    return n >= 6 && (s[n - 6] == QLatin1Char('+') || s[n - 6] == QLatin1Char('-')) && s[n - 3] == QLatin1Char(':') &&
           s[n - 5].isDigit() && s[n - 4].isDigit() && s[n - 2].isDigit() && s[n - 1].isDigit();
}
static void stampCase(const QDateTime &x, const std::string &kind) {
    // QDateTime may have moved a wall-clock time that does not exist (DST gap); x.date()/x.time() is what it holds now
    if (!x.isValid()) { stat("dt_spec_skipped_invalid"); return; }
    QDateTime u = x.toUTC();
    bool inRange = u.date().year() >= 1 && u.date().year() <= 9999;
    QString s1 = QXmppUtils::datetimeToString(x);
    char buf[160];
    snprintf(buf, sizeof buf, "scalar-dtprintspec %s %d %d %d %d %d %d %d %d", kind.c_str(), x.offsetFromUtc(), x.date().year(), x.date().month(),
             x.date().day(), x.time().hour(), x.time().minute(), x.time().second(), x.time().msec());
    corr(buf, hexQ(s1));
    stat("dt_spec_" + kind + (x.time().msec() ? "_with_ms" : "_without_ms"));
    if (!inRange) { stat("dt_spec_instant_outside_lexical_range"); return; }
    std::string rep = "spec=" + kind + " offsetFromUtc=" + std::to_string(x.offsetFromUtc()) + " wall=" + x.toString(QStringLiteral("yyyy-MM-dd HH:mm:ss.zzz")).toStdString() +
                      " utc=" + showDt(u) + " serialized='" + s1.toStdString() + "'";
    if (!hasZoneDesignator(s1)) oracleFail("C01:datetime-no-zone-designator", rep);
    else oraclePass()++;
    QDateTime back = QXmppUtils::datetimeFromString(s1);
    if (back.isValid() && back.toMSecsSinceEpoch() == x.toMSecsSinceEpoch()) oraclePass()++;
    else oracleFail("C01:datetime-roundtrip", rep + " parsed=" + showDt(back));
    QString s2 = back.isValid() ? QXmppUtils::datetimeToString(back) : QString();
    if (s2 == s1) oraclePass()++;
    else oracleFail("C01:datetime-reserialize", rep + " reserialized='" + s2.toStdString() + "'");
    // the same instant held as UTC must give the same text (the XML depends on the instant, not on the spec)
    if (QXmppUtils::datetimeToString(u) == s1) oraclePass()++;
    else oracleFail("C01:datetime-depends-on-timespec", rep + " utc-form='" + QXmppUtils::datetimeToString(u).toStdString() + "'");
    dtParse(s1, "own");
}
static void dtSpecs(Rng &rng, bool thorough) {
    section("dt-time-specs");
    static const char *zones[] = { "America/New_York", "Europe/Berlin", "Australia/Lord_Howe", "Asia/Kathmandu", "Pacific/Chatham", "Asia/Kolkata",
                                   "America/St_Johns", "Pacific/Kiritimati", "Africa/Monrovia", "UTC", "Etc/GMT+12" };
    std::vector<QTimeZone> tzs;
    for (const char *z : zones) {
        QTimeZone tz { QByteArray(z) };
        if (tz.isValid()) tzs.push_back(tz); else stat("dt_spec_zone_id_unavailable");
    }
    static const int oddOffsets[] = { 0, 60, -60, 1, -1, 59, 3601, -3599, 19800, 20700, -34200, 45900, 50400, -43200, 86399, -86399, 12345, -23456, 1800, -900 };
    int n = thorough ? 40000 : 4000;
    for (int i = 0; i < n; i++) {
        Civil c = randCivil(rng);
        if (rng.below(3) == 0) c.y = 1960 + int(rng.below(90));          // where zone rules and DST exist
        if (rng.below(40) == 0) { c.y = rng.coin() ? 1 : 9999; c.mo = c.y == 1 ? 1 : 12; c.d = c.y == 1 ? 1 : 31; }   // instants that may leave 1..9999
        QDate d(c.y, c.mo, c.d); QTime t(c.h, c.mi, c.s, c.ms);
        switch (rng.below(4)) {
        case 0: stampCase(QDateTime(d, t, Qt::UTC), "utc"); break;
        case 1: stampCase(QDateTime(d, t, Qt::LocalTime), "local"); break;
        case 2: {
            int off = rng.below(3) == 0 ? oddOffsets[rng.below(sizeof oddOffsets / sizeof *oddOffsets)]
                                        : (int(rng.below(2 * 14 * 4 + 1)) - 14 * 4) * 900;   // -14:00 .. +14:00 in quarter hours
            stampCase(QDateTime(d, t, Qt::OffsetFromUTC, off), "offset");
            break;
        }
        default:
            if (!tzs.empty()) stampCase(QDateTime(d, t, tzs[rng.below(uint32_t(tzs.size()))]), "zone");
            break;
        }
    }
    // fixed witnesses: the same instant through four specs, with and without milliseconds
    for (int ms : { 0, 123 }) {
        QDateTime u(QDate(2020, 1, 1), QTime(21, 34, 5, ms), Qt::UTC);
        stampCase(u, "utc");
        stampCase(u.toLocalTime(), "local");
        stampCase(u.toOffsetFromUtc(-34200), "offset");
        stampCase(u.toOffsetFromUtc(3601), "offset");
        for (const QTimeZone &tz : tzs) stampCase(u.toTimeZone(tz), "zone");
    }
}

static void dateTimes(Rng &rng, bool thorough) {
    // ---- the library's own output form: valid values over years 1..9999, with and without milliseconds
    section("dt-own-form");
    int n = thorough ? 30000 : 3000;
    for (int i = 0; i < n; i++) dtRoundtrip(randCivil(rng));
    section("dt-boundary-days");
    // values of every time spec (UTC, local time, fixed offset, time zone id), with and without milliseconds
    dtSpecs(rng, thorough);
    section("dt-boundary-days");
    // boundary days
    for (int y : { 1, 4, 100, 400, 1582, 1600, 1900, 1970, 1999, 2000, 2020, 2021, 2024, 2100, 2400, 9996, 9999 }) {
        for (int mo = 1; mo <= 12; mo++) {
            int dim = daysIn(y, mo);
            for (int d : { 1, dim }) {
                dtRoundtrip({ y, mo, d, 0, 0, 0, 0 });
                dtRoundtrip({ y, mo, d, 23, 59, 59, 999 });
                dtRoundtrip({ y, mo, d, 12, 0, 0, 1 });
            }
        }
        // Feb 29 / 30, Apr 31 …: not dates; printed as the empty string and refused on parse
        for (auto md : { std::pair<int, int>{ 2, 29 }, { 2, 30 }, { 4, 31 }, { 6, 31 }, { 9, 31 }, { 11, 31 }, { 1, 32 }, { 1, 0 }, { 0, 1 }, { 13, 1 } }) {
            Civil c { y, md.first, md.second, 1, 2, 3, 0 };
            if (QDate::isValid(c.y, c.mo, c.d)) dtRoundtrip(c);
            else { dtPrint(c); stat("dt_print_not_a_date"); }
            dtParse(dateStr(c) + "T" + timeStr(c) + "Z", "boundary");
            dtParse(dateStr(c), "boundary");
        }
    }
    section("dt-every-msec");
    // every millisecond value
    for (int ms = 0; ms < 1000; ms++) dtRoundtrip({ 2023, 6, 15, 10, 20, 30, ms });
    section("dt-outside-lexical-range");
    // outside the four-digit lexical range, or not a time of day: printed as the empty string
    for (int y : { 0, -1, -2, -400, 10000, 10001, 12345, 99999 }) {
        dtPrint({ y, 1, 1, 0, 0, 0, 0 }); dtPrint({ y, 12, 31, 23, 59, 59, 999 }); dtPrint({ y, 2, 29, 1, 1, 1, 1 });
        stat("dt_print_year_out_of_lexical_range", 3);
    }
    for (Civil c : { Civil{ 2020, 1, 1, 24, 0, 0, 0 }, Civil{ 2020, 1, 1, 0, 60, 0, 0 }, Civil{ 2020, 1, 1, 0, 0, 60, 0 }, Civil{ 2020, 1, 1, 0, 0, 0, 1000 } }) {
        dtPrint(c); stat("dt_print_not_a_time");
    }

    // ---- other lexical forms Qt::ISODate accepts or refuses
    section("dt-lexical-forms");
    n = thorough ? 20000 : 2500;
    for (int i = 0; i < n; i++) {
        Civil c = randCivil(rng);
        QString d = dateStr(c), t = timeStr(c);
        QString frac;
        if (c.ms || rng.below(4) == 0) {
            int digits = 1 + int(rng.below(7));
            QString f;
            for (int k = 0; k < digits; k++) f += QChar('0' + int(rng.below(10)));
            frac = (rng.below(5) == 0 ? "," : ".") + f;
        }
        QString sep = rng.below(8) == 0 ? (rng.coin() ? " " : "t") : "T";
        switch (rng.below(12)) {
        case 0: dtParse(d + sep + t + frac, "nozone"); break;
        case 1: dtParse(d + sep + t + frac + "z", "lowerz"); break;
        case 2: case 3: case 4: case 5: dtParse(d + sep + t + frac + randOffset(rng), "offset"); break;
        case 6: dtParse(d + sep + p2(c.h) + ":" + p2(c.mi) + (rng.coin() ? "Z" : rng.coin() ? QString() : randOffset(rng)), "hhmm"); break;
        case 7: dtParse(d, "dateonly"); break;
        case 8: dtParse(d + sep + "24:00:00" + (rng.coin() ? frac : QString()) + (rng.coin() ? "Z" : randOffset(rng)), "midnight24"); break;
        case 9: dtParse(d + sep + t + frac + "Z" + (rng.coin() ? " " : "x"), "trailing"); break;
        case 10: dtParse(d + sep + p2(c.h) + ":" + p2(c.mi) + ":" + QString::number(c.s % 10) + (rng.coin() ? "Z" : ""), "shortsec"); break;
        default: dtParse(d + sep + t + frac + "Z", "fraction"); break;
        }
    }
    section("dt-offset-boundary");
    // offsets that cross a day, month, year and the year 1 / 9999 limits
    for (const char *o : { "+00:00", "-00:00", "+00:01", "-00:01", "+23:59", "-23:59", "+14:00", "-12:00", "+24:00", "+01:60", "+1", "-1", "+0100", "+01", "+", "-",
                           "+\xe2\x88\x92" "99:", "+\xe2\x88\x92" "999:", "+\xe2\x88\x92" "24:", "-\xe2\x88\x92" "99:", "+ 5", "+5 :00", "+05: 0", "++1", "+1+", "+1:-1", "+01:00Z", "-01:00+02:00" }) {
        for (const char *dt : { "0001-01-01T00:00:00", "0001-01-01T23:59:59", "0001-01-03T12:00:00", "9999-12-31T23:59:59", "9999-12-31T00:00:00", "9999-12-28T12:00:00", "2020-02-28T23:30:00",
                                "2020-03-01T00:30:00", "2021-02-28T23:30:00", "2021-03-01T00:30:00", "2020-12-31T23:59:59.999", "2021-01-01T00:00:00", "1900-03-01T00:00:00",
                                "2000-03-01T00:00:00", "2020-01-02T24:00:00", "9999-12-31T24:00:00", "2020-05-31T12:00" }) {
            dtParse(U(dt) + U(o), "offset_boundary");
        }
    }
    section("dt-second-fraction");
    // fractional seconds: every fraction of 1..4 digits (Qt rounds the 4th digit in double arithmetic), 5+ sampled
    for (int digits = 1; digits <= 4; digits++) {
        int lim = 1; for (int k = 0; k < digits; k++) lim *= 10;
        for (int v = 0; v < lim; v++) {
            if (digits == 4 && !thorough && v % 10 != 5 && rng.below(8)) continue;  // quick: every x.xxx5 tie, 1/8 of the rest
            dtParse(QStringLiteral("2020-01-02T03:04:05.") + QStringLiteral("%1").arg(v, digits, 10, QLatin1Char('0')) + "Z", "frac_exhaustive");
        }
    }
    section("dt-minute-fraction");
    // HH:mm.fffff (fraction of a minute, float arithmetic in Qt)
    for (int digits = 1; digits <= 5; digits++) {
        int lim = 1; for (int k = 0; k < digits; k++) lim *= 10;
        for (int v = 0; v < lim; v++) {
            if (digits >= 4 && !thorough && rng.below(digits == 4 ? 10 : 100)) continue;
            dtParse(QStringLiteral("2020-01-02T03:04.") + QStringLiteral("%1").arg(v, digits, 10, QLatin1Char('0')) + "Z", "minute_fraction");
        }
    }
    for (const char *f : { "", "+5", "-5", "-0", " 5", "5 ", "1,234", "0,000", "9,999", "1,23", ",1234", "12,34", "12345x", "123456", "99999", "999999", "1234x", "+1234", "+12345", "\xe2\x88\x92" "5", "\xe2\x88\x92" "0" })
        for (const char *z : { "Z", "", "+01:00" })
            dtParse(QStringLiteral("2020-01-02T23:59.") + U(f) + U(z), "minute_fraction_odd");

    section("dt-field-fuzz");
    // ---- field fuzz: every 1- and 2-character string over an adversarial alphabet in each field
    std::vector<QString> alpha = { "0", "1", "2", "5", "6", "9", " ", "+", "-", ",", ".", ":", "e", "Z", "T", U("\xe2\x88\x92"), U("\xc2\xa0"), U("\xd9\xa3"), U("\xf0\x9f\x98\x80") };
    std::vector<QString> two;
    for (auto &a : alpha) { two.push_back(a); for (auto &b : alpha) two.push_back(a + b); }
    for (auto &f : two) {
        dtParse("2020-" + f + "-02T03:04:05Z", "field_month");
        dtParse("2020-01-" + f + "T03:04:05Z", "field_day");
        dtParse("2020-01-02T" + f + ":04:05Z", "field_hour");
        dtParse("2020-01-02T03:" + f + ":05Z", "field_minute");
        dtParse("2020-01-02T03:04:" + f + "Z", "field_second");
        dtParse("2020-01-02T03:04:" + f, "field_second_nozone");
        dtParse("2020-01-02T03:04:05." + f + "Z", "field_msec");
        dtParse("2020-01-02T03:04:05.1" + f + "Z", "field_msec");
        dtParse("2020-01-02T03:04:05.12" + f + "Z", "field_msec");
        dtParse("2020-01-02T03:04:05+" + f + ":30", "field_offset_hour");
        dtParse("2020-01-02T03:04:05-01:" + f, "field_offset_minute");
        dtParse("2020-01-02T03:04:05+" + f, "field_offset");
        dtParse("2020-01-02T03:04." + f + "Z", "field_minute_fraction");
        dtParse("20" + f + "-01-02T03:04:05Z", "field_year");
        dtParse(f + "20-01-02T03:04:05Z", "field_year");
        dtParse("2020" + f.left(1) + "01" + f.right(1) + "02T03:04:05Z", "field_date_separators");
        dtParse("2020-01-02" + f + "03:04:05Z", "field_t_separator");
        dtParse("2020-01-02T03" + f.left(1) + "04" + f.right(1) + "05Z", "field_time_separators");
        dtParse("2020-01-02T03:04:05" + f, "field_zone");
        dtParse("2020-01-02T03:04" + f, "field_after_minutes");
        dtParse("2020-01-02" + f, "field_after_date");
    }
    section("dt-mutated");
    // longer random fields (group separators, signs, blanks) where Qt reads up to 4/5/6 characters
    {
        std::vector<QString> fa = { "0", "1", "5", "9", ",", "+", "-", " ", ".", "x", ":", U("\xe2\x88\x92"), U("\xc2\xa0") };
        for (int i = 0; i < (thorough ? 30000 : 3000); i++) {
            QString f; int len = 1 + int(rng.below(6));
            for (int k = 0; k < len; k++) f += fa[rng.below(rng.below(3) ? 4 : uint32_t(fa.size()))];
            switch (rng.below(4)) {
            case 0: dtParse("2020-01-02T03:04." + f + (rng.coin() ? "Z" : ""), "field_minute_fraction_long"); break;
            case 1: dtParse("2020-01-02T03:04:05." + f + (rng.coin() ? "Z" : ""), "field_msec_long"); break;
            case 2: dtParse("2020-01-02T03:04:05" + QString(rng.coin() ? "+" : "-") + f, "field_offset_long"); break;
            default: dtParse(f.left(4).leftJustified(4, QLatin1Char('0')) + "-01-02T03:04:05Z", "field_year_long"); break;
            }
        }
    }
    // ---- mutation fuzz of valid strings and random strings over the date-time alphabet
    const QString pool = QStringLiteral("0123456789-:TZ+., tz/_x") + U("\xe2\x88\x92\xe2\x80\x93\xe3\x80\x81\xc2\xa0");
    n = thorough ? 60000 : 6000;
    for (int i = 0; i < n; i++) {
        Civil c = randCivil(rng);
        QString s = dateStr(c) + "T" + timeStr(c) + (c.ms ? "." + QStringLiteral("%1").arg(c.ms, 3, 10, QLatin1Char('0')) : QString());
        s += rng.below(3) == 0 ? randOffset(rng) : rng.below(4) == 0 ? QString() : QStringLiteral("Z");
        int nm = 1 + int(rng.below(3));
        for (int k = 0; k < nm; k++) {
            int pos = int(rng.below(uint32_t(s.size() + 1)));
            QString ins = rng.below(12) == 0 ? U("\xf0\x9f\x98\x80") : QString(pool[int(rng.below(uint32_t(pool.size())))]);
            switch (rng.below(4)) {
            case 0: s.insert(pos, ins); break;
            case 1: if (pos < s.size() && !s.at(pos).isSurrogate()) s.remove(pos, 1); break;
            case 2: if (pos < s.size() && !s.at(pos).isSurrogate()) s.replace(pos, 1, ins); break;
            default: if (pos + 1 < s.size() && !s.at(pos).isSurrogate() && !s.at(pos + 1).isSurrogate()) { QChar t = s[pos]; s[pos] = s[pos + 1]; s[pos + 1] = t; } break;
            }
        }
        dtParse(s, "mutated");
    }
    section("dt-random");
    for (int i = 0; i < n / 3; i++) {
        QString s; int len = int(rng.below(28));
        for (int k = 0; k < len; k++) s += pool[int(rng.below(uint32_t(pool.size())))];
        dtParse(s, "random");
    }
    section("dt-fixed");
    const char *fixed[] = { "", "garbage", "2020", "2020-01", "2020-01-02", "2020-01-02T", "2020-01-02T0", "2020-01-02T00", "2020-01-02T00:", "2020-01-02T00:0", "2020-01-02T00:00",
                            "2020-01-02T00:00:", "2020-01-02T00:00:0", "2020-01-02T00:00:00", "2020-01-021", "2020-01-02Z", "2020-01-02 ", "20200102T030405Z", " 2020-01-02T03:04:05Z",
                            "2020-01-02T03:04:05Z ", "2020-01-02T03:04:05 Z", "2020-01-02T03:04:05ZZ", "2020-01-02T03:04:05UTC", "0000-01-01T00:00:00Z", "10000-01-01T00:00:00Z",
                            "-0001-01-01T00:00:00Z", "+001-01-01T00:00:00Z", "999-01-01T00:00:00Z", "2020-1-2T03:04:05Z", "2020-01-02T3:04:05Z", "2020/01/02T03:04:05Z",
                            "2020.01.02T03:04:05Z", "2020$01$02T03:04:05Z", "2020-01-02T03-04-05Z", "2020-01-02T03:04:60Z", "2020-01-02T03:60:00Z", "2020-01-02T24:00:01Z",
                            "2020-01-02T24:00:00.0004Z", "2020-01-02T24:00:00.0005Z", "2020-01-02T24:00.0Z", "2020-01-02T24:-0:00Z", "2020-01-02T03:04:05.5005Z",
                            "2020-01-02T03:04:05.9995Z", "2020-01-02T03:04:05.12345678901234567890Z", "1969-07-20T02:56:15Z", "1969-07-20T21:56:15-05:00", "2006-12-19T17:58:35Z" };
    for (const char *f : fixed) dtParse(U(f), "fixed");
}

// ------------------------------------------------------------------------------------------- character classes
static void charClasses() {
    section("char-classes");
    for (uint c = 0; c < 0x10000; c++) {
        if (c >= 0xD800 && c < 0xE000) continue;
        QChar q(static_cast<ushort>(c));
        char buf[8]; snprintf(buf, sizeof buf, "%d%d", q.isSpace() ? 1 : 0, q.isPunct() ? 1 : 0);
        corr("scalar-class " + std::to_string(c), buf);
    }
    stat("char_class_code_points", 0x10000 - 0x800);
}

// ------------------------------------------------------------------------------------------- time zone offsets
static void tzo(Rng &rng, bool thorough) {
    section("tzo");
    auto parse = [](const QString &s) { corr("scalar-tzoparse " + hexQ(s), std::to_string(QXmppUtils::timezoneOffsetFromString(s))); stat("tzo_parse"); };
    std::vector<int> vs = { 0, 60, -60, 3600, -3600, 86340, -86340, 86400, -86400, 86399, 1, -1, 59, 61, 90000, -90000, 19800, -34200, 50400 };
    for (int i = 0; i < (thorough ? 4000 : 400); i++) { int v = int(rng.below(200000)) - 100000; vs.push_back(v); vs.push_back(v / 60 * 60); }
    for (int v : vs) {
        QString s = QXmppUtils::timezoneOffsetToString(v);
        corr("scalar-tzoprint " + std::to_string(v), hexQ(s));
        parse(s);
        if (v % 60 == 0 && v > -86400 && v < 86400) {   // the lexical range of [+-]hh:mm
            if (QXmppUtils::timezoneOffsetFromString(s) == v) oraclePass()++;
            else oracleFail("C01:tzo-roundtrip", "value=" + std::to_string(v) + " serialized=" + s.toStdString());
            stat("tzo_roundtrip_values");
        }
    }
    const char *cs[] = { "", "Z", "z", "+01:00", "-01:00", "+1:00", "+0100", "x+01:00y", "2020-01-02T03:04:05-05:30", "+99:99", "-00:00", "+01:0", "Z+01:00", "+01:00Z", "+-01:00", "++01:00",
                         "\xe2\x88\x92" "01:00", "+\xd9\xa0\xd9\xa1:00", " +02:30 ", "+02:30+03:00", "UTC", "-12:34:56" };
    for (const char *c : cs) parse(U(c));
    const QString pool = QStringLiteral("0123456789+-:Z z");
    for (int i = 0; i < (thorough ? 5000 : 800); i++) {
        QString s; int len = int(rng.below(10));
        for (int k = 0; k < len; k++) s += pool[int(rng.below(uint32_t(pool.size())))];
        parse(s);
    }
}

// ------------------------------------------------------------------------------------------- enumFromString
enum class E : int { V0, V1, V2, V3, V4, V5 };
template<size_t N> static void enumTable(Rng &rng, const std::vector<QString> &pool) {
    std::vector<QString> names;
    for (size_t i = 0; i < N; i++) names.push_back(pool[rng.below(uint32_t(pool.size()))]);
    std::array<QStringView, N> values;
    for (size_t i = 0; i < N; i++) values[i] = names[i];
    std::string tab;
    for (size_t i = 0; i < N; i++) tab += (i ? "," : "") + hexQ(names[i]);
    bool distinct = std::set<QString>(names.begin(), names.end()).size() == N;
    stat(distinct ? "enum_tables_distinct" : "enum_tables_with_duplicates");
    auto look = [&](const QString &s) {
        auto r = enumFromString<E, N>(values, s);
        corr("scalar-enum " + tab + " " + hexQ(s), r ? std::to_string(int(*r)) : "none");
        return r;
    };
    for (size_t i = 0; i < N; i++) {
        auto r = look(names[i]);
        if (distinct) {  // the property for a table of distinct names: fromString(toString(i)) == i
            if (r && size_t(*r) == i) oraclePass()++;
            else oracleFail("C01:enum-roundtrip", "table=" + tab + " index=" + std::to_string(i));
        }
    }
    for (int k = 0; k < 3; k++) look(pool[rng.below(uint32_t(pool.size()))]);
    look(names[0] + " "); look(names[0].toUpper()); look(QString());
}
static void enums(Rng &rng, bool thorough) {
    section("enum");
    std::vector<QString> pool = { "a", "b", "c", "chat", "groupchat", "normal", "error", "headline", "get", "set", "result", "", "A", "Chat", "both", "from", "to", "none", "remove", U("\xc3\xa9"), "a ", " a" };
    for (int i = 0; i < (thorough ? 2000 : 200); i++) {
        enumTable<1>(rng, pool); enumTable<2>(rng, pool); enumTable<3>(rng, pool); enumTable<4>(rng, pool); enumTable<6>(rng, pool);
    }
}

int main(int argc, char **argv) {
    // Date-times without zone designator, and Qt::LocalTime values, are local time in Qt.  The harness runs in a zone that is
    // NOT UTC, so that "converted to UTC" and "left as it is" differ: Asia/Kolkata (+05:30, no DST; the model's harnessLocalOffset);
    // if the zone database lacks it, the POSIX form of the same zone.
    setenv("TZ", "Asia/Kolkata", 1); tzset();
    { time_t t0 = 1577836800; struct tm lt; localtime_r(&t0, &lt); if (lt.tm_gmtoff != 19800) { setenv("TZ", "IST-5:30", 1); tzset(); vh::stat("tz_fallback_posix_string"); } }
    QCoreApplication app(argc, argv);
    Args args = parseArgs(argc, argv);
    bool thorough = args.tier == "thorough";
    Rng rng(args.seed);

    charClasses();

    int nr = thorough ? 3000 : 300;
    intBoundsAndRandom<int8_t>(rng, nr); intBoundsAndRandom<uint8_t>(rng, nr); intBoundsAndRandom<int16_t>(rng, nr); intBoundsAndRandom<uint16_t>(rng, nr);
    intBoundsAndRandom<int32_t>(rng, nr); intBoundsAndRandom<uint32_t>(rng, nr); intBoundsAndRandom<int64_t>(rng, nr); intBoundsAndRandom<uint64_t>(rng, nr);
    intLexical(rng, thorough);
    bools(rng);
    base64(rng, thorough);
    dateTimes(rng, thorough);
    tzo(rng, thorough);
    enums(rng, thorough);

    {
        auto u8 = parseInt<uint8_t>(QStringLiteral("255"));
        sample(std::string("parseInt<uint8_t>('255') -> ") + (u8 ? showT<uint8_t>(*u8) : "nullopt"));
        sample("datetimeFromString('2020-01-02T03:04:05.5005+01:00') -> " + showDt(QXmppUtils::datetimeFromString(QStringLiteral("2020-01-02T03:04:05.5005+01:00"))));
        auto b = parseBase64(QStringLiteral("QU JD*"));
        sample(std::string("parseBase64('QU JD*') -> ") + (b ? hexB(*b) : "nullopt"));
        sample("datetimeToString(10000-01-01T00:00:00Z) -> '" + QXmppUtils::datetimeToString(mk({ 10000, 1, 1, 0, 0, 0, 0 })).toStdString() + "'");
    }
    finish();
    return 0;
}
