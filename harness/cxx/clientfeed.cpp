// C02 (runtime half): a connected client with every bundled extension installed receives every corpus document and its
// mutations as a top-level stream element.
//
// The client (class TestClient, friend of QXmppClient / QXmppOutgoingClient) is really connected: its socket talks to a loopback
// QTcpServer owned by the harness, the stream is started, the session is opened through QXmppOutgoingClient::openSession() (so
// every manager ran its on-connect code: roster request, carbons, MIX/bookmark/blocklist queries, initial presence) and stream
// management is enabled. Own JID romeo@montague.example/orchard.
//   mode "direct": the element is handed to QXmppOutgoingClient::handlePacketReceived(QDomElement) (what the socket's stanzaReceived
//                  signal is connected to), as TestClient::inject does in the test-suite;
//   mode "socket": the element's text is written by the server side of the loopback connection, so XmppSocket::processData
//                  (buffering, stream wrapping, QDom parse) runs too.
// A fresh client per document; additionally one long-lived client receives all unmutated documents in a row (stateful managers).
// Oracles: terminates within the CPU budget, no sanitizer report, process alive (all via the fork pool of c02_common.h), and
//   C02:client-sent-not-wellformed     something the client sent in reaction is not a well-formed element
//   C02:client-crash:<what>            sanitizer report / signal / timeout while the client processed the element
// Statistics: documents fed, replies sent, IQ error replies, clients that dropped the connection, signals observed.
//
// usage: clientfeed --tier quick|thorough --seed N [--workers N] [--docs substr] [--per-doc K] [--no-mutations]
#include "c02_common.h"

#include "QXmppAccountMigrationManager.h"
#include "QXmppArchiveManager.h"
#include "QXmppAtmManager.h"
#include "QXmppAtmTrustMemoryStorage.h"
#include "QXmppAttentionManager.h"
#include "QXmppBlockingManager.h"
#include "QXmppBookmarkManager.h"
#include "QXmppCallInviteManager.h"
#include "QXmppCarbonManager.h"
#include "QXmppCarbonManagerV2.h"
#include "QXmppClient.h"
#include "QXmppClientExtension.h"
#include "QXmppClient_p.h"
#include "QXmppConfiguration.h"
#include "QXmppDiscoveryManager.h"
#include "QXmppEntityTimeManager.h"
#include "QXmppExternalServiceDiscoveryManager.h"
#include "QXmppFileSharingManager.h"
#include "QXmppHttpUploadManager.h"
#include "QXmppJingleMessageInitiationManager.h"
#include "QXmppLogger.h"
#include "QXmppMamManager.h"
#include "QXmppMessageReceiptManager.h"
#include "QXmppMixManager.h"
#include "QXmppMovedManager.h"
#include "QXmppMucManager.h"
#include "QXmppOutgoingClient.h"
#include "QXmppOutgoingClient_p.h"
#include "QXmppPubSubManager.h"
#include "QXmppRegistrationManager.h"
#include "QXmppRosterManager.h"
#include "QXmppRpcManager.h"
#include "QXmppTransferManager.h"
#include "QXmppUploadRequestManager.h"
#include "QXmppUserLocationManager.h"
#include "QXmppUserTuneManager.h"
#include "QXmppVCardManager.h"
#include "QXmppVersionManager.h"
#include "XmppSocket.h"

#include <cxxabi.h>
#include <QCoreApplication>
#include <QElapsedTimer>
#include <QTcpServer>
#include <QSslSocket>
#include <QTcpSocket>
#include <set>
#include <time.h>

using namespace c02;
using namespace QXmpp::Private;

enum {
    C_MAX_CALL_MS = 0, C_EXTENSIONS = 1,
    C_ITEMS = 8, C_FED_DIRECT, C_FED_SOCKET, C_SENT, C_SENT_BYTES, C_SENT_IQ_ERRORS, C_SENT_IQ_RESULTS, C_SENT_CHECKED, C_DROPPED, C_ERRORS_SIGNALLED, C_MSG_SIGNALS, C_PRES_SIGNALS, C_IQ_SIGNALS,
    C_CONNECT_FAILED, C_PASS, C_FAIL, C_MUT_NOT_APPLICABLE, C_INPUT_NOT_WF, C_LONGLIVED_FED, C_WRAPPED, C_EXCEPTIONS, C_NEGO_FED, C_NEGO_STATE_NOT_REACHED, C_NEGO_FINISHED,
    C_NEGO_STATE0 = 100,   // + state index: feeds delivered in that state
    C_KIND0 = 40,
};

struct Cfg {
    std::string tier = "quick";
    uint64_t seed = 1;
    int workers = 16;
    int perDoc = -1;
    bool mutations = true;
    std::string docs;
    int cpuBudget = 20;
    bool nego = true;
    std::string state;
};
static Cfg g_cfg;
static std::vector<Doc> g_docs;
static std::vector<Node> g_nodes;
static size_t g_nRegress = 0;

static long long cpuMicros()
{
    timespec ts;
    clock_gettime(CLOCK_PROCESS_CPUTIME_ID, &ts);
    return (long long)ts.tv_sec * 1000000ll + ts.tv_nsec / 1000;
}
__attribute__((noinline)) static void dirtyStack()   // see parsers.cpp
{
    unsigned char pad[64 * 1024];
    memset(pad, 0xAB, sizeof pad);
    __asm__ volatile("" ::"r"(pad) : "memory");
}
static void arm(int cpuSec)
{
    itimerval it {}; it.it_value.tv_sec = cpuSec;
    setitimer(ITIMER_VIRTUAL, &it, nullptr);
    alarm(unsigned(cpuSec) * 6);
}
static void disarm()
{
    itimerval it {};
    setitimer(ITIMER_VIRTUAL, &it, nullptr);
    alarm(0);
}

// ------------------------------------------------------------------------------------------------ the client
class TestClient : public QXmppClient
{
public:
    TestClient()
    {
        QXmppStanza::s_uniqeIdNo = 0;
        logger()->setLoggingType(QXmppLogger::SignalLogging);
        QObject::connect(logger(), &QXmppLogger::message, this, [this](QXmppLogger::MessageType type, const QString &text) {
            if (type == QXmppLogger::SentMessage) sent << text;
        });
        QObject::connect(this, &QXmppClient::messageReceived, this, [this](const QXmppMessage &) { nMsg++; });
        QObject::connect(this, &QXmppClient::presenceReceived, this, [this](const QXmppPresence &) { nPres++; });
        QObject::connect(this, &QXmppClient::iqReceived, this, [this](const QXmppIq &) { nIq++; });
        QObject::connect(this, &QXmppClient::errorOccurred, this, [this](const QXmppError &) { nErr++; });

        configuration().setJid(QStringLiteral("romeo@montague.example/orchard"));
        configuration().setPassword(QStringLiteral("secret"));
        configuration().setAutoReconnectionEnabled(false);
        configuration().setStreamSecurityMode(QXmppConfiguration::TLSDisabled);

        // every bundled extension that needs no external service (the 5 basic ones are installed by the QXmppClient constructor)
        addNewExtension<QXmppPubSubManager>();
        addNewExtension<QXmppCarbonManagerV2>();
        addNewExtension<QXmppCarbonManager>();
        addNewExtension<QXmppAccountMigrationManager>();
        addNewExtension<QXmppArchiveManager>();
        trustStorage = std::make_unique<QXmppAtmTrustMemoryStorage>();
        addNewExtension<QXmppAtmManager>(trustStorage.get());
        addNewExtension<QXmppAttentionManager>();
        addNewExtension<QXmppBlockingManager>();
        addNewExtension<QXmppBookmarkManager>();
        addNewExtension<QXmppCallInviteManager>();
        addNewExtension<QXmppExternalServiceDiscoveryManager>();
        addNewExtension<QXmppUploadRequestManager>();
        addNewExtension<QXmppHttpUploadManager>();
        addNewExtension<QXmppFileSharingManager>();
        addNewExtension<QXmppJingleMessageInitiationManager>();
        addNewExtension<QXmppMamManager>();
        addNewExtension<QXmppMessageReceiptManager>();
        addNewExtension<QXmppMixManager>();
        addNewExtension<QXmppMovedManager>();
        addNewExtension<QXmppMucManager>();
        addNewExtension<QXmppRegistrationManager>();
        addNewExtension<QXmppRpcManager>();
        addNewExtension<QXmppTransferManager>();
        addNewExtension<QXmppUserLocationManager>();
        addNewExtension<QXmppUserTuneManager>();
    }

    int extensionCount() { return extensions().size(); }

    // connect the real socket to the harness's loopback server, start the stream, open the session
    bool goOnline(QTcpServer &server)
    {
        auto *out = d->stream;
        out->d->socket.connectToHost(ServerAddress { ServerAddress::Tcp, QStringLiteral("127.0.0.1"), server.serverPort() });
        QElapsedTimer t; t.start();
        while ((!out->d->socket.isConnected() || !server.hasPendingConnections()) && t.elapsed() < 5000) QCoreApplication::processEvents(QEventLoop::AllEvents, 20);
        if (!out->d->socket.isConnected() || !server.hasPendingConnections()) return false;
        peer.reset(server.nextPendingConnection());
        QObject::connect(peer.get(), &QTcpSocket::readyRead, peer.get(), [this] { serverReceived += peer->readAll().size(); });
        // server's stream header (as received text, so the socket layer caches it for wrapping later stanzas)
        peer->write("<?xml version='1.0'?><stream:stream xmlns='jabber:client' xmlns:stream='http://etherx.jabber.org/streams' id='s1' from='montague.example' version='1.0' xml:lang='en'>");
        peer->flush();
        pump(3);
        out->d->isAuthenticated = true;
        out->enableStreamManagement(true);
        if (!out->d->sessionStarted) out->openSession();
        pump(3);
        return out->isConnected();
    }
    // connect the real socket and exchange stream headers only (no session): the client is then negotiating
    bool connectOnly(QTcpServer &server)
    {
        auto *out = d->stream;
        out->d->socket.connectToHost(ServerAddress { ServerAddress::Tcp, QStringLiteral("127.0.0.1"), server.serverPort() });
        QElapsedTimer t; t.start();
        while ((!out->d->socket.isConnected() || !server.hasPendingConnections()) && t.elapsed() < 5000) QCoreApplication::processEvents(QEventLoop::AllEvents, 20);
        if (!out->d->socket.isConnected() || !server.hasPendingConnections()) return false;
        peer.reset(server.nextPendingConnection());
        QObject::connect(peer.get(), &QTcpSocket::readyRead, peer.get(), [this] { serverReceived += peer->readAll().size(); });
        serverSend("<?xml version='1.0'?><stream:stream xmlns='jabber:client' xmlns:stream='http://etherx.jabber.org/streams' id='s1' from='montague.example' version='1.0' xml:lang='en'>");
        return true;
    }
    void serverSend(const QByteArray &xml)
    {
        peer->write(xml);
        peer->flush();
        QElapsedTimer t; t.start();
        for (int idle = 0; idle < 3 && t.elapsed() < 2000;) {
            pump(2);
            auto *sock = d->stream->d->socket.socket();
            if (peer->bytesToWrite() == 0 && (!sock || sock->bytesAvailable() == 0)) idle++; else idle = 0;
        }
    }
    int listenerIndex() { return int(d->stream->d->listener.index()); }
    void setAuthenticated(bool a) { d->stream->d->isAuthenticated = a; }
    QString lastSent(const QString &prefix)
    {
        for (int i = sent.size() - 1; i >= 0; i--) if (sent[i].startsWith(prefix)) return sent[i];
        return {};
    }
    QString lastSentIqId()
    {
        QString iq = lastSent(QStringLiteral("<iq"));
        int a = iq.indexOf(QStringLiteral("id=\""));
        if (a < 0) return QStringLiteral("none");
        int b = iq.indexOf(u'"', a + 4);
        return iq.mid(a + 4, b - a - 4);
    }
    void pump(int rounds)
    {
        for (int i = 0; i < rounds; i++) {
            QCoreApplication::sendPostedEvents();
            QCoreApplication::processEvents(QEventLoop::AllEvents, 1);
        }
    }
    void feedDirect(const QDomElement &e)
    {
        dirtyStack();
        d->stream->handlePacketReceived(e);
        pump(3);
    }
    void feedSocket(const QByteArray &xml)
    {
        peer->write(xml);
        peer->flush();
        QElapsedTimer t; t.start();
        // until the client side consumed everything (or 2 s wall)
        for (int idle = 0; idle < 3 && t.elapsed() < 2000;) {
            pump(2);
            auto *sock = d->stream->d->socket.socket();
            if (peer->bytesToWrite() == 0 && (!sock || sock->bytesAvailable() == 0)) idle++; else idle = 0;
        }
    }
    bool online() { return d->stream->isConnected(); }

    QStringList sent;
    long nMsg = 0, nPres = 0, nIq = 0, nErr = 0;
    long serverReceived = 0;
    std::unique_ptr<QTcpSocket> peer;
    std::unique_ptr<QXmppAtmTrustMemoryStorage> trustStorage;
};

// A C++ exception that escapes the client's packet handling would unwind through Qt's event dispatch / the socket's readyRead
// handler and terminate the application: it is caught here and reported as C02:client-exception:<state>:<type>.
static std::string currentExceptionType()
{
    int status = 0;
    const std::type_info *ti = abi::__cxa_current_exception_type();
    if (!ti) return "unknown";
    char *dn = abi::__cxa_demangle(ti->name(), nullptr, nullptr, &status);
    std::string n = (status == 0 && dn) ? dn : ti->name();
    free(dn);
    for (auto &ch : n) if (ch == ' ' || ch == '\t') ch = '_';
    return n;
}
template<typename F>
static bool guarded(const std::string &state, const std::string &docId, const std::string &mutDesc, const QByteArray &in, Status *st, F &&f)
{
    try {
        f();
        return true;
    } catch (...) {
        std::string what = currentExceptionType();
        printf("O FAIL C02:client-exception:%s:%s\tstate=%s doc=%s mut=%s in=%s (a C++ exception left the client's element handling; outside a harness it reaches the event loop and terminates the process)\n",
               state.c_str(), what.c_str(), state.c_str(), docId.c_str(), mutDesc.empty() ? "none" : mutDesc.c_str(), escLine(in, 1500).c_str());
        fflush(stdout);
        st->counters[C_EXCEPTIONS]++;
        st->counters[C_FAIL]++;
        return false;
    }
}

static bool sentIsWellFormed(const QString &text)
{
    if (text.startsWith(u"<?xml") || text.startsWith(u"<stream:stream") || text == u"</stream:stream>" || text.trimmed().isEmpty()) return true;
    QDomDocument doc;
    QString wrapped = QStringLiteral("<stream:stream xmlns='jabber:client' xmlns:stream='http://etherx.jabber.org/streams'>") + text + QStringLiteral("</stream:stream>");
    return doc.setContent(wrapped, true);
}

// ------------------------------------------------------------------------------------------------ negotiation states
// A real client is brought into each listener state of QXmppOutgoingClient by the server side of the loopback connection sending the
// stream features (and follow-ups) that lead there; the state is verified through the listener variant index. Then ONE element is
// delivered (socket text or handlePacketReceived) to a fresh client in that state.
enum { L_CLIENT = 0, L_STARTTLS = 1, L_NONSASL = 2, L_SASL = 3, L_SASL2 = 4, L_SM = 5, L_BIND = 6 };
struct NegState { std::string name; int listener; };
static const std::vector<NegState> &negStates()
{
    static const std::vector<NegState> s = {
        { "starttls", L_STARTTLS },
        { "sasl:PLAIN", L_SASL }, { "sasl:SCRAM-SHA-1", L_SASL }, { "sasl:SCRAM-SHA-256", L_SASL }, { "sasl:SCRAM-SHA-512", L_SASL }, { "sasl:DIGEST-MD5", L_SASL }, { "sasl:ANONYMOUS", L_SASL },
        { "sasl:SCRAM-SHA-1:after-challenge", L_SASL }, { "sasl:DIGEST-MD5:after-challenge", L_SASL },
        { "sasl2:PLAIN", L_SASL2 }, { "sasl2:SCRAM-SHA-1", L_SASL2 }, { "sasl2:SCRAM-SHA-256", L_SASL2 }, { "sasl2:SCRAM-SHA-1:after-challenge", L_SASL2 },
        { "bind", L_BIND }, { "sm-enable", L_SM }, { "sm-resume", L_SM },
        { "legacy-auth:options", L_NONSASL }, { "legacy-auth:login", L_NONSASL },
    };
    return s;
}
static QByteArray features(const QByteArray &inner)
{
    return "<stream:features>" + inner + "</stream:features>";
}
static QByteArray scramServerFirst(const QString &sentAuthOrAuthenticate)
{
    // client-first is the base64 text of <auth/> (SASL) or of <initial-response/> (SASL2): "n,,n=user,r=<nonce>"
    QString t = sentAuthOrAuthenticate;
    int ir = t.indexOf(QStringLiteral("<initial-response>"));
    QString b64;
    if (ir >= 0) b64 = t.mid(ir + 18, t.indexOf(u'<', ir + 18) - ir - 18);
    else { int a = t.indexOf(u'>'); b64 = t.mid(a + 1, t.indexOf(u'<', a + 1) - a - 1); }
    QByteArray first = QByteArray::fromBase64(b64.toLatin1());
    int r = first.indexOf("r=");
    QByteArray nonce = r < 0 ? QByteArray("x") : first.mid(r + 2);
    return ("r=" + nonce + "3rfcNHYJY1ZVvWVs7j,s=QSXCR+Q6sek8bf92,i=4096").toBase64();
}
// returns false when the state could not be reached (counted, not a failure of the library)
static bool enterState(TestClient &c, QTcpServer &server, const NegState &st)
{
    auto &cfg = c.configuration();
    const std::string &n = st.name;
    cfg.setStreamSecurityMode(n == "starttls" ? QXmppConfiguration::TLSEnabled : QXmppConfiguration::TLSDisabled);
    if (n.rfind("sasl:", 0) == 0) cfg.setUseSasl2Authentication(false);
    if (n.rfind("legacy-auth", 0) == 0) { cfg.setUseSASLAuthentication(false); cfg.setUseSasl2Authentication(false); cfg.setUseNonSASLAuthentication(true); }
    if (!c.connectOnly(server)) return false;
    auto mech = [&]() { auto a = n.find(':'); auto b = n.find(':', a + 1); return QByteArray::fromStdString(n.substr(a + 1, b == std::string::npos ? b : b - a - 1)); };
    if (n == "starttls") c.serverSend(features("<starttls xmlns='urn:ietf:params:xml:ns:xmpp-tls'><required/></starttls>"));
    else if (n.rfind("sasl:", 0) == 0) {
        c.serverSend(features("<mechanisms xmlns='urn:ietf:params:xml:ns:xmpp-sasl'><mechanism>" + mech() + "</mechanism></mechanisms>"));
        if (n == "sasl:SCRAM-SHA-1:after-challenge")
            c.serverSend("<challenge xmlns='urn:ietf:params:xml:ns:xmpp-sasl'>" + scramServerFirst(c.lastSent(QStringLiteral("<auth"))) + "</challenge>");
        if (n == "sasl:DIGEST-MD5:after-challenge")
            c.serverSend("<challenge xmlns='urn:ietf:params:xml:ns:xmpp-sasl'>" + QByteArray("realm=\"montague.example\",nonce=\"OA6MG9tEQGm2hh\",qop=\"auth\",charset=utf-8,algorithm=md5-sess").toBase64() + "</challenge>");
    } else if (n.rfind("sasl2:", 0) == 0) {
        c.serverSend(features("<authentication xmlns='urn:xmpp:sasl:2'><mechanism>" + mech() + "</mechanism><inline><bind xmlns='urn:xmpp:bind:0'><inline><feature var='urn:xmpp:carbons:2'/>"
                              "<feature var='urn:xmpp:sm:3'/></inline></bind><sm xmlns='urn:xmpp:sm:3'/></inline></authentication>"));
        if (n == "sasl2:SCRAM-SHA-1:after-challenge")
            c.serverSend("<challenge xmlns='urn:xmpp:sasl:2'>" + scramServerFirst(c.lastSent(QStringLiteral("<authenticate"))) + "</challenge>");
    } else if (n == "bind") {
        c.setAuthenticated(true);
        c.serverSend(features("<bind xmlns='urn:ietf:params:xml:ns:xmpp-bind'/><session xmlns='urn:ietf:params:xml:ns:xmpp-session'><optional/></session><sm xmlns='urn:xmpp:sm:3'/>"));
    } else if (n == "sm-enable" || n == "sm-resume") {
        c.setAuthenticated(true);
        c.serverSend(features("<sm xmlns='urn:xmpp:sm:3'/>"));
        if (n == "sm-resume") {
            c.serverSend("<enabled xmlns='urn:xmpp:sm:3' id='sm-id-1' resume='true'/>");
            // the connection drops; the client reconnects and asks to resume
            c.peer->abort();
            c.pump(6);
            c.peer.reset();
            if (!c.connectOnly(server)) return false;
            c.setAuthenticated(true);
            c.serverSend(features("<sm xmlns='urn:xmpp:sm:3'/>"));
            if (c.lastSent(QStringLiteral("<resume")).isEmpty()) return false;
        }
    } else if (n.rfind("legacy-auth", 0) == 0) {
        c.serverSend(features("<auth xmlns='http://jabber.org/features/iq-auth'/>"));
        if (n == "legacy-auth:login")
            c.serverSend("<iq type='result' id='" + c.lastSentIqId().toUtf8() + "'><query xmlns='jabber:iq:auth'><username/><password/><digest/><resource/></query></iq>");
    }
    if (n.find(":after-challenge") != std::string::npos && c.lastSent(QStringLiteral("<response")).isEmpty()) return false;   // challenge was not answered
    if (n == "legacy-auth:login" && !c.lastSent(QStringLiteral("<iq")).contains(QStringLiteral("<password>")) && !c.lastSent(QStringLiteral("<iq")).contains(QStringLiteral("<digest>"))) return false;
    return c.listenerIndex() == st.listener;
}

// The negotiation protocols' own elements in their variants. "@ID@" is replaced by the id of the IQ the client sent last.
static std::vector<Doc> negotiationDocs()
{
    std::vector<Doc> out;
    auto add = [&](const std::string &id, const std::string &xml) { out.push_back({ "nego:" + id, QByteArray::fromStdString(xml) }); };
    const char *SASL = "urn:ietf:params:xml:ns:xmpp-sasl", *SASL2 = "urn:xmpp:sasl:2", *TLS = "urn:ietf:params:xml:ns:xmpp-tls", *SM = "urn:xmpp:sm:3";
    const char *conds[] = { "aborted", "account-disabled", "credentials-expired", "encryption-required", "incorrect-encoding", "invalid-authzid", "invalid-mechanism",
                            "malformed-request", "mechanism-too-weak", "not-authorized", "temporary-auth-failure", "account-locked", "" };
    const char *texts[] = { "", "<text>Nope</text>", "<text xml:lang='en'>Nope</text>", "<text/>" };
    const char *payloads[] = { "", "=", "dj1ybUY5cHFWOFM3c3VBb1pXamE0ZEpSa0ZzS1E9", "not base64 !!", "cj14LHM9eCxpPTE=", "ZT1vdGhlci1lcnJvcg==", "AA==" };
    for (const char *ns : { SASL, SASL2, "", "urn:verif:wrong" }) {
        std::string N = ns, tag = N == SASL ? "sasl" : N == SASL2 ? "sasl2" : N.empty() ? "nons" : "wrongns";
        for (const char *c : conds)
            for (size_t ti = 0; ti < sizeof texts / sizeof texts[0]; ti++) {
                const char *t = texts[ti];
                // in SASL2 the condition children live in the SASL 1 namespace
                std::string cond = *c ? (N == SASL2 ? std::string("<") + c + " xmlns='" + SASL + "'/>" : std::string("<") + c + "/>") : "";
                std::string text = t;
                add(tag + ":failure:" + (*c ? c : "no-condition") + (*t ? ":text" + std::to_string(ti) : ""), "<failure xmlns='" + N + "'>" + cond + text + "</failure>");
            }
        for (const char *pl : payloads) {
            add(tag + ":success", "<success xmlns='" + N + "'>" + pl + "</success>");
            add(tag + ":challenge", "<challenge xmlns='" + N + "'>" + pl + "</challenge>");
            add(tag + ":response", "<response xmlns='" + N + "'>" + pl + "</response>");
        }
        add(tag + ":abort", "<abort xmlns='" + N + "'/>");
        add(tag + ":auth", "<auth xmlns='" + N + "' mechanism='PLAIN'>AGEAYg==</auth>");
    }
    for (const char *pl : payloads) {
        add("sasl2:success:additional-data", std::string("<success xmlns='") + SASL2 + "'><additional-data>" + pl + "</additional-data><authorization-identifier>romeo@montague.example/orchard</authorization-identifier></success>");
        add("sasl2:continue", std::string("<continue xmlns='") + SASL2 + "'><additional-data>" + pl + "</additional-data><tasks><task>TOTP-EXAMPLE</task></tasks><text>2FA</text></continue>");
    }
    add("sasl2:success:no-jid", std::string("<success xmlns='") + SASL2 + "'/>");
    add("sasl2:success:bad-jid", std::string("<success xmlns='") + SASL2 + "'><authorization-identifier>@/</authorization-identifier></success>");
    add("sasl2:success:bound", std::string("<success xmlns='") + SASL2 + "'><authorization-identifier>romeo@montague.example/x</authorization-identifier><bound xmlns='urn:xmpp:bind:0'>"
        "<enabled xmlns='urn:xmpp:sm:3' id='i' resume='1' max='x'/><failed xmlns='urn:xmpp:sm:3' h='-1'/></bound><token xmlns='urn:xmpp:fast:0' expiry='never' token=''/></success>");
    add("sasl2:success:bound-resumed", std::string("<success xmlns='") + SASL2 + "'><authorization-identifier>romeo@montague.example/x</authorization-identifier><bound xmlns='urn:xmpp:bind:0'>"
        "<resumed xmlns='urn:xmpp:sm:3' h='99999999999' previd='p'/></bound></success>");
    add("sasl2:continue:empty", std::string("<continue xmlns='") + SASL2 + "'/>");
    // STARTTLS
    add("tls:proceed", std::string("<proceed xmlns='") + TLS + "'/>");
    add("tls:proceed:children", std::string("<proceed xmlns='") + TLS + "'><x/>text</proceed>");
    add("tls:failure", std::string("<failure xmlns='") + TLS + "'/>");
    add("tls:starttls", std::string("<starttls xmlns='") + TLS + "'><required/></starttls>");
    add("tls:proceed:wrongns", "<proceed xmlns='urn:verif:wrong'/>");
    // stream management
    for (const char *attrs : { "", " id='x'", " id='x' resume='true'", " id='' resume='maybe' max='-1' location='[::1]:x'", " resume='1'", " id='x' resume='true' max='99999999999999999999'" })
        add("sm:enabled", std::string("<enabled xmlns='") + SM + "'" + attrs + "/>");
    for (const char *attrs : { "", " h='0'", " h='-1'", " h='4294967296'", " h='abc'", " h='5' previd='sm-id-1'", " previd=''" }) {
        add("sm:resumed", std::string("<resumed xmlns='") + SM + "'" + attrs + "/>");
        add("sm:failed", std::string("<failed xmlns='") + SM + "'" + attrs + "><item-not-found xmlns='urn:ietf:params:xml:ns:xmpp-stanzas'/></failed>");
        add("sm:failed:bare", std::string("<failed xmlns='") + SM + "'" + attrs + "/>");
        add("sm:a", std::string("<a xmlns='") + SM + "'" + attrs + "/>");
    }
    add("sm:r", std::string("<r xmlns='") + SM + "'/>");
    add("sm:enable", std::string("<enable xmlns='") + SM + "' resume='true'/>");
    add("sm:failed:unknown-condition", std::string("<failed xmlns='") + SM + "'><verif-unknown xmlns='urn:ietf:params:xml:ns:xmpp-stanzas'/><text xmlns='urn:ietf:params:xml:ns:xmpp-stanzas'>t</text></failed>");
    // resource binding and legacy authentication: replies to the pending IQ (and to nobody)
    for (const char *id : { "@ID@", "someone-elses-id", "" }) {
        std::string I = id;
        add("bind:result", "<iq xmlns='jabber:client' type='result' id='" + I + "'><bind xmlns='urn:ietf:params:xml:ns:xmpp-bind'><jid>romeo@montague.example/orchard</jid></bind></iq>");
        add("bind:result:no-jid", "<iq xmlns='jabber:client' type='result' id='" + I + "'><bind xmlns='urn:ietf:params:xml:ns:xmpp-bind'/></iq>");
        add("bind:result:bad-jid", "<iq xmlns='jabber:client' type='result' id='" + I + "'><bind xmlns='urn:ietf:params:xml:ns:xmpp-bind'><jid>@/</jid><jid/></bind></iq>");
        add("bind:result:empty", "<iq xmlns='jabber:client' type='result' id='" + I + "'/>");
        add("bind:error", "<iq xmlns='jabber:client' type='error' id='" + I + "'><error type='cancel'><conflict xmlns='urn:ietf:params:xml:ns:xmpp-stanzas'/></error></iq>");
        add("bind:error:unknown", "<iq xmlns='jabber:client' type='error' id='" + I + "'><error type='verif'><verif-unknown xmlns='urn:ietf:params:xml:ns:xmpp-stanzas'/></error></iq>");
        add("bind:error:bare", "<iq xmlns='jabber:client' type='error' id='" + I + "'/>");
        add("bind:get", "<iq xmlns='jabber:client' type='get' id='" + I + "'><bind xmlns='urn:ietf:params:xml:ns:xmpp-bind'/></iq>");
        add("legacy:options", "<iq xmlns='jabber:client' type='result' id='" + I + "'><query xmlns='jabber:iq:auth'><username/><password/><digest/><resource/></query></iq>");
        add("legacy:options:none", "<iq xmlns='jabber:client' type='result' id='" + I + "'><query xmlns='jabber:iq:auth'/></iq>");
        add("legacy:options:digest-only", "<iq xmlns='jabber:client' type='result' id='" + I + "'><query xmlns='jabber:iq:auth'><digest/></query></iq>");
        add("legacy:error", "<iq xmlns='jabber:client' type='error' id='" + I + "'><query xmlns='jabber:iq:auth'/><error code='401' type='auth'><not-authorized xmlns='urn:ietf:params:xml:ns:xmpp-stanzas'/></error></iq>");
    }
    // stream level
    add("stream:features:empty", "<stream:features xmlns:stream='http://etherx.jabber.org/streams'/>");
    add("stream:features:everything", "<stream:features xmlns:stream='http://etherx.jabber.org/streams'><starttls xmlns='urn:ietf:params:xml:ns:xmpp-tls'/><mechanisms xmlns='urn:ietf:params:xml:ns:xmpp-sasl'>"
        "<mechanism>PLAIN</mechanism><mechanism/></mechanisms><authentication xmlns='urn:xmpp:sasl:2'><mechanism>PLAIN</mechanism></authentication><bind xmlns='urn:ietf:params:xml:ns:xmpp-bind'/>"
        "<sm xmlns='urn:xmpp:sm:3'/><auth xmlns='http://jabber.org/features/iq-auth'/></stream:features>");
    add("stream:error:conflict", "<stream:error xmlns:stream='http://etherx.jabber.org/streams'><conflict xmlns='urn:ietf:params:xml:ns:xmpp-streams'/></stream:error>");
    add("stream:error:unknown", "<stream:error xmlns:stream='http://etherx.jabber.org/streams'><verif-unknown xmlns='urn:ietf:params:xml:ns:xmpp-streams'/></stream:error>");
    add("stream:error:empty", "<stream:error xmlns:stream='http://etherx.jabber.org/streams'/>");
    add("stream:error:see-other-host", "<stream:error xmlns:stream='http://etherx.jabber.org/streams'><see-other-host xmlns='urn:ietf:params:xml:ns:xmpp-streams'>[::1]:99999</see-other-host></stream:error>");
    return out;
}

struct Work { int doc; int mut; int kind; int mode; int wrap = 0; };   // mode 0 direct, 1 socket, 2 long-lived (doc = first index, mut = count), 3 negotiation state (wrap = state index; kind < -1: direct)

// Corpus documents that are payloads (data forms, jingle contents, pubsub items, ...) are also delivered inside a stanza, the way a
// peer would send them: wrap 1 message, 2 presence, 3 iq-get, 4 iq-set, 5 iq-result, 6 iq-error
static const int WRAPS = 6;
static bool isTopLevelKind(const Node &n)
{
    if (n.ns == u"jabber:client") return n.local == u"message" || n.local == u"presence" || n.local == u"iq";
    return n.ns == u"http://etherx.jabber.org/streams" || n.ns == u"urn:xmpp:sm:3" || n.ns == u"urn:ietf:params:xml:ns:xmpp-sasl" || n.ns == u"urn:xmpp:sasl:2" ||
        n.ns == u"urn:ietf:params:xml:ns:xmpp-tls";
}
static const char *wrapName(int w) { static const char *n[] = { "none", "message", "presence", "iq-get", "iq-set", "iq-result", "iq-error" }; return n[w]; }
static Node wrapped(const Node &payload, int wrap)
{
    Node r;
    r.ns = QStringLiteral("jabber:client");
    r.local = wrap == 1 ? QStringLiteral("message") : wrap == 2 ? QStringLiteral("presence") : QStringLiteral("iq");
    auto at = [&](const char *k, const char *v) { r.attrs.push_back({ QString(), QString::fromUtf8(k), QString(), QString::fromUtf8(v) }); };
    at("from", wrap == 2 ? "juliet@capulet.example/balcony" : "juliet@capulet.example/balcony");
    at("to", "romeo@montague.example/orchard");
    at("id", "w1");
    if (wrap == 1) at("type", "chat");
    if (wrap >= 3) at("type", wrap == 3 ? "get" : wrap == 4 ? "set" : wrap == 5 ? "result" : "error");
    r.kids.push_back(payload);
    return r;
}

static void account(TestClient &c, Status *st, const std::string &docId, const std::string &mutDesc, const QByteArray &in, int from)
{
    for (int i = from; i < c.sent.size(); i++) {
        const QString &s = c.sent[i];
        st->counters[C_SENT]++; st->counters[C_SENT_BYTES] += s.size();
        if (s.startsWith(u"<iq") && s.contains(u"type=\"error\"")) st->counters[C_SENT_IQ_ERRORS]++;
        if (s.startsWith(u"<iq") && s.contains(u"type=\"result\"")) st->counters[C_SENT_IQ_RESULTS]++;
        st->counters[C_SENT_CHECKED]++;
        if (!sentIsWellFormed(s)) {
            printf("O FAIL C02:client-sent-not-wellformed\tdoc=%s mut=%s in=%s sent=%s\n", docId.c_str(), mutDesc.empty() ? "none" : mutDesc.c_str(), escLine(in, 1500).c_str(), escLine(s.toUtf8(), 1200).c_str());
            fflush(stdout);
            st->counters[C_FAIL]++;
        } else st->counters[C_PASS]++;
    }
}

static void runItem(const Work &w, int itemIdx, Status *st, QTcpServer &server, int &samplesLeft, int skipUpToDoc)
{
    st->item = itemIdx; st->parser = -1; st->phase = PH_PREP;
    if (w.mode == 2) {
        // one long-lived client, all unmutated documents of [doc, doc+mut) in a row
        TestClient c;
        if (!c.goOnline(server)) { st->counters[C_CONNECT_FAILED]++; return; }
        for (int i = std::max(w.doc, skipUpToDoc + 1); i < w.doc + w.mut && i < int(g_docs.size()); i++) {
            QDomDocument d;
            if (!d.setContent(g_docs[i].xml, true)) continue;
            st->parser = i; st->phase = PH_FEED;
            int from = c.sent.size();
            long long t0 = cpuMicros();
            arm(g_cfg.cpuBudget);
            if (!c.online()) { disarm(); if (!c.goOnline(server)) break; arm(g_cfg.cpuBudget); st->counters[C_DROPPED]++; }
            if (!guarded("session", g_docs[i].id, "", g_docs[i].xml, st, [&] { c.feedDirect(d.documentElement()); })) break;
            disarm();
            long long ms = (cpuMicros() - t0) / 1000;
            if (ms > st->counters[C_MAX_CALL_MS]) st->counters[C_MAX_CALL_MS] = ms;
            st->counters[C_LONGLIVED_FED]++;
            account(c, st, g_docs[i].id + "(long-lived client)", "", g_docs[i].xml, from);
        }
        st->phase = PH_PREP;
        return;
    }
    if (w.mode == 3) {
        const NegState &ns = negStates()[w.wrap];
        const Doc &d = g_docs[w.doc];
        QByteArray in = d.xml;
        std::string mutDesc;
        if (w.mut >= 0) {
            vh::Rng rng(g_cfg.seed * 1000003ull + uint64_t(w.doc) * 7919ull + uint64_t(w.mut + 1) * 104729ull + uint64_t(w.wrap) * 31ull + 5);
            Node n = g_nodes[w.doc];
            MutCtx ctx { rng, &g_nodes, 32, 200, 1 << 14 };
            int kind = w.kind < 0 ? 0 : w.kind;
            for (int tries = 0; tries < M_KINDS && mutDesc.empty(); tries++, kind = (kind + 1) % M_KINDS) {
                if (kind == M_ATTR_LONG || kind == M_TEXT_LONG || kind == M_WIDE || kind == M_DEEP) continue;
                mutDesc = mutate(n, kind, ctx);
            }
            if (mutDesc.empty()) return;
            in = render(n);
        }
        TestClient c;
        st->phase = PH_PREP;
        bool reached = false;
        arm(g_cfg.cpuBudget);
        if (!guarded(ns.name + ":entering", d.id, mutDesc, in, st, [&] { reached = enterState(c, server, ns); })) { disarm(); return; }
        disarm();
        if (!reached) { st->counters[C_NEGO_STATE_NOT_REACHED]++; return; }
        in.replace("@ID@", c.lastSentIqId().toUtf8());
        printf("D %s\t%s\t%s\n", d.id.c_str(), (std::string("state=") + ns.name + (mutDesc.empty() ? "" : ";" + mutDesc)).c_str(), escLine(in, 4000).c_str());
        fflush(stdout);
        QDomDocument doc;
        QByteArray wrappedIn = "<stream:stream xmlns='jabber:client' xmlns:stream='http://etherx.jabber.org/streams'>" + in + "</stream:stream>";
        if (!doc.setContent(wrappedIn, true) || doc.documentElement().firstChildElement().isNull()) { st->counters[C_INPUT_NOT_WF]++; return; }
        int from = c.sent.size();
        st->counters[C_ITEMS]++;
        st->counters[C_NEGO_FED]++; st->counters[C_NEGO_STATE0 + w.wrap]++;
        long long t0 = cpuMicros();
        arm(g_cfg.cpuBudget);
        bool direct = (w.doc + w.wrap + (w.mut < 0 ? 0 : w.mut)) % 3 == 0;
        st->phase = direct ? PH_FEED : PH_EVENTS;
        guarded(ns.name, d.id, mutDesc, in, st, [&] { if (direct) c.feedDirect(doc.documentElement().firstChildElement()); else c.feedSocket(in); });
        disarm();
        long long ms = (cpuMicros() - t0) / 1000;
        if (ms > st->counters[C_MAX_CALL_MS]) st->counters[C_MAX_CALL_MS] = ms;
        if (c.listenerIndex() != ns.listener) st->counters[C_NEGO_FINISHED]++;   // the element ended / advanced the negotiation step
        st->counters[C_ERRORS_SIGNALLED] += c.nErr;
        account(c, st, d.id + "(state " + ns.name + ")", mutDesc, in, from);
        st->phase = PH_EVENTS;
        arm(g_cfg.cpuBudget);
        return;   // tear-down of a client in mid-negotiation is part of the experiment
    }
    const Doc &d = g_docs[w.doc];
    QByteArray in;
    std::string mutDesc;
    if (w.mut < 0) { in = w.wrap ? render(wrapped(g_nodes[w.doc], w.wrap)) : d.xml; st->counters[C_KIND0 - 1]++; if (w.wrap) { mutDesc = std::string("wrapped-in:") + wrapName(w.wrap); st->counters[C_WRAPPED]++; } }
    else {
        vh::Rng rng(g_cfg.seed * 1000003ull + uint64_t(w.doc) * 7919ull + uint64_t(w.mut + 1) * 104729ull + 17);
        Node n = g_nodes[w.doc];
        bool quick = g_cfg.tier == "quick";
        MutCtx ctx { rng, &g_nodes, quick ? 48 : 160, quick ? 1000 : 10000, (quick && rng.below(4)) ? (1 << 16) : (1 << 20) };
        int kind = w.kind, applied = -1;
        for (int tries = 0; tries < M_KINDS && mutDesc.empty(); tries++, kind = (kind + 1) % M_KINDS) {
            mutDesc = mutate(n, kind, ctx);
            if (mutDesc.empty()) st->counters[C_MUT_NOT_APPLICABLE]++;
            else { st->counters[C_KIND0 + kind]++; applied = kind; }
        }
        (void)applied;
        if (mutDesc.empty()) return;
        if (w.wrap && !isTopLevelKind(n)) { n = wrapped(n, w.wrap); mutDesc += std::string(";wrapped-in:") + wrapName(w.wrap); st->counters[C_WRAPPED]++; }
        in = render(n);
        printf("D %s\t%s\t%s\n", d.id.c_str(), mutDesc.c_str(), escLine(in, 4000).c_str());
        fflush(stdout);
    }
    QDomDocument doc;
    if (!doc.setContent(in, true) || doc.documentElement().isNull()) { st->counters[C_INPUT_NOT_WF]++; return; }
    st->counters[C_ITEMS]++;
    int budget = d.id.rfind("t-", 0) == 0 ? 900 : g_cfg.cpuBudget;
    TestClient c;
    st->counters[C_EXTENSIONS] = c.extensionCount();
    if (!c.goOnline(server)) { st->counters[C_CONNECT_FAILED]++; return; }
    int from = c.sent.size();
    long long t0 = cpuMicros();
    arm(budget);
    if (w.mode == 0) {
        st->phase = PH_FEED;
        guarded("session", d.id, mutDesc, in, st, [&] { c.feedDirect(doc.documentElement()); });
        st->counters[C_FED_DIRECT]++;
    } else {
        st->phase = PH_EVENTS;
        guarded("session", d.id, mutDesc, in, st, [&] { c.feedSocket(in); });
        st->counters[C_FED_SOCKET]++;
    }
    disarm();
    long long ms = (cpuMicros() - t0) / 1000;
    if (ms > st->counters[C_MAX_CALL_MS]) st->counters[C_MAX_CALL_MS] = ms;
    if (!c.online()) st->counters[C_DROPPED]++;
    st->counters[C_ERRORS_SIGNALLED] += c.nErr;
    st->counters[C_MSG_SIGNALS] += c.nMsg; st->counters[C_PRES_SIGNALS] += c.nPres; st->counters[C_IQ_SIGNALS] += c.nIq;
    account(c, st, d.id, mutDesc, in, from);
    if (samplesLeft > 0 && c.sent.size() > from && w.mut >= 0) {
        samplesLeft--;
        printf("X fed doc=%s mut=%s in=%s -> client sent %s\n", d.id.c_str(), mutDesc.c_str(), escLine(in, 300).c_str(), escLine(c.sent[from].toUtf8(), 300).c_str());
    }
    st->phase = PH_EVENTS;
    arm(g_cfg.cpuBudget);
    // tear-down is part of the experiment (destructors of every manager with pending state)
}

int main(int argc, char **argv)
{
    QCoreApplication app(argc, argv);
    vh::Args a = vh::parseArgs(argc, argv);
    g_cfg.tier = a.tier; g_cfg.seed = a.seed;
    if (const char *e = getenv("VERIF_WORKERS")) g_cfg.workers = atoi(e);
    for (int i = 1; i < argc; i++) {
        std::string s = argv[i];
        auto next = [&]() -> std::string { return i + 1 < argc ? argv[++i] : ""; };
        if (s == "--workers") g_cfg.workers = atoi(next().c_str());
        else if (s == "--docs") g_cfg.docs = next();
        else if (s == "--per-doc") g_cfg.perDoc = atoi(next().c_str());
        else if (s == "--no-mutations") g_cfg.mutations = false;
        else if (s == "--no-negotiation") g_cfg.nego = false;
        else if (s == "--state") g_cfg.state = next();
        else if (s == "--cpu-budget") g_cfg.cpuBudget = atoi(next().c_str());
    }
    g_cfg.workers = std::max(1, std::min(32, g_cfg.workers));
    bool quick = g_cfg.tier == "quick";
    if (g_cfg.perDoc < 0) g_cfg.perDoc = quick ? 4 : 40;

    std::string root = verifRoot();
    auto regress = loadCorpusFile(root + "/corpus/c02_regress_client.txt");
    auto corpus = loadCorpusFile(root + "/corpus/test_xml.txt");
    if (corpus.empty()) { fprintf(stderr, "corpus %s/corpus/test_xml.txt missing or empty (run tools/extract_corpus.py)\n", root.c_str()); return 3; }
    long rejected = 0;
    auto add = [&](const std::vector<Doc> &v, bool raw) {
        for (auto &d : v) {
            if (!g_cfg.docs.empty() && d.id.find(g_cfg.docs) == std::string::npos) continue;
            QDomDocument doc;
            if (!doc.setContent(d.xml, true) || doc.documentElement().isNull()) { rejected++; continue; }
            if (raw) {   // regress documents are fed verbatim and never mutated (they may be thousands of levels deep)
                Summary s = summarizeElement(doc.documentElement());
                safeClear(doc, s.maxDepth);
                g_docs.push_back(d); g_nodes.push_back(Node());
                continue;
            }
            Node n = nodeFromDom(doc.documentElement());
            // a received top-level element lives in the stream's default namespace
            if (n.ns.isEmpty() && n.prefix.isEmpty()) {
                std::function<void(Node &)> rec = [&](Node &x) { if (x.isText) return; if (x.ns.isEmpty() && x.prefix.isEmpty()) { x.ns = QStringLiteral("jabber:client"); for (auto &k : x.kids) rec(k); } };
                rec(n);
            }
            g_docs.push_back({ d.id, render(n) });
            g_nodes.push_back(n);
        }
    };
    add(regress, true); g_nRegress = g_docs.size();
    add(corpus, false);

    std::vector<Work> work;
    auto thoroughOnly = [&](size_t i) { return quick && g_docs[i].id.rfind("t-", 0) == 0; };   // expensive regress documents
    for (size_t i = 0; i < g_docs.size(); i++) if (!thoroughOnly(i) && g_docs[i].id.rfind("t-", 0) != 0) work.push_back({ int(i), -1, -1, 0 });   // expensive ones: socket mode only
    for (size_t i = 0; i < g_docs.size(); i++) if (!thoroughOnly(i)) work.push_back({ int(i), -1, -1, 1 });
    for (size_t i = 0; i < g_docs.size(); i++)
        if (i >= g_nRegress && !isTopLevelKind(g_nodes[i])) for (int wr = 1; wr <= WRAPS; wr++) work.push_back({ int(i), -1, -1, 0, wr });
    const int chunk = 60;
    for (size_t i = g_nRegress; i < g_docs.size(); i += chunk) work.push_back({ int(i), chunk, -1, 2 });
    if (g_cfg.mutations) {
        std::vector<int> cheap, heavy;
        for (int k = 0; k < M_KINDS; k++) ((k == M_ATTR_LONG || k == M_TEXT_LONG || k == M_WIDE || k == M_DEEP) ? heavy : cheap).push_back(k);
        size_t g = size_t(g_cfg.seed % cheap.size());
        for (int m = 0; m < g_cfg.perDoc; m++)
            for (size_t i = g_nRegress; i < g_docs.size(); i++) work.push_back({ int(i), m, cheap[(g++) % cheap.size()], (!quick && m % 4 == 3) ? 1 : 0, int(1 + (i + size_t(m)) % WRAPS) });
        vh::Rng hr(g_cfg.seed * 77773ull + 9);
        int quota = quick ? 10 : 120;
        for (int k : heavy)
            for (int q = 0; q < quota; q++) work.push_back({ int(g_nRegress + hr.below(uint32_t(g_docs.size() - g_nRegress))), 1000 + q, k, q % 2 });
    }
    // ---- negotiation-state feeding: every listener state x (the negotiation protocols' own elements in all variants, seeded mutants of
    // them, a sample of the corpus)
    size_t negoBegin = g_docs.size();
    for (auto &d : negotiationDocs()) {
        if (!g_cfg.docs.empty() && d.id.find(g_cfg.docs) == std::string::npos) continue;
        QDomDocument doc;
        if (!doc.setContent(d.xml, true) || doc.documentElement().isNull()) { rejected++; fprintf(stderr, "negotiation document %s is not well-formed\n", d.id.c_str()); continue; }
        g_docs.push_back(d);
        g_nodes.push_back(nodeFromDom(doc.documentElement()));
    }
    size_t negoEnd = g_docs.size();
    long negoItems = 0;
    if (g_cfg.nego) {
        vh::Rng nr(g_cfg.seed * 424243ull + 11);
        for (size_t stI = 0; stI < negStates().size(); stI++) {
            if (!g_cfg.state.empty() && negStates()[stI].name.find(g_cfg.state) == std::string::npos) continue;
            for (size_t i = negoBegin; i < negoEnd; i++) { work.push_back({ int(i), -1, -1, 3, int(stI) }); negoItems++; }
            int mutants = !g_cfg.mutations ? 0 : quick ? 40 : 400;
            for (int m = 0; m < mutants && negoEnd > negoBegin; m++) { work.push_back({ int(negoBegin + nr.below(uint32_t(negoEnd - negoBegin))), m, int(nr.below(M_KINDS)), 3, int(stI) }); negoItems++; }
            size_t step = quick ? 12 : 3;
            for (size_t i = g_nRegress + (g_cfg.seed + stI) % step; i < negoBegin; i += step) { work.push_back({ int(i), -1, -1, 3, int(stI) }); negoItems++; }
        }
    }
    const int batchSize = 40;
    int nBatches = int((work.size() + batchSize - 1) / batchSize);

    Pool pool;
    pool.workers = g_cfg.workers;
    // one work directory per run: several checks (C01 and C02 both use this harness) may run at the same time
    ::mkdir((root + "/.build/harness/clientfeed.work").c_str(), 0755);
    pool.workDir = root + "/.build/harness/clientfeed.work/" + std::to_string(getpid());
    pool.tag = "c";
    pool.init();
    std::map<std::string, long> failCount;
    long suppressed = 0, crashes = 0;
    int xLeft = 6;
    QElapsedTimer wall; wall.start();

    auto childFn = [&](int batch, int resumeItem, int resumeSub, Status *st) {
        QTcpServer server;
        if (!server.listen(QHostAddress::LocalHost, 0)) { printf("O FAIL C02:harness:cannot-listen\tloopback server\n"); return; }
        int samplesLeft = batch % 9 == 2 ? 1 : 0;
        size_t lo = size_t(batch) * batchSize, hi = std::min(work.size(), lo + batchSize);
        for (size_t k = lo; k < hi; k++) {
            int idx = int(k - lo);
            // a crashed item is never retried; a long-lived chunk continues behind the document that killed it
            if (idx < resumeItem || (idx == resumeItem && work[k].mode != 2)) continue;
            runItem(work[k], idx, st, server, samplesLeft, idx == resumeItem ? resumeSub : -1);
            disarm();
        }
    };
    auto onResult = [&](const ChildResult &r, const QByteArray &out) {
        QByteArray lastD;
        for (const QByteArray &line : out.split('\n')) {
            if (line.startsWith("O FAIL ")) {
                int t = line.indexOf('\t');
                std::string key = line.mid(7, t < 0 ? -1 : t - 7).toStdString();
                if (++failCount[key] <= 3) { fwrite(line.constData(), 1, line.size(), stdout); fputc('\n', stdout); }
                else suppressed++;
            } else if (line.startsWith("X ")) {
                if (xLeft > 0) { xLeft--; fwrite(line.constData(), 1, line.size(), stdout); fputc('\n', stdout); }
            } else if (line.startsWith("D ")) lastD = line.mid(2);
        }
        if (r.crashed) {
            crashes++;
            size_t k = size_t(r.batch) * batchSize + size_t(std::max(0, r.item));
            const Work *w = k < work.size() ? &work[k] : nullptr;
            std::string what = classifyCrash(r);
            if (r.signal == SIGVTALRM) what = "timeout";
            std::string docId = "?", xml, kind = "none";
            if (w) {
                int di = w->mode == 2 ? r.parser : w->doc;
                if (di >= 0 && di < int(g_docs.size())) { docId = g_docs[di].id; xml = escLine(g_docs[di].xml, 1200); }
                if (w->mode != 2 && w->mut >= 0) kind = mutName(w->kind);
            }
            bool inClient = r.phase == PH_FEED || r.phase == PH_EVENTS;
            if (w && w->mode == 3) what = negStates()[w->wrap].name + ":" + what;
            std::string key = inClient ? "C02:client-crash:" + what : "C02:harness:" + std::string(phaseName(r.phase)) + ":" + what;
            printf("I client %s work=%zu mode=%s kind=%s phase=%s\n", docId.c_str(), k, w ? (w->mode == 0 ? "direct" : w->mode == 1 ? "socket" : "long-lived") : "?", kind.c_str(), phaseName(r.phase));
            std::string tail = r.errText;
            auto sp = tail.find("SUMMARY:");
            std::string summary = sp == std::string::npos ? "" : tail.substr(sp, tail.find('\n', sp) - sp);
            auto ep = tail.find("ERROR: ");
            if (ep == std::string::npos) ep = tail.find("runtime error: ");
            std::string first = ep == std::string::npos ? "" : tail.substr(ep, tail.find('\n', ep) - ep);
            if (++failCount[key] <= 3)
                printf("O FAIL %s\tdoc=%s work=%zu seed=%llu mode=%s kind=%s phase=%s exit=%d signal=%d %s | %s | base-document=%s | exact-input(id,mutation,xml)=%s | child-output=%s\n",
                       key.c_str(), docId.c_str(), k, (unsigned long long)g_cfg.seed, w ? (w->mode == 0 ? "direct" : w->mode == 1 ? "socket" : "long-lived") : "?", kind.c_str(), phaseName(r.phase),
                       r.exitCode, r.signal, escLine(QByteArray::fromStdString(first), 300).c_str(), escLine(QByteArray::fromStdString(summary), 300).c_str(), xml.c_str(),
                       (w && (w->mode == 3 || (w->mode != 2 && w->mut >= 0))) ? lastD.constData() : "", r.outPath.c_str());
            else suppressed++;
        }
        fflush(stdout);
    };
    pool.run(nBatches, childFn, onResult);

    long long *T = pool.totals;
    vh::oraclePass() = T[C_PASS] + T[C_ITEMS] + T[C_LONGLIVED_FED];   // every fed element that came back alive + every sent packet that parsed
    vh::stat("extensions_installed", T[C_EXTENSIONS]);
    vh::stat("documents", long(g_docs.size()));
    vh::stat("documents_regress", long(g_nRegress));
    vh::stat("corpus_rejected_by_qdom", rejected);
    vh::stat("work_items", long(work.size()));
    vh::stat("clients_created", T[C_ITEMS]);
    vh::stat("fed_direct", T[C_FED_DIRECT]);
    vh::stat("fed_through_socket", T[C_FED_SOCKET]);
    vh::stat("fed_long_lived_client", T[C_LONGLIVED_FED]);
    vh::stat("fed_wrapped_in_a_stanza", T[C_WRAPPED]);
    vh::stat("negotiation_states", long(negStates().size()));
    vh::stat("negotiation_protocol_documents", long(negoEnd - negoBegin));
    vh::stat("negotiation_work_items", negoItems);
    vh::stat("fed_in_negotiation_state", T[C_NEGO_FED]);
    vh::stat("negotiation_state_not_reached", T[C_NEGO_STATE_NOT_REACHED]);
    vh::stat("negotiation_step_ended_by_element", T[C_NEGO_FINISHED]);
    vh::stat("exceptions_escaped", T[C_EXCEPTIONS]);
    for (size_t i = 0; i < negStates().size(); i++) vh::stat("fed_in_state:" + negStates()[i].name, T[C_NEGO_STATE0 + i]);
    vh::stat("packets_sent_in_reaction", T[C_SENT]);
    vh::stat("packets_sent_bytes", T[C_SENT_BYTES]);
    vh::stat("sent_iq_errors", T[C_SENT_IQ_ERRORS]);
    vh::stat("sent_iq_results", T[C_SENT_IQ_RESULTS]);
    vh::stat("sent_packets_checked_wellformed", T[C_SENT_CHECKED]);
    vh::stat("clients_that_dropped_the_connection", T[C_DROPPED]);
    vh::stat("errorOccurred_signals", T[C_ERRORS_SIGNALLED]);
    vh::stat("messageReceived_signals", T[C_MSG_SIGNALS]);
    vh::stat("presenceReceived_signals", T[C_PRES_SIGNALS]);
    vh::stat("iqReceived_signals", T[C_IQ_SIGNALS]);
    vh::stat("connect_failed", T[C_CONNECT_FAILED]);
    vh::stat("inputs_not_wellformed", T[C_INPUT_NOT_WF]);
    vh::stat("mutation_kind_not_applicable", T[C_MUT_NOT_APPLICABLE]);
    vh::stat("oracle_failures", T[C_FAIL]);
    vh::stat("child_crashes", crashes);
    vh::stat("crash_storms", pool.crashStorms);
    vh::stat("fail_lines_suppressed", suppressed);
    vh::stat("max_feed_cpu_ms", T[C_MAX_CALL_MS]);
    vh::stat("workers", g_cfg.workers);
    vh::stat("wall_ms", wall.elapsed());
    vh::stat("kind:unmutated", T[C_KIND0 - 1]);
    for (int k = 0; k < M_KINDS; k++) vh::stat(std::string("kind:") + mutName(k), T[C_KIND0 + k]);
    for (auto &kv : failCount) vh::stat("failcount:" + kv.first, kv.second);
    if (T[C_CONNECT_FAILED]) printf("O FAIL C02:harness:loopback-connect-failed\t%lld clients could not be brought online\n", T[C_CONNECT_FAILED]);
    if (pool.crashStorms) printf("O FAIL C02:harness:crash-storm\t%d batches abandoned after too many child crashes\n", pool.crashStorms);
    if (crashes == 0) {   // crashed batches keep their output for diagnosis
        std::string cmd = "rm -rf '" + pool.workDir + "'";
        if (system(cmd.c_str()) != 0) { /* best effort */ }
    }
    vh::finish();
    return 0;
}
