// C02 (runtime half): a connected client with every bundled extension installed receives every corpus document and its
// mutations as a top-level stream element.
//
// The client (class TestClient, friend of QXmppClient / QXmppOutgoingClient) is really connected: its socket talks to a loopback
// QTcpServer owned by the harness, the stream is started, the session is opened through QXmppOutgoingClient::openSession() (so
// every manager ran its on-connect code: roster request, carbons, MIX/bookmark/blocklist queries, initial presence) and stream
// management is enabled. Own JID romeo@montague.example/orchard.
//   mode "direct": the element is handed to QXmppOutgoingClient::handlePacketReceived(QDomElement) (what the socket's stanzaReceived
//                  signal is connected to), as TestClient::inject does in the test-suite;
//   mode "socket": the element's text is written by the server side of the loopback connection, so XmppSocket::processData
//                  (buffering, stream wrapping, QDom parse) runs too.
// A fresh client per document; additionally one long-lived client receives all unmutated documents in a row (stateful managers).
// Oracles: terminates within the CPU budget, no sanitizer report, process alive (all via the fork pool of c02_common.h), and
//   C02:client-sent-not-wellformed     something the client sent in reaction is not a well-formed element
//   C02:client-crash:<what>            sanitizer report / signal / timeout while the client processed the element
// Statistics: documents fed, replies sent, IQ error replies, clients that dropped the connection, signals observed.
//
// usage: clientfeed --tier quick|thorough --seed N [--workers N] [--docs substr] [--per-doc K] [--no-mutations]
#include "c02_common.h"

#include "QXmppAccountMigrationManager.h"
#include "QXmppArchiveManager.h"
#include "QXmppAtmManager.h"
#include "QXmppAtmTrustMemoryStorage.h"
#include "QXmppAttentionManager.h"
#include "QXmppBlockingManager.h"
#include "QXmppBookmarkManager.h"
#include "QXmppCallInviteManager.h"
#include "QXmppCarbonManager.h"
#include "QXmppCarbonManagerV2.h"
#include "QXmppClient.h"
#include "QXmppClientExtension.h"
#include "QXmppClient_p.h"
#include "QXmppConfiguration.h"
#include "QXmppDiscoveryManager.h"
#include "QXmppEntityTimeManager.h"
#include "QXmppExternalServiceDiscoveryManager.h"
#include "QXmppFileSharingManager.h"
#include "QXmppHttpUploadManager.h"
#include "QXmppJingleMessageInitiationManager.h"
#include "QXmppLogger.h"
#include "QXmppMamManager.h"
#include "QXmppMessageReceiptManager.h"
#include "QXmppMixManager.h"
#include "QXmppMovedManager.h"
#include "QXmppMucManager.h"
#include "QXmppOutgoingClient.h"
#include "QXmppOutgoingClient_p.h"
#include "QXmppPubSubManager.h"
#include "QXmppRegistrationManager.h"
#include "QXmppRosterManager.h"
#include "QXmppRpcManager.h"
#include "QXmppTransferManager.h"
#include "QXmppUploadRequestManager.h"
#include "QXmppUserLocationManager.h"
#include "QXmppUserTuneManager.h"
#include "QXmppVCardManager.h"
#include "QXmppVersionManager.h"
#include "XmppSocket.h"

#include <QCoreApplication>
#include <QElapsedTimer>
#include <QTcpServer>
#include <QSslSocket>
#include <QTcpSocket>
#include <set>
#include <time.h>

using namespace c02;
using namespace QXmpp::Private;

enum {
    C_MAX_CALL_MS = 0, C_EXTENSIONS = 1,
    C_ITEMS = 8, C_FED_DIRECT, C_FED_SOCKET, C_SENT, C_SENT_BYTES, C_SENT_IQ_ERRORS, C_SENT_IQ_RESULTS, C_SENT_CHECKED, C_DROPPED, C_ERRORS_SIGNALLED, C_MSG_SIGNALS, C_PRES_SIGNALS, C_IQ_SIGNALS,
    C_CONNECT_FAILED, C_PASS, C_FAIL, C_MUT_NOT_APPLICABLE, C_INPUT_NOT_WF, C_LONGLIVED_FED, C_WRAPPED,
    C_KIND0 = 40,
};

struct Cfg {
    std::string tier = "quick";
    uint64_t seed = 1;
    int workers = 16;
    int perDoc = -1;
    bool mutations = true;
    std::string docs;
    int cpuBudget = 20;
};
static Cfg g_cfg;
static std::vector<Doc> g_docs;
static std::vector<Node> g_nodes;
static size_t g_nRegress = 0;

static long long cpuMicros()
{
    timespec ts;
    clock_gettime(CLOCK_PROCESS_CPUTIME_ID, &ts);
    return (long long)ts.tv_sec * 1000000ll + ts.tv_nsec / 1000;
}
__attribute__((noinline)) static void dirtyStack()   // see parsers.cpp
{
    unsigned char pad[64 * 1024];
    memset(pad, 0xAB, sizeof pad);
    __asm__ volatile("" ::"r"(pad) : "memory");
}
static void arm(int cpuSec)
{
    itimerval it {}; it.it_value.tv_sec = cpuSec;
    setitimer(ITIMER_VIRTUAL, &it, nullptr);
    alarm(unsigned(cpuSec) * 6);
}
static void disarm()
{
    itimerval it {};
    setitimer(ITIMER_VIRTUAL, &it, nullptr);
    alarm(0);
}

// ------------------------------------------------------------------------------------------------ the client
class TestClient : public QXmppClient
{
public:
    TestClient()
    {
        QXmppStanza::s_uniqeIdNo = 0;
        logger()->setLoggingType(QXmppLogger::SignalLogging);
        QObject::connect(logger(), &QXmppLogger::message, this, [this](QXmppLogger::MessageType type, const QString &text) {
            if (type == QXmppLogger::SentMessage) sent << text;
        });
        QObject::connect(this, &QXmppClient::messageReceived, this, [this](const QXmppMessage &) { nMsg++; });
        QObject::connect(this, &QXmppClient::presenceReceived, this, [this](const QXmppPresence &) { nPres++; });
        QObject::connect(this, &QXmppClient::iqReceived, this, [this](const QXmppIq &) { nIq++; });
        QObject::connect(this, &QXmppClient::errorOccurred, this, [this](const QXmppError &) { nErr++; });

        configuration().setJid(QStringLiteral("romeo@montague.example/orchard"));
        configuration().setPassword(QStringLiteral("secret"));
        configuration().setAutoReconnectionEnabled(false);
        configuration().setStreamSecurityMode(QXmppConfiguration::TLSDisabled);

        // every bundled extension that needs no external service (the 5 basic ones are installed by the QXmppClient constructor)
        addNewExtension<QXmppPubSubManager>();
        addNewExtension<QXmppCarbonManagerV2>();
        addNewExtension<QXmppCarbonManager>();
        addNewExtension<QXmppAccountMigrationManager>();
        addNewExtension<QXmppArchiveManager>();
        trustStorage = std::make_unique<QXmppAtmTrustMemoryStorage>();
        addNewExtension<QXmppAtmManager>(trustStorage.get());
        addNewExtension<QXmppAttentionManager>();
        addNewExtension<QXmppBlockingManager>();
        addNewExtension<QXmppBookmarkManager>();
        addNewExtension<QXmppCallInviteManager>();
        addNewExtension<QXmppExternalServiceDiscoveryManager>();
        addNewExtension<QXmppUploadRequestManager>();
        addNewExtension<QXmppHttpUploadManager>();
        addNewExtension<QXmppFileSharingManager>();
        addNewExtension<QXmppJingleMessageInitiationManager>();
        addNewExtension<QXmppMamManager>();
        addNewExtension<QXmppMessageReceiptManager>();
        addNewExtension<QXmppMixManager>();
        addNewExtension<QXmppMovedManager>();
        addNewExtension<QXmppMucManager>();
        addNewExtension<QXmppRegistrationManager>();
        addNewExtension<QXmppRpcManager>();
        addNewExtension<QXmppTransferManager>();
        addNewExtension<QXmppUserLocationManager>();
        addNewExtension<QXmppUserTuneManager>();
    }

    int extensionCount() { return extensions().size(); }

    // connect the real socket to the harness's loopback server, start the stream, open the session
    bool goOnline(QTcpServer &server)
    {
        auto *out = d->stream;
        out->d->socket.connectToHost(ServerAddress { ServerAddress::Tcp, QStringLiteral("127.0.0.1"), server.serverPort() });
        QElapsedTimer t; t.start();
        while ((!out->d->socket.isConnected() || !server.hasPendingConnections()) && t.elapsed() < 5000) QCoreApplication::processEvents(QEventLoop::AllEvents, 20);
        if (!out->d->socket.isConnected() || !server.hasPendingConnections()) return false;
        peer.reset(server.nextPendingConnection());
        QObject::connect(peer.get(), &QTcpSocket::readyRead, peer.get(), [this] { serverReceived += peer->readAll().size(); });
        // server's stream header (as received text, so the socket layer caches it for wrapping later stanzas)
        peer->write("<?xml version='1.0'?><stream:stream xmlns='jabber:client' xmlns:stream='http://etherx.jabber.org/streams' id='s1' from='montague.example' version='1.0' xml:lang='en'>");
        peer->flush();
        pump(3);
        out->d->isAuthenticated = true;
        out->enableStreamManagement(true);
        if (!out->d->sessionStarted) out->openSession();
        pump(3);
        return out->isConnected();
    }
    void pump(int rounds)
    {
        for (int i = 0; i < rounds; i++) {
            QCoreApplication::sendPostedEvents();
            QCoreApplication::processEvents(QEventLoop::AllEvents, 1);
        }
    }
    void feedDirect(const QDomElement &e)
    {
        dirtyStack();
        d->stream->handlePacketReceived(e);
        pump(3);
    }
    void feedSocket(const QByteArray &xml)
    {
        peer->write(xml);
        peer->flush();
        QElapsedTimer t; t.start();
        // until the client side consumed everything (or 2 s wall)
        for (int idle = 0; idle < 3 && t.elapsed() < 2000;) {
            pump(2);
            auto *sock = d->stream->d->socket.socket();
            if (peer->bytesToWrite() == 0 && (!sock || sock->bytesAvailable() == 0)) idle++; else idle = 0;
        }
    }
    bool online() { return d->stream->isConnected(); }

    QStringList sent;
    long nMsg = 0, nPres = 0, nIq = 0, nErr = 0;
    long serverReceived = 0;
    std::unique_ptr<QTcpSocket> peer;
    std::unique_ptr<QXmppAtmTrustMemoryStorage> trustStorage;
};

static bool sentIsWellFormed(const QString &text)
{
    if (text.startsWith(u"<?xml") || text.startsWith(u"<stream:stream") || text == u"</stream:stream>" || text.trimmed().isEmpty()) return true;
    QDomDocument doc;
    QString wrapped = QStringLiteral("<stream:stream xmlns='jabber:client' xmlns:stream='http://etherx.jabber.org/streams'>") + text + QStringLiteral("</stream:stream>");
    return doc.setContent(wrapped, true);
}

struct Work { int doc; int mut; int kind; int mode; int wrap = 0; };   // mode 0 direct, 1 socket, 2 long-lived (doc = first index, mut = count)

// Corpus documents that are payloads (data forms, jingle contents, pubsub items, ...) are also delivered inside a stanza, the way a
// peer would send them: wrap 1 message, 2 presence, 3 iq-get, 4 iq-set, 5 iq-result, 6 iq-error
static const int WRAPS = 6;
static bool isTopLevelKind(const Node &n)
{
    if (n.ns == u"jabber:client") return n.local == u"message" || n.local == u"presence" || n.local == u"iq";
    return n.ns == u"http://etherx.jabber.org/streams" || n.ns == u"urn:xmpp:sm:3" || n.ns == u"urn:ietf:params:xml:ns:xmpp-sasl" || n.ns == u"urn:xmpp:sasl:2" ||
        n.ns == u"urn:ietf:params:xml:ns:xmpp-tls";
}
static const char *wrapName(int w) { static const char *n[] = { "none", "message", "presence", "iq-get", "iq-set", "iq-result", "iq-error" }; return n[w]; }
static Node wrapped(const Node &payload, int wrap)
{
    Node r;
    r.ns = QStringLiteral("jabber:client");
    r.local = wrap == 1 ? QStringLiteral("message") : wrap == 2 ? QStringLiteral("presence") : QStringLiteral("iq");
    auto at = [&](const char *k, const char *v) { r.attrs.push_back({ QString(), QString::fromUtf8(k), QString(), QString::fromUtf8(v) }); };
    at("from", wrap == 2 ? "juliet@capulet.example/balcony" : "juliet@capulet.example/balcony");
    at("to", "romeo@montague.example/orchard");
    at("id", "w1");
    if (wrap == 1) at("type", "chat");
    if (wrap >= 3) at("type", wrap == 3 ? "get" : wrap == 4 ? "set" : wrap == 5 ? "result" : "error");
    r.kids.push_back(payload);
    return r;
}

static void account(TestClient &c, Status *st, const std::string &docId, const std::string &mutDesc, const QByteArray &in, int from)
{
    for (int i = from; i < c.sent.size(); i++) {
        const QString &s = c.sent[i];
        st->counters[C_SENT]++; st->counters[C_SENT_BYTES] += s.size();
        if (s.startsWith(u"<iq") && s.contains(u"type=\"error\"")) st->counters[C_SENT_IQ_ERRORS]++;
        if (s.startsWith(u"<iq") && s.contains(u"type=\"result\"")) st->counters[C_SENT_IQ_RESULTS]++;
        st->counters[C_SENT_CHECKED]++;
        if (!sentIsWellFormed(s)) {
            printf("O FAIL C02:client-sent-not-wellformed\tdoc=%s mut=%s in=%s sent=%s\n", docId.c_str(), mutDesc.empty() ? "none" : mutDesc.c_str(), escLine(in, 1500).c_str(), escLine(s.toUtf8(), 1200).c_str());
            fflush(stdout);
            st->counters[C_FAIL]++;
        } else st->counters[C_PASS]++;
    }
}

static void runItem(const Work &w, int itemIdx, Status *st, QTcpServer &server, int &samplesLeft, int skipUpToDoc)
{
    st->item = itemIdx; st->parser = -1; st->phase = PH_PREP;
    if (w.mode == 2) {
        // one long-lived client, all unmutated documents of [doc, doc+mut) in a row
        TestClient c;
        if (!c.goOnline(server)) { st->counters[C_CONNECT_FAILED]++; return; }
        for (int i = std::max(w.doc, skipUpToDoc + 1); i < w.doc + w.mut && i < int(g_docs.size()); i++) {
            QDomDocument d;
            if (!d.setContent(g_docs[i].xml, true)) continue;
            st->parser = i; st->phase = PH_FEED;
            int from = c.sent.size();
            long long t0 = cpuMicros();
            arm(g_cfg.cpuBudget);
            if (c.online()) c.feedDirect(d.documentElement());
            else { disarm(); if (!c.goOnline(server)) break; arm(g_cfg.cpuBudget); c.feedDirect(d.documentElement()); st->counters[C_DROPPED]++; }
            disarm();
            long long ms = (cpuMicros() - t0) / 1000;
            if (ms > st->counters[C_MAX_CALL_MS]) st->counters[C_MAX_CALL_MS] = ms;
            st->counters[C_LONGLIVED_FED]++;
            account(c, st, g_docs[i].id + "(long-lived client)", "", g_docs[i].xml, from);
        }
        st->phase = PH_PREP;
        return;
    }
    const Doc &d = g_docs[w.doc];
    QByteArray in;
    std::string mutDesc;
    if (w.mut < 0) { in = w.wrap ? render(wrapped(g_nodes[w.doc], w.wrap)) : d.xml; st->counters[C_KIND0 - 1]++; if (w.wrap) { mutDesc = std::string("wrapped-in:") + wrapName(w.wrap); st->counters[C_WRAPPED]++; } }
    else {
        vh::Rng rng(g_cfg.seed * 1000003ull + uint64_t(w.doc) * 7919ull + uint64_t(w.mut + 1) * 104729ull + 17);
        Node n = g_nodes[w.doc];
        bool quick = g_cfg.tier == "quick";
        MutCtx ctx { rng, &g_nodes, quick ? 48 : 160, quick ? 1000 : 10000, (quick && rng.below(4)) ? (1 << 16) : (1 << 20) };
        int kind = w.kind, applied = -1;
        for (int tries = 0; tries < M_KINDS && mutDesc.empty(); tries++, kind = (kind + 1) % M_KINDS) {
            mutDesc = mutate(n, kind, ctx);
            if (mutDesc.empty()) st->counters[C_MUT_NOT_APPLICABLE]++;
            else { st->counters[C_KIND0 + kind]++; applied = kind; }
        }
        (void)applied;
        if (mutDesc.empty()) return;
        if (w.wrap && !isTopLevelKind(n)) { n = wrapped(n, w.wrap); mutDesc += std::string(";wrapped-in:") + wrapName(w.wrap); st->counters[C_WRAPPED]++; }
        in = render(n);
        printf("D %s\t%s\t%s\n", d.id.c_str(), mutDesc.c_str(), escLine(in, 4000).c_str());
        fflush(stdout);
    }
    QDomDocument doc;
    if (!doc.setContent(in, true) || doc.documentElement().isNull()) { st->counters[C_INPUT_NOT_WF]++; return; }
    st->counters[C_ITEMS]++;
    int budget = d.id.rfind("t-", 0) == 0 ? 900 : g_cfg.cpuBudget;
    TestClient c;
    st->counters[C_EXTENSIONS] = c.extensionCount();
    if (!c.goOnline(server)) { st->counters[C_CONNECT_FAILED]++; return; }
    int from = c.sent.size();
    long long t0 = cpuMicros();
    arm(budget);
    if (w.mode == 0) {
        st->phase = PH_FEED;
        c.feedDirect(doc.documentElement());
        st->counters[C_FED_DIRECT]++;
    } else {
        st->phase = PH_EVENTS;
        c.feedSocket(in);
        st->counters[C_FED_SOCKET]++;
    }
    disarm();
    long long ms = (cpuMicros() - t0) / 1000;
    if (ms > st->counters[C_MAX_CALL_MS]) st->counters[C_MAX_CALL_MS] = ms;
    if (!c.online()) st->counters[C_DROPPED]++;
    st->counters[C_ERRORS_SIGNALLED] += c.nErr;
    st->counters[C_MSG_SIGNALS] += c.nMsg; st->counters[C_PRES_SIGNALS] += c.nPres; st->counters[C_IQ_SIGNALS] += c.nIq;
    account(c, st, d.id, mutDesc, in, from);
    if (samplesLeft > 0 && c.sent.size() > from && w.mut >= 0) {
        samplesLeft--;
        printf("X fed doc=%s mut=%s in=%s -> client sent %s\n", d.id.c_str(), mutDesc.c_str(), escLine(in, 300).c_str(), escLine(c.sent[from].toUtf8(), 300).c_str());
    }
    st->phase = PH_EVENTS;
    arm(g_cfg.cpuBudget);
    // tear-down is part of the experiment (destructors of every manager with pending state)
}

int main(int argc, char **argv)
{
    QCoreApplication app(argc, argv);
    vh::Args a = vh::parseArgs(argc, argv);
    g_cfg.tier = a.tier; g_cfg.seed = a.seed;
    if (const char *e = getenv("VERIF_WORKERS")) g_cfg.workers = atoi(e);
    for (int i = 1; i < argc; i++) {
        std::string s = argv[i];
        auto next = [&]() -> std::string { return i + 1 < argc ? argv[++i] : ""; };
        if (s == "--workers") g_cfg.workers = atoi(next().c_str());
        else if (s == "--docs") g_cfg.docs = next();
        else if (s == "--per-doc") g_cfg.perDoc = atoi(next().c_str());
        else if (s == "--no-mutations") g_cfg.mutations = false;
        else if (s == "--cpu-budget") g_cfg.cpuBudget = atoi(next().c_str());
    }
    g_cfg.workers = std::max(1, std::min(32, g_cfg.workers));
    bool quick = g_cfg.tier == "quick";
    if (g_cfg.perDoc < 0) g_cfg.perDoc = quick ? 4 : 40;

    std::string root = verifRoot();
    auto regress = loadCorpusFile(root + "/corpus/c02_regress_client.txt");
    auto corpus = loadCorpusFile(root + "/corpus/test_xml.txt");
    if (corpus.empty()) { fprintf(stderr, "corpus %s/corpus/test_xml.txt missing or empty (run tools/extract_corpus.py)\n", root.c_str()); return 3; }
    long rejected = 0;
    auto add = [&](const std::vector<Doc> &v, bool raw) {
        for (auto &d : v) {
            if (!g_cfg.docs.empty() && d.id.find(g_cfg.docs) == std::string::npos) continue;
            QDomDocument doc;
            if (!doc.setContent(d.xml, true) || doc.documentElement().isNull()) { rejected++; continue; }
            if (raw) {   // regress documents are fed verbatim and never mutated (they may be thousands of levels deep)
                Summary s = summarizeElement(doc.documentElement());
                safeClear(doc, s.maxDepth);
                g_docs.push_back(d); g_nodes.push_back(Node());
                continue;
            }
            Node n = nodeFromDom(doc.documentElement());
            // a received top-level element lives in the stream's default namespace
            if (n.ns.isEmpty() && n.prefix.isEmpty()) {
                std::function<void(Node &)> rec = [&](Node &x) { if (x.isText) return; if (x.ns.isEmpty() && x.prefix.isEmpty()) { x.ns = QStringLiteral("jabber:client"); for (auto &k : x.kids) rec(k); } };
                rec(n);
            }
            g_docs.push_back({ d.id, render(n) });
            g_nodes.push_back(n);
        }
    };
    add(regress, true); g_nRegress = g_docs.size();
    add(corpus, false);

    std::vector<Work> work;
    auto thoroughOnly = [&](size_t i) { return quick && g_docs[i].id.rfind("t-", 0) == 0; };   // expensive regress documents
    for (size_t i = 0; i < g_docs.size(); i++) if (!thoroughOnly(i) && g_docs[i].id.rfind("t-", 0) != 0) work.push_back({ int(i), -1, -1, 0 });   // expensive ones: socket mode only
    for (size_t i = 0; i < g_docs.size(); i++) if (!thoroughOnly(i)) work.push_back({ int(i), -1, -1, 1 });
    for (size_t i = 0; i < g_docs.size(); i++)
        if (i >= g_nRegress && !isTopLevelKind(g_nodes[i])) for (int wr = 1; wr <= WRAPS; wr++) work.push_back({ int(i), -1, -1, 0, wr });
    const int chunk = 60;
    for (size_t i = g_nRegress; i < g_docs.size(); i += chunk) work.push_back({ int(i), chunk, -1, 2 });
    if (g_cfg.mutations) {
        std::vector<int> cheap, heavy;
        for (int k = 0; k < M_KINDS; k++) ((k == M_ATTR_LONG || k == M_TEXT_LONG || k == M_WIDE || k == M_DEEP) ? heavy : cheap).push_back(k);
        size_t g = size_t(g_cfg.seed % cheap.size());
        for (int m = 0; m < g_cfg.perDoc; m++)
            for (size_t i = g_nRegress; i < g_docs.size(); i++) work.push_back({ int(i), m, cheap[(g++) % cheap.size()], (!quick && m % 4 == 3) ? 1 : 0, int(1 + (i + size_t(m)) % WRAPS) });
        vh::Rng hr(g_cfg.seed * 77773ull + 9);
        int quota = quick ? 10 : 120;
        for (int k : heavy)
            for (int q = 0; q < quota; q++) work.push_back({ int(g_nRegress + hr.below(uint32_t(g_docs.size() - g_nRegress))), 1000 + q, k, q % 2 });
    }
    const int batchSize = 40;
    int nBatches = int((work.size() + batchSize - 1) / batchSize);

    Pool pool;
    pool.workers = g_cfg.workers;
    // one work directory per run: several checks (C01 and C02 both use this harness) may run at the same time
    ::mkdir((root + "/.build/harness/clientfeed.work").c_str(), 0755);
    pool.workDir = root + "/.build/harness/clientfeed.work/" + std::to_string(getpid());
    pool.tag = "c";
    pool.init();
    std::map<std::string, long> failCount;
    long suppressed = 0, crashes = 0;
    int xLeft = 6;
    QElapsedTimer wall; wall.start();

    auto childFn = [&](int batch, int resumeItem, int resumeSub, Status *st) {
        QTcpServer server;
        if (!server.listen(QHostAddress::LocalHost, 0)) { printf("O FAIL C02:harness:cannot-listen\tloopback server\n"); return; }
        int samplesLeft = batch % 9 == 2 ? 1 : 0;
        size_t lo = size_t(batch) * batchSize, hi = std::min(work.size(), lo + batchSize);
        for (size_t k = lo; k < hi; k++) {
            int idx = int(k - lo);
            // a crashed item is never retried; a long-lived chunk continues behind the document that killed it
            if (idx < resumeItem || (idx == resumeItem && work[k].mode != 2)) continue;
            runItem(work[k], idx, st, server, samplesLeft, idx == resumeItem ? resumeSub : -1);
            disarm();
        }
    };
    auto onResult = [&](const ChildResult &r, const QByteArray &out) {
        QByteArray lastD;
        for (const QByteArray &line : out.split('\n')) {
            if (line.startsWith("O FAIL ")) {
                int t = line.indexOf('\t');
                std::string key = line.mid(7, t < 0 ? -1 : t - 7).toStdString();
                if (++failCount[key] <= 3) { fwrite(line.constData(), 1, line.size(), stdout); fputc('\n', stdout); }
                else suppressed++;
            } else if (line.startsWith("X ")) {
                if (xLeft > 0) { xLeft--; fwrite(line.constData(), 1, line.size(), stdout); fputc('\n', stdout); }
            } else if (line.startsWith("D ")) lastD = line.mid(2);
        }
        if (r.crashed) {
            crashes++;
            size_t k = size_t(r.batch) * batchSize + size_t(std::max(0, r.item));
            const Work *w = k < work.size() ? &work[k] : nullptr;
            std::string what = classifyCrash(r);
            if (r.signal == SIGVTALRM) what = "timeout";
            std::string docId = "?", xml, kind = "none";
            if (w) {
                int di = w->mode == 2 ? r.parser : w->doc;
                if (di >= 0 && di < int(g_docs.size())) { docId = g_docs[di].id; xml = escLine(g_docs[di].xml, 1200); }
                if (w->mode != 2 && w->mut >= 0) kind = mutName(w->kind);
            }
            bool inClient = r.phase == PH_FEED || r.phase == PH_EVENTS;
            std::string key = inClient ? "C02:client-crash:" + what : "C02:harness:" + std::string(phaseName(r.phase)) + ":" + what;
            printf("I client %s work=%zu mode=%s kind=%s phase=%s\n", docId.c_str(), k, w ? (w->mode == 0 ? "direct" : w->mode == 1 ? "socket" : "long-lived") : "?", kind.c_str(), phaseName(r.phase));
            std::string tail = r.errText;
            auto sp = tail.find("SUMMARY:");
            std::string summary = sp == std::string::npos ? "" : tail.substr(sp, tail.find('\n', sp) - sp);
            auto ep = tail.find("ERROR: ");
            if (ep == std::string::npos) ep = tail.find("runtime error: ");
            std::string first = ep == std::string::npos ? "" : tail.substr(ep, tail.find('\n', ep) - ep);
            if (++failCount[key] <= 3)
                printf("O FAIL %s\tdoc=%s work=%zu seed=%llu mode=%s kind=%s phase=%s exit=%d signal=%d %s | %s | base-document=%s | exact-input(id,mutation,xml)=%s | child-output=%s\n",
                       key.c_str(), docId.c_str(), k, (unsigned long long)g_cfg.seed, w ? (w->mode == 0 ? "direct" : w->mode == 1 ? "socket" : "long-lived") : "?", kind.c_str(), phaseName(r.phase),
                       r.exitCode, r.signal, escLine(QByteArray::fromStdString(first), 300).c_str(), escLine(QByteArray::fromStdString(summary), 300).c_str(), xml.c_str(),
                       (w && w->mode != 2 && w->mut >= 0) ? lastD.constData() : "", r.outPath.c_str());
            else suppressed++;
        }
        fflush(stdout);
    };
    pool.run(nBatches, childFn, onResult);

    long long *T = pool.totals;
    vh::oraclePass() = T[C_PASS] + T[C_ITEMS] + T[C_LONGLIVED_FED];   // every fed element that came back alive + every sent packet that parsed
    vh::stat("extensions_installed", T[C_EXTENSIONS]);
    vh::stat("documents", long(g_docs.size()));
    vh::stat("documents_regress", long(g_nRegress));
    vh::stat("corpus_rejected_by_qdom", rejected);
    vh::stat("work_items", long(work.size()));
    vh::stat("clients_created", T[C_ITEMS]);
    vh::stat("fed_direct", T[C_FED_DIRECT]);
    vh::stat("fed_through_socket", T[C_FED_SOCKET]);
    vh::stat("fed_long_lived_client", T[C_LONGLIVED_FED]);
    vh::stat("fed_wrapped_in_a_stanza", T[C_WRAPPED]);
    vh::stat("packets_sent_in_reaction", T[C_SENT]);
    vh::stat("packets_sent_bytes", T[C_SENT_BYTES]);
    vh::stat("sent_iq_errors", T[C_SENT_IQ_ERRORS]);
    vh::stat("sent_iq_results", T[C_SENT_IQ_RESULTS]);
    vh::stat("sent_packets_checked_wellformed", T[C_SENT_CHECKED]);
    vh::stat("clients_that_dropped_the_connection", T[C_DROPPED]);
    vh::stat("errorOccurred_signals", T[C_ERRORS_SIGNALLED]);
    vh::stat("messageReceived_signals", T[C_MSG_SIGNALS]);
    vh::stat("presenceReceived_signals", T[C_PRES_SIGNALS]);
    vh::stat("iqReceived_signals", T[C_IQ_SIGNALS]);
    vh::stat("connect_failed", T[C_CONNECT_FAILED]);
    vh::stat("inputs_not_wellformed", T[C_INPUT_NOT_WF]);
    vh::stat("mutation_kind_not_applicable", T[C_MUT_NOT_APPLICABLE]);
    vh::stat("oracle_failures", T[C_FAIL]);
    vh::stat("child_crashes", crashes);
    vh::stat("crash_storms", pool.crashStorms);
    vh::stat("fail_lines_suppressed", suppressed);
    vh::stat("max_feed_cpu_ms", T[C_MAX_CALL_MS]);
    vh::stat("workers", g_cfg.workers);
    vh::stat("wall_ms", wall.elapsed());
    vh::stat("kind:unmutated", T[C_KIND0 - 1]);
    for (int k = 0; k < M_KINDS; k++) vh::stat(std::string("kind:") + mutName(k), T[C_KIND0 + k]);
    for (auto &kv : failCount) vh::stat("failcount:" + kv.first, kv.second);
    if (T[C_CONNECT_FAILED]) printf("O FAIL C02:harness:loopback-connect-failed\t%lld clients could not be brought online\n", T[C_CONNECT_FAILED]);
    if (pool.crashStorms) printf("O FAIL C02:harness:crash-storm\t%d batches abandoned after too many child crashes\n", pool.crashStorms);
    if (crashes == 0) {   // crashed batches keep their output for diagnosis
        std::string cmd = "rm -rf '" + pool.workDir + "'";
        if (system(cmd.c_str()) != 0) { /* best effort */ }
    }
    vh::finish();
    return 0;
}
