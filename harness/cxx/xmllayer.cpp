// C01 tier A harness: the Lean model of Qt's XML text layer (lean/Qx/Xml/Tree.lean: escText, escAttr,
// render; lean/Qx/Xml/Parse.lean: unesc, parse, qdomView) against the real Qt 5.15 QXmlStreamWriter /
// QDomDocument and the qxmpp writer helpers of QXmppUtils_p.h.
//
// correspondence lines (C):
//   xml-esc-text / xml-esc-attr <hex s>  -> bytes QXmlStreamWriter::writeCharacters / writeAttribute produce   (byte-exact)
//   xml-unesc <hex x>                    -> what QDomDocument reads for the attribute value x                   (byte-exact)
//   xml-render <tree>                    -> bytes the real writer calls produce for that tree                   (byte-exact)
//   xml-render-parse <tree>              -> QDomDocument::setContent(bytes, true) of those bytes, canonical tree
//   xml-parse-plain <hex doc>            -> QDomDocument::setContent(bytes, false), canonical tree
//   xml-parse <hex doc>                  -> setContent(doc, true) for hand-written / mutated (malformed) documents
// oracle lines (O), independent of the Lean model:
//   C01:markup-injection:<where>   the element structure QDom recovers differs from the structure that was written
//   C01:text-layer-roundtrip       structure equal but a payload made of XML-legal characters came back different
#include "common.h"
#include "xmlcanon.h"
#include "QXmppUtils_p.h"
#include "QXmppElement.h"
#include "QXmppJingleIq.h"
#include "QXmppMessage.h"
#include <QCoreApplication>
#include <QDomDocument>
#include <QXmlStreamWriter>
#include <functional>

static inline QString operator"" _qs(const char16_t *str, size_t size) { return QString::fromUtf16(str, int(size)); }
using namespace vh;
using QXmpp::Private::writeOptionalXmlAttribute;
using QXmpp::Private::writeOptionalXmlTextElement;
using QXmpp::Private::writeXmlTextElement;

// ------------------------------------------------------------------ strings
static void app(QString &s, uint c) {
    if (c >= 0xD800 && c <= 0xDFFF) c = 0xFFFD;  // lone surrogates cannot come out of a UTF-8 decoder
    if (c < 0x10000) s += QChar(ushort(c));
    else { s += QChar(QChar::highSurrogate(c)); s += QChar(QChar::lowSurrogate(c)); }
}
static QString fromCps(std::initializer_list<uint> l) { QString s; for (uint c : l) app(s, c); return s; }
static std::vector<uint> cps(const QString &s) {
    std::vector<uint> v;
    for (int i = 0; i < s.size(); i++) {
        uint c = s[i].unicode();
        if (QChar::isHighSurrogate(c) && i + 1 < s.size() && QChar::isLowSurrogate(s[i + 1].unicode())) { c = QChar::surrogateToUcs4(c, s[i + 1].unicode()); i++; }
        v.push_back(c);
    }
    return v;
}
// XML 1.0 Char, written down from the spec (not from the Lean model)
static bool xmlLegal(uint c) { return c == 9 || c == 10 || c == 13 || (c >= 0x20 && c <= 0xD7FF) || (c >= 0xE000 && c <= 0xFFFD) || (c >= 0x10000 && c <= 0x10FFFF); }
static bool allLegal(const QString &s) { for (uint c : cps(s)) if (!xmlLegal(c)) return false; return true; }
static bool isBlank(const QString &s) { for (uint c : cps(s)) if (!QChar::isSpace(c)) return false; return true; }

static const char *const ADV[] = { "<", ">", "&", "\"", "'", "]]>", "&#60;", "</a>", "<!--", "<![CDATA[", "&amp;", "&lt;", "\"/><x y=\"",
    "&#x3c;", "&&", ";&", "<?pi?>", "<a>", "</a><b>", "\"><evil/>", "' onload='", "&quot;", "&#9;", "&#13;", "-->", "]]", "]>", "&#", "&#;", "&x;",
    "&lt", "=\"", "/>", "><", "<<>>", "\"\"", "&apos;", "\\\"", "<a b=\"c\">", "&#38;#60;" };
static const uint SPACES[] = { 9, 10, 13, 0x20, 0x85, 0xA0, 0x1680, 0x2000, 0x2001, 0x2005, 0x200A, 0x2028, 0x2029, 0x202F, 0x205F, 0x3000 };
static const uint NEARSPACE[] = { 0x200B, 0xFEFF, 0x180E, 0x2060, 0x1F, 0x7F, 0x2800, 0x200C, 0x0B, 0x0C, 0x1C };
static const uint BOUND[] = { 0x0, 0x1, 0x8, 0xB, 0xC, 0xE, 0x1F, 0x7F, 0x80, 0x9F, 0xD7FF, 0xE000, 0xFFFD, 0xFFFE, 0xFFFF, 0x10000, 0x1F600, 0x1FFFE, 0x1FFFF, 0x10FFFF, 0xFEFF, 0xFFFC };
static const char META[] = "<>&\"'][!-/=;#x0a ";

template<typename T, size_t N> static T pick(Rng &r, const T (&a)[N]) { return a[r.below(N)]; }

static QString genStr(Rng &r) {
    QString s;
    switch (r.below(12)) {
    case 0: { int n = r.below(8); for (int i = 0; i < n; i++) s += QLatin1Char(META[r.below(sizeof(META) - 1)]); break; }            // metacharacter soup
    case 1: { int n = 1 + r.below(3); for (int i = 0; i < n; i++) s += QString::fromLatin1(pick(r, ADV)); break; }                    // adversarial fragments
    case 2: { int n = 1 + r.below(5); for (int i = 0; i < n; i++) app(s, pick(r, SPACES)); break; }                                    // blanks only
    case 3: { app(s, pick(r, SPACES)); if (r.coin()) app(s, pick(r, SPACES)); s += QString::fromLatin1(r.coin() ? "x" : pick(r, ADV));  // leading / trailing blanks
              app(s, pick(r, SPACES)); if (r.coin()) app(s, 13), app(s, 10); break; }
    case 4: { int n = 1 + r.below(6); for (int i = 0; i < n; i++) app(s, r.below(0x21)); if (r.coin()) s += u'x'; break; }               // control characters
    case 5: { int n = 1 + r.below(4); for (int i = 0; i < n; i++) { app(s, pick(r, BOUND)); if (r.coin()) s += QLatin1Char(META[r.below(sizeof(META) - 1)]); } break; }
    case 6: { int n = 1 + r.below(4); for (int i = 0; i < n; i++) app(s, 0x10000 + r.below(0x100000)); if (r.coin()) s += u'&'; break; } // non-BMP
    case 7: { int n = (r.below(4) == 0 ? 2000 + r.below(4000) : 50 + r.below(300)); QString unit = r.coin() ? QString::fromLatin1(pick(r, ADV)) : fromCps({ pick(r, BOUND) });
              if (unit.isEmpty()) unit = u"<"_qs; while (s.size() < n) s += unit; break; }                                              // long runs
    case 8: { int n = r.below(10); for (int i = 0; i < n; i++) { uint c = r.below(0x11000); app(s, c); } break; }                       // random BMP (+ a little beyond)
    case 9: { int n = 1 + r.below(6); for (int i = 0; i < n; i++) { switch (r.below(4)) { case 0: s += QLatin1Char(META[r.below(sizeof(META) - 1)]); break;
                case 1: app(s, pick(r, SPACES)); break; case 2: app(s, pick(r, NEARSPACE)); break; default: s += QLatin1Char('a' + r.below(26)); } } break; }
    case 10: { int n = 1 + r.below(12); for (int i = 0; i < n; i++) s += QLatin1Char(r.below(5) == 0 ? ' ' : 'a' + r.below(26)); break; } // plain words
    default: break;                                                                                                                     // empty
    }
    return s;
}

static void strStats(const QString &s, const char *ctx) {
    std::string p = std::string("str.") + ctx + ".";
    stat(p + "total");
    if (s.isEmpty()) { stat(p + "empty"); return; }
    bool ctl = false, nonchar = false, nonbmp = false, uspace = false;
    for (uint c : cps(s)) { if (c < 0x20 && c != 9 && c != 10 && c != 13) ctl = true; if (c == 0xFFFE || c == 0xFFFF) nonchar = true; if (c > 0xFFFF) nonbmp = true; if (c > 0x7f && QChar::isSpace(c)) uspace = true; }
    if (s.contains(u'<')) stat(p + "has_lt");
    if (s.contains(u'>')) stat(p + "has_gt");
    if (s.contains(u'&')) stat(p + "has_amp");
    if (s.contains(u'"')) stat(p + "has_quot");
    if (s.contains(u'\'')) stat(p + "has_apos");
    if (s.contains(u"]]>"_qs)) stat(p + "has_cdata_end");
    if (s.contains(u'\r')) stat(p + "has_cr");
    if (s.contains(u'\n')) stat(p + "has_lf");
    if (s.contains(u'\t')) stat(p + "has_tab");
    if (ctl) stat(p + "has_control_char");
    if (nonchar) stat(p + "has_fffe_ffff");
    if (nonbmp) stat(p + "has_non_bmp");
    if (uspace) stat(p + "has_unicode_space");
    if (isBlank(s)) stat(p + "blank_only");
    else if (QChar::isSpace(s[0].unicode()) || QChar::isSpace(s[s.size() - 1].unicode())) stat(p + "leading_or_trailing_blank");
    if (!allLegal(s)) stat(p + "has_illegal_char");
    if (s.size() >= 1000) stat(p + "len_ge_1000"); else if (s.size() >= 50) stat(p + "len_50_999"); else stat(p + "len_lt_50");
}

// ------------------------------------------------------------------ the real writer on one string
static QByteArray realEscText(const QString &s, bool &ok) {
    QByteArray b; QXmlStreamWriter w(&b);
    w.writeStartElement(u"a"_qs); w.writeCharacters(s); w.writeEndElement();
    if (s.isEmpty() && b == "<a/>") { ok = true; return QByteArray(); }
    ok = b.startsWith("<a>") && b.endsWith("</a>");
    return b.mid(3, b.size() - 7);
}
static QByteArray realEscAttr(const QString &s, bool &ok) {
    QByteArray b; QXmlStreamWriter w(&b);
    w.writeStartElement(u"a"_qs); w.writeAttribute(u"k"_qs, s); w.writeEndElement();
    ok = b.startsWith("<a k=\"") && b.endsWith("\"/>");
    return b.mid(6, b.size() - 9);
}
static std::string hexB(const QByteArray &b) { return b.isEmpty() ? "-" : b.toHex().toStdString(); }

// a reader that applies the line-end normalisation of XML 1.0 2.11: QXmlStreamReader (namespace processing off), brought to the
// same canonical form (text runs merged, blank runs dropped as QDom does, so that only the line ends can differ)
static std::string canonStdElem(QXmlStreamReader &rd) {   // rd is at a StartElement
    std::vector<std::pair<std::string, std::string>> as;
    for (const auto &a : rd.attributes()) as.emplace_back(hexOf(a.qualifiedName().toString()), hexOf(a.value().toString()));
    std::sort(as.begin(), as.end());
    std::string o = "(E " + hexOf(rd.qualifiedName().toString()) + " (";
    for (size_t i = 0; i < as.size(); i++) { if (i) o += " "; o += "(" + as[i].first + " " + as[i].second + ")"; }
    o += ") (";
    bool first = true; QString pend;
    auto flush = [&]() { if (!isBlank(pend)) { if (!first) o += " "; o += "(T " + hexOf(pend) + ")"; first = false; } pend.clear(); };
    while (!rd.atEnd()) {
        auto t = rd.readNext();
        if (t == QXmlStreamReader::Characters) pend += rd.text().toString();
        else if (t == QXmlStreamReader::StartElement) { flush(); if (!first) o += " "; o += canonStdElem(rd); first = false; }
        else if (t == QXmlStreamReader::EndElement) { flush(); return o + "))"; }
        else if (t == QXmlStreamReader::Invalid) break;
    }
    return "none";
}
static std::string canonStd(const QByteArray &xml) {
    QXmlStreamReader rd(xml); rd.setNamespaceProcessing(false);
    std::string out = "none";
    while (!rd.atEnd()) {
        auto t = rd.readNext();
        if (t == QXmlStreamReader::StartElement) { out = canonStdElem(rd); break; }
        if (t == QXmlStreamReader::Invalid) return "none";
    }
    while (!rd.atEnd()) rd.readNext();
    return rd.hasError() ? "none" : out;
}

static std::string canonPlain(const QByteArray &xml) {   // namespace processing OFF: qualified names, xmlns kept as attributes
    QDomDocument doc;
    if (!doc.setContent(xml, false)) return "none";
    return canonElement(doc.documentElement());
}

// element structure only (what the oracle compares): names, attribute names, nesting — as QDom shows them with
// namespace processing on (local names, no xmlns attributes)
static QString localName(const QString &n) { int i = n.indexOf(u':'); return i < 0 ? n : n.mid(i + 1); }
static bool isNsDecl(const QString &k) { return k == u"xmlns" || k.startsWith(u"xmlns:"); }
static std::string skelDom(const QDomElement &e) {
    QStringList as; auto am = e.attributes();
    for (int i = 0; i < am.count(); i++) as << am.item(i).toAttr().name();
    as.sort();
    std::string out = e.tagName().toStdString() + "(" + as.join(u',').toStdString() + ")[";
    for (auto c = e.firstChildElement(); !c.isNull(); c = c.nextSiblingElement()) out += skelDom(c) + " ";
    return out + "]";
}
static std::string skelOfXml(const QByteArray &xml) {
    QDomDocument doc;
    if (!doc.setContent(xml, true)) return "none";
    return skelDom(doc.documentElement());
}

// ------------------------------------------------------------------ trees
struct Nd {
    bool text = false;
    bool crRef = false;                                 // text node written by qxmpp's writeXmlTextElement(w, name, value): CR as &#13;
    QString name, txt;                                  // txt: text node content
    std::vector<std::pair<QString, QString>> attrs;     // in the order they are written
    std::vector<Nd> kids;
    int style = 0;  // 0 generic, 1 writeTextElement, 2 writeEmptyElement, 3 qxmpp writeXmlTextElement(name,value),
                    // 4 qxmpp writeXmlTextElement(name,ns,value), 5 qxmpp writeEmptyElement(name,ns), 6 qxmpp writeOptionalXmlTextElement
};
static const char *const ENAMES[] = { "a", "b", "message", "body", "x", "stream:features", "stream:error", "item", "c-d", "e.f", "_g", "h1", "iq", "query", "p:q" };
static const char *const ANAMES[] = { "id", "to", "from", "type", "xml:lang", "var", "k-1", "_x", "jid", "node", "p:a" };
// constants (qxmpp hands these to writeDefaultNamespace, which writes verbatim) ...
static const char *const NSCONST[] = { "jabber:client", "urn:xmpp:sm:3", "http://jabber.org/protocol/disco#info", "urn:ietf:params:xml:ns:xmpp-stanzas", "" };
// ... and data values (written with writeAttribute("xmlns", …) since repo commit 04d18dd)
static const char *const NSPOOL[] = { "jabber:client", "urn:xmpp:sm:3", "http://jabber.org/protocol/disco#info", "urn:ietf:params:xml:ns:xmpp-stanzas", "", "u>v", "it's", "a b\tc",
    "u\"><evil/></NAME><NAME xmlns=\"u", "u\" injected=\"1", "a&b", "a<b", "\r\n" };
// values for writeDefaultNamespace that break out of the attribute (NAME is replaced by the element's own name)
static const char *const NSADV[] = { "u\"><evil/></NAME><NAME xmlns=\"u", "u\" injected=\"1", "u\"/><evil/><y k=\"", "a&b", "a<b", "a&amp;b", "\"", "u\"><evil/>", "&lt;" };

struct Gen {
    Rng &r; int nodes = 0, maxDepth = 0; bool legal = true;
    QString payload(const char *ctx) { QString s = genStr(r); strStats(s, ctx); if (!allLegal(s)) legal = false; return s; }
    Nd elem(int depth) {
        Nd n; nodes++; maxDepth = std::max(maxDepth, depth);
        n.name = QString::fromLatin1(pick(r, ENAMES));
        n.style = depth >= 4 ? 1 + r.below(6) : (r.below(3) ? 0 : 1 + r.below(6));
        // an empty element is only completed by the next write: qxmpp never ends a stanza with one, nor do we
        if (depth == 0 && (n.style == 2 || n.style == 3)) n.style = 0;
        auto ns = [&]() { return QString::fromLatin1(pick(r, NSPOOL)).replace(u"NAME"_qs, n.name); };
        auto nsConst = [&]() { return QString::fromLatin1(pick(r, NSCONST)); };
        auto textKid = [&](const QString &v) { Nd t; t.text = true; t.txt = v; nodes++; return t; };
        switch (n.style) {
        case 1: n.kids.push_back(textKid(payload("text"))); break;
        case 3: { QString v = payload("text"); if (!v.isEmpty()) { n.kids.push_back(textKid(v)); n.kids.back().crRef = true; } break; }
        case 4: { n.attrs.emplace_back(u"xmlns"_qs, nsConst()); QString v = payload("text"); if (!v.isEmpty()) n.kids.push_back(textKid(v)); break; }
        case 5: n.attrs.emplace_back(u"xmlns"_qs, nsConst()); break;
        case 6: { QString v = payload("text"); if (v.isEmpty()) v = u"&"_qs; n.kids.push_back(textKid(v)); break; }
        default: {  // 0 and 2: attributes
            int na = r.below(4); QStringList used;
            for (int i = 0; i < na; i++) {
                QString k = QString::fromLatin1(pick(r, ANAMES));
                if (used.contains(localName(k))) continue;
                used << localName(k);
                n.attrs.emplace_back(k, payload("attr"));
            }
            if (r.below(3) == 0) n.attrs.insert(n.attrs.begin() + r.below(n.attrs.size() + 1), { u"xmlns"_qs, ns() });
            if (n.name.startsWith(u"stream:") && r.coin()) n.attrs.emplace_back(u"xmlns:stream"_qs, u"http://etherx.jabber.org/streams"_qs);
            if (n.style == 0) {
                int nk = r.below(5);
                for (int i = 0; i < nk; i++) { if (r.below(5) < 2) n.kids.push_back(textKid(payload("text"))); else n.kids.push_back(elem(depth + 1)); }
            }
        } }
        return n;
    }
};

static void writeNd(QXmlStreamWriter &w, const Nd &n, Rng &r) {
    if (n.text) { w.writeCharacters(n.txt); return; }
    auto attrs = [&]() {
        for (auto &kv : n.attrs) {
            if (kv.first == u"xmlns") {
                // qxmpp writes constant namespaces with writeDefaultNamespace (verbatim) and data-valued ones with writeAttribute (escaped)
                bool constantLike = false; for (auto c : NSCONST) if (kv.second == QLatin1String(c)) constantLike = true;
                if (constantLike && r.below(4) != 0) w.writeDefaultNamespace(kv.second); else w.writeAttribute(u"xmlns"_qs, kv.second);
            } else if (kv.first.startsWith(u"xmlns:")) w.writeNamespace(kv.second, kv.first.mid(6));
            else if (!kv.second.isEmpty() && r.coin()) writeOptionalXmlAttribute(&w, kv.first, kv.second);
            else w.writeAttribute(kv.first, kv.second);
            if (r.below(8) == 0) writeOptionalXmlAttribute(&w, u"skipped", u"");  // must write nothing
        } };
    switch (n.style) {
    case 1: w.writeTextElement(n.name, n.kids[0].txt); break;
    case 2: w.writeEmptyElement(n.name); attrs(); break;
    case 3: writeXmlTextElement(&w, n.name, n.kids.empty() ? QString() : n.kids[0].txt); break;
    case 4: writeXmlTextElement(&w, n.name, n.attrs[0].second, n.kids.empty() ? QString() : n.kids[0].txt); break;
    case 5: QXmpp::Private::writeEmptyElement(&w, n.name, n.attrs[0].second); break;
    case 6: writeOptionalXmlTextElement(&w, n.name, n.kids[0].txt); break;
    default:
        w.writeStartElement(n.name); attrs();
        for (auto &k : n.kids) { writeNd(w, k, r); if (r.below(8) == 0) writeOptionalXmlTextElement(&w, u"skipped", u""); }
        w.writeEndElement();
    }
}
static std::string encRaw(const Nd &n) {  // the tree as given to the model: nothing merged, nothing dropped, attributes in written order
    if (n.text) return (n.crRef ? "(R " : "(T ") + hexOf(n.txt) + ")";
    std::string o = "(E " + hexOf(n.name) + " (";
    for (size_t i = 0; i < n.attrs.size(); i++) { if (i) o += " "; o += "(" + hexOf(n.attrs[i].first) + " " + hexOf(n.attrs[i].second) + ")"; }
    o += ") (";
    for (size_t i = 0; i < n.kids.size(); i++) { if (i) o += " "; o += encRaw(n.kids[i]); }
    return o + "))";
}
static std::string skelNd(const Nd &n) {
    QStringList as; for (auto &kv : n.attrs) if (!isNsDecl(kv.first)) as << localName(kv.first);
    as.sort();
    std::string out = localName(n.name).toStdString() + "(" + as.join(u',').toStdString() + ")[";
    for (auto &k : n.kids) if (!k.text) out += skelNd(k) + " ";
    return out + "]";
}
// what the property promises for a tree of XML-legal payloads: same tree, text runs merged, blank runs gone (QDom's reading)
static std::string expectCanon(const Nd &n) {
    std::vector<std::pair<std::string, std::string>> as;
    for (auto &kv : n.attrs) if (!isNsDecl(kv.first)) as.emplace_back(hexOf(localName(kv.first)), hexOf(kv.second));
    std::sort(as.begin(), as.end());
    std::string o = "(E " + hexOf(localName(n.name)) + " (";
    for (size_t i = 0; i < as.size(); i++) { if (i) o += " "; o += "(" + as[i].first + " " + as[i].second + ")"; }
    o += ") (";
    bool first = true; QString pend;
    auto flush = [&]() { if (!isBlank(pend)) { if (!first) o += " "; o += "(T " + hexOf(pend) + ")"; first = false; } pend.clear(); };
    for (auto &k : n.kids) { if (k.text) pend += k.txt; else { flush(); if (!first) o += " "; o += expectCanon(k); first = false; } }
    flush();
    return o + "))";
}
static bool nsPlain(const Nd &n) {
    for (auto &kv : n.attrs) if (isNsDecl(kv.first) && (kv.second.contains(u'"') || kv.second.contains(u'<') || kv.second.contains(u'&'))) return false;
    for (auto &k : n.kids) if (!k.text && !nsPlain(k)) return false;
    return true;
}

static void oracleTree(const Nd &root, const QByteArray &bytes, bool legal, const std::string &where, const std::string &replay) {
    std::string want = skelNd(root), got = skelOfXml(bytes);
    if (want != got) { oracleFail("C01:markup-injection:" + where, replay + " wrote=" + bytes.left(300).toPercentEncoding(" <>&;#\"=/':").toStdString() + " structure-written=" + want + " structure-read=" + got); return; }
    oraclePass()++;
    if (!legal) { stat("oracle.payload_skipped_illegal_chars"); return; }
    if (expectCanon(root) != canonOfXml(bytes)) oracleFail(where == "xmlns" ? "C01:markup-injection:xmlns" : "C01:text-layer-roundtrip", replay + " wrote=" + bytes.left(300).toPercentEncoding(" <>&;#\"=/':").toStdString());
    else oraclePass()++;
}

static void runTree(Rng &r, int idx) {
    Gen g{ r };
    Nd root = g.elem(0);
    QByteArray bytes; { QXmlStreamWriter w(&bytes); writeNd(w, root, r); }
    std::string enc = encRaw(root);
    corr("xml-render " + enc, hexB(bytes));
    corr("xml-render-parse " + enc, canonOfXml(bytes));
    corr("xml-parse-plain " + hexB(bytes), canonPlain(bytes));
    {   // the same bytes through a reader with line-end normalisation
        std::string std_ = canonStd(bytes), plain = canonPlain(bytes);
        corr("xml-parse-std " + hexB(bytes), std_);
        if (bytes.contains('\r')) stat(std_ == plain ? "std.literal_cr.same_as_qdom" : "std.literal_cr.read_differently");
        else { stat("std.no_literal_cr"); if (std_ != plain) stat("std.no_literal_cr.BUT_read_differently"); }
    }
    stat("tree.total");
    stat("tree.nodes", g.nodes); stat("tree.bytes", bytes.size());
    stat("tree.depth_" + std::to_string(g.maxDepth));
    stat(g.nodes <= 3 ? "tree.size_1_3" : g.nodes <= 10 ? "tree.size_4_10" : g.nodes <= 30 ? "tree.size_11_30" : "tree.size_gt_30");
    if (!g.legal) stat("tree.with_illegal_chars");
    bool plain = nsPlain(root);
    if (!plain) stat("tree.with_breaking_ns_value");
    oracleTree(root, bytes, g.legal, plain ? "tree" : "xmlns", "tree#" + std::to_string(idx) + " " + enc.substr(0, 400));
    if (idx < 2) sample("tree " + enc.substr(0, 200) + " => " + bytes.left(200).toPercentEncoding(" <>&;#\"=/':").toStdString());
}

// data-valued namespaces, attributes and text as the library's own generic element writes them (QXmppElement::toXml:
// xmlns through writeDefaultNamespace, the other attributes in key order through writeOptionalXmlAttribute, value, children)
struct QxGen {
    Rng &r; int nodes = 0; bool legal = true, breaking = false;
    QString payload(const char *ctx) { QString s = genStr(r); strStats(s, ctx); if (!allLegal(s)) legal = false; return s; }
    std::pair<QXmppElement, Nd> elem(int depth) {
        QXmppElement e; Nd n; nodes++;
        n.name = QString::fromLatin1(pick(r, ENAMES)); e.setTagName(n.name);
        if (r.below(3)) {
            QString v = r.below(6) == 0 ? QString::fromLatin1(pick(r, NSADV)).replace(u"NAME"_qs, n.name) : QString::fromLatin1(pick(r, NSPOOL));
            if (v.contains(u'"') || v.contains(u'<') || v.contains(u'&')) breaking = true;
            e.setAttribute(u"xmlns"_qs, v); n.attrs.emplace_back(u"xmlns"_qs, v);
        }
        QMap<QString, QString> as; QStringList used; int na = r.below(4);
        for (int i = 0; i < na; i++) { QString k = QString::fromLatin1(pick(r, ANAMES)); if (used.contains(localName(k))) continue; used << localName(k); as[k] = payload("attr"); }
        for (auto it = as.begin(); it != as.end(); ++it) { e.setAttribute(it.key(), it.value()); if (!it.value().isEmpty()) n.attrs.emplace_back(it.key(), it.value()); }
        if (r.coin()) { QString v = payload("text"); e.setValue(v); if (!v.isEmpty()) { Nd t; t.text = true; t.txt = v; n.kids.push_back(t); nodes++; } }
        int nk = depth >= 3 ? 0 : r.below(4);
        for (int i = 0; i < nk; i++) { auto c = elem(depth + 1); e.appendChild(c.first); n.kids.push_back(c.second); }
        return { e, n };
    }
};
static void runQxTree(Rng &r, int idx) {
    QxGen g{ r };
    auto en = g.elem(0);
    QByteArray bytes; { QXmlStreamWriter w(&bytes); en.first.toXml(&w); }
    std::string enc = encRaw(en.second);
    corr("xml-render " + enc, hexB(bytes));
    corr("xml-render-parse " + enc, canonOfXml(bytes));
    corr("xml-parse-plain " + hexB(bytes), canonPlain(bytes));
    stat("qxelement.total"); stat("qxelement.nodes", g.nodes);
    if (g.breaking) stat("qxelement.with_breaking_ns_value");
    oracleTree(en.second, bytes, g.legal, g.breaking ? "xmlns" : "tree", "QXmppElement#" + std::to_string(idx) + " " + enc.substr(0, 400));
}

// ------------------------------------------------------------------ single payloads: every way a string reaches the writer
static void runString(const QString &s, int idx, bool doOracle) {
    bool ok1, ok2;
    QByteArray t = realEscText(s, ok1), a = realEscAttr(s, ok2);
    corr("xml-esc-text " + hexOf(s), ok1 ? hexB(t) : "unexpected-frame");
    corr("xml-esc-attr " + hexOf(s), ok2 ? hexB(a) : "unexpected-frame");
    {   // qxmpp's writeXmlTextElement(w, name, value): CR as &#13;
        QByteArray b; { QXmlStreamWriter w(&b); w.writeStartElement(u"p"_qs); writeXmlTextElement(&w, u"a", s); w.writeEndElement(); }
        QByteArray inner = b.mid(3, b.size() - 7);   // between <p> and </p>
        std::string obs = inner == "<a/>" ? "-" : (inner.startsWith("<a>") && inner.endsWith("</a>")) ? hexB(inner.mid(3, inner.size() - 7)) : "unexpected-frame";
        corr("xml-esc-text-cr " + hexOf(s), obs);
    }
    // reading back: the escaped forms inside an attribute (attribute values are never dropped as blank)
    for (const QByteArray &x : { t, a }) {
        QDomDocument d;
        if (d.setContent(QByteArray("<a k=\"") + x + "\"/>", true)) corr("xml-unesc " + hexB(x), hexOf(d.documentElement().attribute(u"k"_qs)));
        else stat("unesc.qdom_rejected");
    }
    if (!doOracle) return;
    bool legal = allLegal(s);
    std::string rep = "string#" + std::to_string(idx) + " hex=" + hexOf(s).substr(0, 200);
    static const QString tee = u"t"_qs;
    struct Way { const char *where; std::function<void(QXmlStreamWriter &)> f; Nd shape; };
    auto el = [](const char *name, std::vector<std::pair<QString, QString>> as, const QString *txt) {
        Nd n; n.name = QString::fromLatin1(name); n.attrs = as; if (txt && !txt->isEmpty()) { Nd t; t.text = true; t.txt = *txt; n.kids.push_back(t); } return n; };
    auto wrap = [](Nd inner) { Nd p; p.name = u"p"_qs; p.kids.push_back(inner); return p; };
    std::vector<Way> ways = {
        { "text", [&](QXmlStreamWriter &w) { w.writeStartElement(u"p"_qs); w.writeStartElement(u"a"_qs); w.writeCharacters(s); w.writeEndElement(); w.writeEndElement(); }, wrap(el("a", {}, &s)) },
        { "attr", [&](QXmlStreamWriter &w) { w.writeStartElement(u"p"_qs); w.writeStartElement(u"a"_qs); w.writeAttribute(u"k"_qs, s); w.writeEndElement(); w.writeEndElement(); }, wrap(el("a", { { u"k"_qs, s } }, nullptr)) },
        { "text-helper", [&](QXmlStreamWriter &w) { w.writeStartElement(u"p"_qs); writeXmlTextElement(&w, u"a", s); w.writeEndElement(); }, wrap(el("a", {}, &s)) },   // (mark irrelevant for the oracle)
        { "attr-helper", [&](QXmlStreamWriter &w) { w.writeStartElement(u"p"_qs); w.writeStartElement(u"a"_qs); writeOptionalXmlAttribute(&w, u"k", s); w.writeEndElement(); w.writeEndElement(); },
          wrap(s.isEmpty() ? el("a", {}, nullptr) : el("a", { { u"k"_qs, s } }, nullptr)) },
        // a data-valued namespace: the library's generic element (QXmppElement::toXml)
        { "xmlns", [&](QXmlStreamWriter &w) { w.writeStartElement(u"p"_qs); QXmppElement e; e.setTagName(u"a"_qs); e.setAttribute(u"xmlns"_qs, s); e.setValue(tee); e.toXml(&w); w.writeEndElement(); },
          wrap(el("a", { { u"xmlns"_qs, s } }, &tee)) },
    };
    for (auto &wy : ways) {
        QByteArray b; { QXmlStreamWriter w(&b); wy.f(w); }
        stat(std::string("oracle.way.") + wy.where);
        oracleTree(wy.shape, b, legal, wy.where, rep + " via=" + wy.where);
        if (legal && std::string(wy.where) == "xmlns") {   // the namespace value itself must come back
            QDomDocument d; bool okp = d.setContent(b, true);
            if (!okp || d.documentElement().firstChildElement().namespaceURI() != s) oracleFail("C01:markup-injection:xmlns", rep + " namespace value not preserved, wrote=" + b.left(300).toStdString());
            else oraclePass()++;
        }
    }
}

// ------------------------------------------------------------------ documents for the parser: references, malformed input
static void parseDoc(const QByteArray &doc, const char *kind) {
    std::string got = canonOfXml(doc);
    corr("xml-parse " + hexB(doc), got);
    stat(std::string("parse.") + kind + (got == "none" ? ".rejected" : ".accepted"));
}
static QByteArray refDoc(Rng &r) {   // in-language document whose payloads use every reference form
    auto enc = [&](uint c, bool attr) -> QByteArray {
        bool mustEscape = c == '<' || c == '&' || (attr && c == '"') || c == 0xFFFE || c == 0xFFFF || c == 0 || (c == '>' && r.coin());
        int how = mustEscape ? 1 + r.below(2) : r.below(4);
        // Qt 5.15's QDom mangles numeric references above U+FFFF (&#x10FFFF; reads as U+FFFF): never produced by the writer, not fed
        if (c > 0xFFFF) how = 0;
        if (how == 1) { QByteArray n = QByteArray::number(c); if (r.coin()) n.prepend(QByteArray(r.below(4), '0')); return "&#" + n + ";"; }
        if (how == 2) { QByteArray n = QByteArray::number(c, 16); if (r.coin()) n = n.toUpper(); if (r.coin()) n.prepend(QByteArray(r.below(4), '0')); return "&#x" + n + ";"; }
        if (how == 3) { switch (c) { case '<': return "&lt;"; case '>': return "&gt;"; case '&': return "&amp;"; case '"': return "&quot;"; case '\'': return "&apos;"; } }
        QString s; app(s, c); return s.toUtf8(); };
    auto val = [&](bool attr) { QByteArray o; int n = r.below(6); for (int i = 0; i < n; i++) {
        uint c; switch (r.below(5)) { case 0: c = "<>&\"'"[r.below(5)]; break; case 1: c = pick(r, SPACES); break; case 2: c = pick(r, BOUND); break; case 3: c = 1 + r.below(0x10FFFF); break; default: c = 'a' + r.below(26); }
        if (c >= 0xD800 && c <= 0xDFFF) c = 0x41;
        o += enc(c, attr); } return o; };
    QByteArray d = "<a k=\"" + val(true) + "\"";
    if (r.coin()) d += " xml:lang=\"" + val(true) + "\"";
    d += ">" + val(false);
    if (r.coin()) d += "<b j=\"" + val(true) + "\"/>" + val(false);
    if (r.coin()) d += "<c>" + val(false) + "</c>";
    return d + "</a>";
}
static void mutations(Rng &r, const QByteArray &bytes) {
    QString d = QString::fromUtf8(bytes);
    auto at = [&](int i) { while (i > 0 && i < d.size() && d.at(i).isLowSurrogate()) i--; return i; };
    { int i = at(r.below(d.size())); parseDoc(d.left(i).toUtf8(), "mut.truncate"); }
    { int i = at(r.below(d.size() + 1)); QString m = d; m.insert(i, u"< "_qs); parseDoc(m.toUtf8(), "mut.insert_lt"); }
    { int i = at(r.below(d.size() + 1)); QString m = d; m.insert(i, u"& "_qs); parseDoc(m.toUtf8(), "mut.insert_amp"); }
    { int i = d.lastIndexOf(u"</"_qs); if (i >= 0) { QString m = d; m.insert(i + 2, u'z'); parseDoc(m.toUtf8(), "mut.endtag_name"); } }
    { QList<int> pos; for (int i = 0; i < d.size(); i++) if (d[i] == u'>' || d[i] == u'"' || d[i] == u'=' || d[i] == u'/') pos << i;
      if (!pos.isEmpty()) { QString m = d; m.remove(pos[r.below(pos.size())], 1); parseDoc(m.toUtf8(), "mut.delete_punct"); } }
    parseDoc(bytes + bytes, "mut.two_roots");
    parseDoc(bytes + "x", "mut.trailing_text");
}

// ------------------------------------------------------------------ the finding on qxmpp's own classes
static void replayXmlnsFinding() {
    const QString V = u"u\"><evil/></x><x xmlns=\"u"_qs;
    {   // an element as it arrives from the network (legal XML: the namespace URI contains quotes as &quot;) re-serialized by QXmppElement
        QDomDocument in; in.setContent(QByteArray("<p><x xmlns=\"u&quot;&gt;&lt;evil/&gt;&lt;/x&gt;&lt;x xmlns=&quot;u\"/></p>"), true);
        QXmppElement e(in.documentElement().firstChildElement());
        QByteArray b; { QXmlStreamWriter w(&b); w.writeStartElement(u"p"_qs); e.toXml(&w); w.writeEndElement(); }
        std::string want = skelDom(in.documentElement()), got = skelOfXml(b);
        stat("finding.replayed");
        QDomDocument out; out.setContent(b, true);
        if (want == got && out.documentElement().firstChildElement().namespaceURI() != V) got += " namespace-lost";
        if (want != got) oracleFail("C01:markup-injection:xmlns", "QXmppElement(dom <x xmlns=V/>).toXml with V=" + V.toStdString() + " wrote=" + b.toStdString() + " structure-parsed=" + want + " structure-reserialized=" + got);
        else oraclePass()++;
    }
    {   // Jingle content: description type is the description element's namespace URI (QXmppJingleData.cpp:706 / :764)
        QXmppJingleIq iq; iq.setId(u"i"_qs); iq.setAction(QXmppJingleIq::SessionInitiate); iq.setSid(u"s"_qs);
        QXmppJingleIq::Content c; c.setName(u"n"_qs); c.setCreator(u"initiator"_qs);
        QXmppJingleDescription desc; desc.setType(u"u\"><evil/></description><description xmlns=\"u"_qs); c.setDescription(desc);
        iq.addContent(c);
        QByteArray b; { QXmlStreamWriter w(&b); iq.toXml(&w); }
        QDomDocument out; bool okp = out.setContent(b, true);
        int evil = okp ? out.elementsByTagName(u"evil"_qs).count() : -1;
        if (evil == 0 && out.elementsByTagName(u"description"_qs).item(0).namespaceURI() != desc.type()) evil = -2;  // namespace value lost
        stat("finding.replayed");
        if (evil != 0) oracleFail("C01:markup-injection:xmlns", "QXmppJingleIq content description type=u\"><evil/></description><description xmlns=\"u wrote=" + b.toStdString() + " evil-elements=" + std::to_string(evil));
        else oraclePass()++;
    }
}

// ------------------------------------------------------------------ which characters round-trip: the hypothesis of the theorems, measured
// For one code point c: "x" c "y" as attribute value and as text through the real writer and QDom.  XML-legal c must come back
// (oracle, key C01:text-layer-roundtrip); for the others the outcome is recorded (the property quantifies over XML-legal characters only).
static void sweepCodePoint(uint c) {
    QString s = fromCps({ 'x', c, 'y' });
    QByteArray b; { QXmlStreamWriter w(&b); w.writeStartElement(u"a"_qs); w.writeAttribute(u"k"_qs, s); w.writeCharacters(s); w.writeEndElement(); }
    QDomDocument d; bool ok = d.setContent(b, true);
    QString av = ok ? d.documentElement().attribute(u"k"_qs) : QString(), tv = ok ? d.documentElement().text() : QString();
    Nd root; root.name = u"a"_qs; root.attrs.emplace_back(u"k"_qs, s); Nd t; t.text = true; t.txt = s; root.kids.push_back(t);
    std::string enc = encRaw(root);
    corr("xml-render " + enc, hexB(b)); corr("xml-render-parse " + enc, canonOfXml(b));
    if (xmlLegal(c)) {
        stat("sweep.legal");
        if (!ok || av != s || tv != s) oracleFail("C01:text-layer-roundtrip", "code point U+" + QString::number(c, 16).toStdString() + " wrote=" + b.toPercentEncoding(" <>&;#\"=/").toStdString());
        else oraclePass()++;
    } else {
        stat("sweep.illegal");
        if (ok && av == u"xy" && tv == u"xy") stat("sweep.illegal.dropped_silently_document_still_parses");
        else if (!ok) stat("sweep.illegal.document_unparseable");
        else if (av == s && tv == s) stat("sweep.illegal.round_trips");
        else stat("sweep.illegal.changed_otherwise");
    }
}

// ------------------------------------------------------------------ measurements on the real QXmppMessage / QXmppElement (recorded, not judged here:
// blank text, XML-illegal characters and names are outside the property's quantifier; the coordinator passes the results to the codec tier)
static void measureMessageFields() {
    auto viaXml = [](const QXmppMessage &m, QByteArray &xml, bool &parsed) {
        xml.clear(); { QXmlStreamWriter w(&xml); m.toXml(&w); }
        QDomDocument d; parsed = d.setContent(xml, true);
        QXmppMessage r; if (parsed) r.parse(d.documentElement());
        return r; };
    auto show = [](const QString &v) { return v.isNull() ? std::string("<null>") : "'" + v.toUtf8().toPercentEncoding(" ").toStdString() + "'"; };
    struct Case { const char *name; QString body; bool setIt; };
    QString lone; lone += u'a'; lone += QChar(0xD800); lone += u'b';
    std::vector<Case> cases = { { "body_space", u" "_qs, true }, { "body_newline", u"\n"_qs, true }, { "body_ctrl_01", fromCps({ 'a', 1, 'b' }), true },
        { "body_lone_surrogate", lone, true }, { "body_fffe", fromCps({ 'a', 0xFFFE, 'b' }), true }, { "body_tab_cr", u"\t\r"_qs, true }, { "body_nbsp", fromCps({ 0xA0 }), true },
        { "body_space_x_space", u" x "_qs, true }, { "body_empty", u""_qs, true }, { "body_absent", QString(), false } };
    for (auto &c : cases) {
        QXmppMessage m; m.setId(u"i"_qs); if (c.setIt) m.setBody(c.body);
        QByteArray xml; bool parsed; QXmppMessage r = viaXml(m, xml, parsed);
        bool same = parsed && r.body() == m.body();
        stat(std::string("measure.message.") + c.name + (same ? ".roundtrips" : parsed ? ".value_changed" : ".document_unparseable"));
        printf("X measure QXmppMessage %s: set=%s wrote=%s reparsed=%s body-after=%s\n", c.name, c.setIt ? show(c.body).c_str() : "(not set)",
               xml.toPercentEncoding(" <>&;#\"=/':").constData(), parsed ? "yes" : "NO", parsed ? show(r.body()).c_str() : "-");
    }
    {   // subject: empty vs absent
        QXmppMessage a, b; a.setId(u"i"_qs); b.setId(u"i"_qs); a.setSubject(u""_qs);
        QByteArray xa, xb; bool pa, pb; QXmppMessage ra = viaXml(a, xa, pa), rb = viaXml(b, xb, pb);
        stat(std::string("measure.message.subject_empty_vs_absent.") + (xa == xb ? "same_bytes" : "different_bytes"));
        printf("X measure QXmppMessage subject \"\" wrote=%s ; absent wrote=%s ; subject-after=%s / %s\n", xa.constData(), xb.constData(), show(ra.subject()).c_str(), show(rb.subject()).c_str());
    }
    {   // names are written verbatim: a tag name that is not an XML name gives an unparseable document
        QXmppElement e; e.setTagName(u"a b"_qs); e.setAttribute(u"k=\"1\" j"_qs, u"v"_qs);
        QByteArray b; { QXmlStreamWriter w(&b); e.toXml(&w); }
        stat(std::string("measure.element.invalid_name.") + (skelOfXml(b) == "none" ? "document_unparseable" : "parses_with_other_structure"));
        printf("X measure QXmppElement tagName 'a b', attribute name 'k=\"1\" j': wrote=%s read-as=%s\n", b.constData(), skelOfXml(b).c_str());
    }
}

// ------------------------------------------------------------------ the canonical encoding itself: Lean `canon` against vh::canonElement
// on DOM trees built through the DOM API (no parser involved): adjacent text nodes, empty text nodes, attribute order
static QDomElement buildDom(QDomDocument &doc, const Nd &n) {
    QDomElement e = doc.createElement(n.name);
    for (auto &kv : n.attrs) e.setAttribute(kv.first, kv.second);
    for (auto &k : n.kids) { if (k.text) e.appendChild(doc.createTextNode(k.txt)); else e.appendChild(buildDom(doc, k)); }
    return e;
}
static void runCanon(Rng &r) {
    std::function<Nd(int)> gen = [&](int depth) {
        Nd n; n.name = QString::fromLatin1(pick(r, ENAMES));
        QStringList used; int na = r.below(4);
        for (int i = 0; i < na; i++) { QString k = QString::fromLatin1(pick(r, ANAMES)); if (used.contains(k)) continue; used << k; n.attrs.emplace_back(k, genStr(r).left(40)); }
        int nk = depth >= 3 ? r.below(2) : r.below(5);
        for (int i = 0; i < nk; i++) { if (r.coin()) { Nd t; t.text = true; t.txt = r.below(3) == 0 ? QString() : genStr(r).left(40); n.kids.push_back(t); } else n.kids.push_back(gen(depth + 1)); }
        return n; };
    Nd root = gen(0);
    QDomDocument doc; QDomElement e = buildDom(doc, root); doc.appendChild(e);
    corr("xml-canon " + encRaw(root), canonElement(e));
    stat("canon.total");
}

int main(int argc, char **argv) {
    QCoreApplication appl(argc, argv);
    Args args = parseArgs(argc, argv);
    Rng rng(args.seed);
    bool thorough = args.tier == "thorough";
    int idx = 0;

    // 0. corpus: the witness of the repaired finding C01:markup-injection:xmlns (repo 04d18dd) on qxmpp's own serializers:
    //    zero injected elements, namespace value preserved
    replayXmlnsFinding();
    measureMessageFields();

    // 1. fixed strings first: every adversarial fragment, every blank / boundary character alone and between letters
    std::vector<QString> fixed = { QString(), u" "_qs, u"\r"_qs, u"\r\n"_qs, u"\t"_qs, u"x\ry\r\nz\tq\nw"_qs, u"  x  "_qs };
    for (auto a : ADV) fixed.push_back(QString::fromLatin1(a));
    for (uint c : SPACES) { fixed.push_back(fromCps({ c })); fixed.push_back(fromCps({ 'x', c, 'y' })); fixed.push_back(fromCps({ c, c })); }
    for (uint c : NEARSPACE) { fixed.push_back(fromCps({ c })); fixed.push_back(fromCps({ ' ', c })); }
    for (uint c : BOUND) { fixed.push_back(fromCps({ c })); fixed.push_back(fromCps({ 'x', c, '<' })); }
    for (uint c = 0; c < 0x21; c++) fixed.push_back(fromCps({ 'a', c, 'b' }));
    for (auto &s : fixed) { strStats(s, "fixed"); runString(s, idx++, true); }
    // the blank-text rule, deterministically: every white-space / near-white-space / boundary character as the only text of an
    // element, after an element child, and next to a letter
    {
        std::vector<uint> cs; for (uint c : SPACES) cs.push_back(c); for (uint c : NEARSPACE) cs.push_back(c); for (uint c : BOUND) cs.push_back(c);
        for (uint c : cs) for (int form = 0; form < 3; form++) {
            Nd root; root.name = u"a"_qs; Nd t; t.text = true; t.txt = form == 2 ? fromCps({ c, 'x', c }) : fromCps({ c });
            if (form == 1) { Nd b; b.name = u"b"_qs; root.kids.push_back(b); }
            root.kids.push_back(t);
            QByteArray bytes; { QXmlStreamWriter w(&bytes); writeNd(w, root, rng); }
            std::string enc = encRaw(root);
            corr("xml-render " + enc, hexB(bytes)); corr("xml-render-parse " + enc, canonOfXml(bytes)); corr("xml-parse-plain " + hexB(bytes), canonPlain(bytes));
            stat("tree.blank_rule_cases");
            oracleTree(root, bytes, allLegal(t.txt), "tree", "blank-rule U+" + QString::number(c, 16).toStdString() + " form " + std::to_string(form));
        }
    }
    // exhaustive: all strings up to length 3 (quick) / 4 (thorough) over the metacharacter alphabet  < > & " ' ] ; # TAB CR
    {
        const uint A[] = { '<', '>', '&', '"', '\'', ']', ';', '#', 9, 13 };
        int maxLen = thorough ? 4 : 3;
        std::function<void(QString, int)> rec = [&](QString pre, int left) {
            if (!pre.isEmpty()) { stat("str.exhaustive.total"); runString(pre, idx++, pre.size() <= 2); }
            if (left == 0) return;
            for (uint c : A) rec(pre + QChar(ushort(c)), left - 1); };
        rec(QString(), maxLen);
    }
    // every code point up to U+2FFF and around the plane boundaries once through the escapers
    for (uint c = 0; c <= 0x2FFF; c++) { if (c >= 0xD800 && c <= 0xDFFF) continue; QString s = fromCps({ c }); bool ok; stat("str.codepoint.total");
        corr("xml-esc-text " + hexOf(s), hexB(realEscText(s, ok))); corr("xml-esc-attr " + hexOf(s), hexB(realEscAttr(s, ok))); }
    // which code points survive writer + QDom: all up to U+2FFF, the surrogate/non-character/plane borders, a stride through the rest
    {
        std::vector<uint> cs; for (uint c = 0; c <= 0x2FFF; c++) cs.push_back(c);
        for (uint c = 0xD7F0; c <= 0xD7FF; c++) cs.push_back(c);
        for (uint c = 0xE000; c <= 0xE00F; c++) cs.push_back(c);
        for (uint c = 0xFDC0; c <= 0x1000F; c++) cs.push_back(c);
        for (uint p = 1; p <= 16; p++) for (uint c = p * 0x10000 + 0xFFF0; c <= p * 0x10000 + 0xFFFF; c++) cs.push_back(c);
        uint stride = thorough ? 7 : 257;
        for (uint c = 0x3000; c <= 0x10FFFF; c += stride) cs.push_back(c);
        for (uint c : cs) if (!(c >= 0xD800 && c <= 0xDFFF)) sweepCodePoint(c);
    }
    for (int i = 0; i < (thorough ? 5000 : 500); i++) runCanon(rng);
    // 2. random strings
    int nStr = thorough ? 40000 : 3000;
    for (int i = 0; i < nStr; i++) { QString s = genStr(rng); strStats(s, "random"); runString(s, idx++, true); }
    // 3. hand-written and reference-heavy documents, rejected documents
    for (const char *d : { "<a/>", "<a></a>", "<a k=\"&#x41;&#65;&apos;&#xFFFF;&#xfffd;\">&#x3c;&#60;&#0065;&#x00041;</a>", "<a>&#32;</a>", "<a>&#9;&#10;&#13; </a>", "<a> &#160;</a>",
                           "<a>&#13;x</a>", "<a>x>y]]</a>", "<a k=\">\"/>", "<a k=\"a\tb\nc\rd\"/>", "<a><b/>  <c/></a>", "<a> <b/>x</a>", "<a:b c:d=\"1\"/>", "<a.b-c_d:e/>",
                           "<a k=\"1\" k=\"1\"/>",
                           "<a>x]]>y</a>", "<a>&</a>", "<a k=\"<\"/>", "<a></b>", "<a><b></a></b>", "<a>&#;</a>", "<a>&#x;</a>", "<a>&#6 5;</a>", "<a>&lt</a>", "<a>&#X41;</a>", "<1a/>",
                           "<a 1k=\"v\"/>", "<a k=v/>", "<a k/>", "<-a/>", "", "x", "<a/><b/>", "<a/>x", "<a", "<a>", "<a k=\"v/>", "<a>\xEF\xBF\xBE</a>", "<a k=\"\xEF\xBF\xBF\"/>", "<a>\x01\x7f</a>" })
        parseDoc(d, "handwritten");
    int nRef = thorough ? 20000 : 1500;
    for (int i = 0; i < nRef; i++) parseDoc(refDoc(rng), "references");
    // 4. random trees through the real writer; mutated (malformed) documents
    int nTree = thorough ? 30000 : 2000;
    for (int i = 0; i < nTree; i++) runTree(rng, i);
    for (int i = 0; i < nTree / 4; i++) runQxTree(rng, nTree + i);
    for (int i = 0; i < nTree / 2; i++) {
        Gen g{ rng }; Nd root = g.elem(0);
        QByteArray bytes; { QXmlStreamWriter w(&bytes); writeNd(w, root, rng); }
        mutations(rng, bytes);
    }
    // 5. Qt writes NAMES verbatim as well (recorded, not an oracle: names are not field values)
    { QByteArray b; { QXmlStreamWriter w(&b); w.writeStartElement(u"a b=\"1\""_qs); w.writeAttribute(u"k=\"1\" j"_qs, u"v"_qs); w.writeEndElement(); }
      stat("qt.names_written_verbatim", b == "<a b=\"1\" k=\"1\" j=\"v\"/>" ? 1 : 0); sample("names are not escaped by Qt: " + b.toStdString()); }
    // Qt's namespace primitives do not escape either (recorded; qxmpp passes only constants there: translators/ns_constants.py)
    { QByteArray b; { QXmlStreamWriter w(&b); w.writeStartElement(u"a"_qs); w.writeDefaultNamespace(u"u\"><b/>&"_qs); w.writeNamespace(u"v\"<"_qs, u"p"_qs); w.writeEndElement(); }
      stat("qt.namespace_uri_written_verbatim", b == "<a xmlns=\"u\"><b/>&\" xmlns:p=\"v\"<\"/>" ? 1 : 0); sample("namespace URIs are not escaped by Qt: " + b.toStdString()); }
    finish();
    return 0;
}
