// C03 harness: drives the real XmppSocket (src/base/Stream.cpp) and prints op/observation lines for the Lean
// model (lean/Driver/C03.lean) plus the model-independent property oracle.
//
//   b <hex>   one socket read: the bytes travel through a real loopback TCP connection (QTcpServer -> QSslSocket in
//             unencrypted mode, handed to XmppSocket::setSocket), so the byte->text step of the readyRead lambda runs
//   t <hex>   one direct XmppSocket::processData(QString) call (text level; hex = UTF-8 of the text), reached through
//             `friend class tst_QXmppStream`
//   oracle .. the PrefixOracle hypothesis for the Lean parser on a corpus stream (driver side: checkOracle)
//   observation = events of that read `e1|e2|...` (`-` = none) + ` buf=<code points buffered> tag=<code points cached>`
//   events: open:<canon root>   stanza:<canon element>   ka (null element = whitespace keep-alive)   close
//   canon element = <local{namespaceURI} a{namespaceURI}="v"...>children</>  attributes sorted by a{ns}, xmlns declarations omitted,
//   adjacent text merged, & < > " escaped; the whole observation percent-encoded outside 0x21..0x7e.
//
// Oracle (from the property text, no model involved): non-keep-alive events of the split run == those of the run
// that delivers the whole stream in one read.  Failures are keyed by what the cut does: inside a multi-byte character
// (C03:split-inside-multibyte-char), read starting with U+FEFF (C03:read-starting-with-zwnbsp-drops-it), otherwise by
// stream name.  The first two and the two `special` header streams were genuine defects, fixed in repo commits
// 49994ec / 381fe43; their witnesses stay first in the corpus.  Section 10 generates bytes AFTER the closing tag
// (key C03:bytes-after-stream-close; was a defect, fixed in repo commit 109544b: these streams must now pass).
// The PrefixOracle hypothesis of the Lean theorems is measured on the real QDomDocument at every cut of every
// corpus stream (S prefix_oracle_checks / prefix_oracle_violations).
#include "common.h"
#include "XmppSocket.h"

#include <QCoreApplication>
#include <QDomDocument>
#include <QElapsedTimer>
#include <QRegularExpression>
#include <QSslSocket>
#include <QTcpServer>
#include <QTcpSocket>
#include <algorithm>
#include <iostream>

using namespace vh;
using QXmpp::Private::XmppSocket;

// ---------------------------------------------------------------- canonical forms
static QString escXml(const QString &s)
{
    QString o;
    for (QChar c : s) {
        if (c == u'&') o += QStringLiteral("&amp;");
        else if (c == u'<') o += QStringLiteral("&lt;");
        else if (c == u'>') o += QStringLiteral("&gt;");
        else if (c == u'"') o += QStringLiteral("&quot;");
        else o += c;
    }
    return o;
}

static QString canonElem(const QDomElement &e, bool withChildren)
{
    QString o = QStringLiteral("<") + e.tagName() + QStringLiteral("{") + e.namespaceURI() + QStringLiteral("}");
    std::vector<std::pair<QString, QString>> as;
    auto m = e.attributes();
    for (int i = 0; i < m.count(); i++) {
        auto a = m.item(i).toAttr();
        if (a.name() == u"xmlns" || a.name().startsWith(u"xmlns:")) continue;
        as.push_back({ a.name() + QStringLiteral("{") + a.namespaceURI() + QStringLiteral("}"), a.value() });
    }
    std::sort(as.begin(), as.end(), [](auto &x, auto &y) { return x.first.toUcs4() < y.first.toUcs4(); });
    for (auto &a : as) o += QStringLiteral(" ") + a.first + QStringLiteral("=\"") + escXml(a.second) + QStringLiteral("\"");
    o += QStringLiteral(">");
    if (withChildren) {
        QString pendingText;
        for (auto n = e.firstChild(); !n.isNull(); n = n.nextSibling()) {
            if (n.isElement()) { o += escXml(pendingText); pendingText.clear(); o += canonElem(n.toElement(), true); }
            else if (n.isText()) pendingText += n.toText().data();  // includes CDATA sections
            else { o += escXml(pendingText); pendingText.clear(); o += QStringLiteral("<?other ") + n.nodeName() + QStringLiteral("?>"); }
        }
        o += escXml(pendingText);
    }
    o += QStringLiteral("</>");
    return o;
}

static std::string pct(const QString &s)
{
    QByteArray u = s.toUtf8();
    std::string o;
    static const char *d = "0123456789abcdef";
    for (unsigned char c : u) {
        if (c >= 0x21 && c <= 0x7e && c != '%' && c != '|') o += char(c);
        else { o += '%'; o += d[c >> 4]; o += d[c & 15]; }
    }
    return o;
}

static std::string hexOf(const QByteArray &b) { return hex(reinterpret_cast<const unsigned char *>(b.constData()), size_t(b.size())); }

// ---------------------------------------------------------------- the rig (named like the friend of XmppSocket)
class tst_QXmppStream
{
public:
    QTcpServer server;
    QSslSocket *reader = nullptr;   // owned by the rig, given to XmppSocket::setSocket
    QTcpSocket *writer = nullptr;   // accepted end
    XmppSocket xs { nullptr };
    std::vector<std::string> evs;   // events of the current read
    qint64 consumed = 0;            // bytes the XmppSocket lambda has taken (sum of bytesAvailable at readyRead)
    qint64 pendingN = 0;            // size of the read being processed
    int reads = 0;
    int startedCount = 0;
    struct Read { qint64 n; std::string obs; std::vector<std::string> evs; };
    std::vector<Read> readLog;      // the reads as they really happened (normally exactly one per chunk written)

    tst_QXmppStream()
    {
        QObject::connect(&xs, &XmppSocket::started, [this]() { startedCount++; });
        QObject::connect(&xs, &XmppSocket::streamReceived, [this](const QDomElement &e) { evs.push_back("open:" + pct(canonElem(e, false))); });
        QObject::connect(&xs, &XmppSocket::stanzaReceived, [this](const QDomElement &e) {
            evs.push_back(e.isNull() ? std::string("ka") : "stanza:" + pct(canonElem(e, true)));
        });
        QObject::connect(&xs, &XmppSocket::streamClosed, [this]() { evs.push_back("close"); });
    }

    bool connectPair()
    {
        if (!server.listen(QHostAddress::LocalHost, 0)) return false;
        port = server.serverPort();
        reader = new QSslSocket();
        // our counter first, so that it sees bytesAvailable() before the XmppSocket lambda drains the socket
        QObject::connect(reader, &QSslSocket::readyRead, [this]() { pendingN = reader->bytesAvailable(); consumed += pendingN; reads++; evs.clear(); });
        xs.setSocket(reader);
        // ... and a second slot after the XmppSocket lambda: what that read produced
        QObject::connect(reader, &QSslSocket::readyRead, [this]() { readLog.push_back({ pendingN, observe(), evs }); });
        reader->connectToHost(QHostAddress(QHostAddress::LocalHost).toString(), server.serverPort());
        if (!reader->waitForConnected(5000)) return false;
        if (!server.waitForNewConnection(5000)) return false;
        writer = server.nextPendingConnection();
        writer->setSocketOption(QAbstractSocket::LowDelayOption, 1);
        return writer != nullptr;
    }

    quint16 port = 0;

    // drain whatever the event loop still holds and report reads that happened meanwhile (normally none)
    void settle() { for (int i = 0; i < 3; i++) QCoreApplication::processEvents(); }

    // the peer (or the network) ends the connection; no qxmpp code is asked to do anything
    bool peerLost()
    {
        readLog.clear();
        writer->disconnectFromHost();
        if (reader->state() != QAbstractSocket::UnconnectedState) reader->waitForDisconnected(3000);
        settle();
        writer->deleteLater(); writer = nullptr;
        return reader->state() == QAbstractSocket::UnconnectedState;
    }

    // XmppSocket::disconnectFromHost(): closing tag, then close
    bool localDisconnect()
    {
        readLog.clear();
        xs.disconnectFromHost();
        if (reader->state() != QAbstractSocket::UnconnectedState) reader->waitForDisconnected(3000);
        QElapsedTimer t; t.start();
        while (writer->state() != QAbstractSocket::UnconnectedState && t.elapsed() < 3000) writer->waitForDisconnected(100);
        settle();
        writer->deleteLater(); writer = nullptr;
        return reader->state() == QAbstractSocket::UnconnectedState;
    }

    // the SAME XmppSocket connects again, through its own connectToHost(); returns the number of started() signals
    int reconnect()
    {
        readLog.clear();
        int s0 = startedCount;
        xs.connectToHost({ QXmpp::Private::ServerAddress::Tcp, QStringLiteral("127.0.0.1"), port });
        if (!reader->waitForConnected(5000)) return -1;
        if (!server.hasPendingConnections() && !server.waitForNewConnection(5000)) return -1;
        writer = server.nextPendingConnection();
        if (!writer) return -1;
        writer->setSocketOption(QAbstractSocket::LowDelayOption, 1);
        return startedCount - s0;
    }

    std::string stateObs() { return " buf=" + std::to_string(xs.m_dataBuffer.toUcs4().size()) + " tag=" + std::to_string(xs.m_streamOpenElement.toUcs4().size()); }

    void reset()
    {
        // what `started` does for a new stream: clears the buffer, the cached open tag AND the UTF-8 decoder state
        xs.resetIncomingState();
    }

    std::string observe()
    {
        std::string o;
        for (size_t i = 0; i < evs.size(); i++) { if (i) o += "|"; o += evs[i]; }
        if (o.empty()) o = "-";
        o += " buf=" + std::to_string(xs.m_dataBuffer.toUcs4().size()) + " tag=" + std::to_string(xs.m_streamOpenElement.toUcs4().size());
        return o;
    }

    // writes `chunk`, waits until the XmppSocket has consumed it; readLog = the reads that really happened
    // (one read carrying exactly `chunk` unless the transport re-chunked it)
    bool feedBytes(const QByteArray &chunk)
    {
        evs.clear();
        readLog.clear();
        qint64 target = consumed + chunk.size();
        writer->write(chunk);
        writer->flush();
        QElapsedTimer t; t.start();
        while (consumed < target && t.elapsed() < 10000) {
            if (!reader->waitForReadyRead(2000)) QCoreApplication::processEvents();
        }
        return consumed == target;
    }

    std::string feedText(const QString &text)
    {
        evs.clear();
        xs.processData(text);
        return observe();
    }
};

// ---------------------------------------------------------------- corpus
struct PItem { char kind; QString text; };   // h header, s stanza, w one whitespace char, c closing tag
struct Stream { std::string name; std::vector<PItem> items; QByteArray bytes; QString text; std::vector<int> byteBoundaries; };

static const char *HDR[] = {
    /*0*/ "<?xml version='1.0'?><stream:stream xmlns='jabber:client' xmlns:stream='http://etherx.jabber.org/streams' id='s1' from='example.org' version='1.0' xml:lang='en'>",
    /*1*/ "<stream:stream xmlns:stream='http://etherx.jabber.org/streams' xmlns='jabber:client' to='example.org' version='1.0'>",
    /*2*/ "<?xml version=\"1.0\" encoding=\"UTF-8\"?>\n<stream:stream from=\"juliet@im.example.com\" to=\"im.example.com\" version=\"1.0\" xml:lang=\"en\" xmlns=\"jabber:client\" xmlns:stream=\"http://etherx.jabber.org/streams\">",
    /*3*/ "<stream:stream xmlns='jabber:server' xmlns:stream='http://etherx.jabber.org/streams'>",
    /*4*/ "<?xml version='1.0' encoding='utf-8'?><stream:stream xml:lang='de' version='1.0' from='j\xc3\xb6rg@ex\xc3\xa4mple.org' xmlns:stream='http://etherx.jabber.org/streams' xmlns='jabber:client'>",
    /*5*/ "<?xml version='1.0' encoding='UTF-8' standalone='yes' ?>  <stream:stream\n  xmlns='jabber:client'\n  xmlns:stream='http://etherx.jabber.org/streams'\n  id='multi-line' >",
    /*6*/ "<stream:stream id='a>b' from=\"x>y/>'z\" xmlns:stream='http://etherx.jabber.org/streams' xmlns='jabber:client'>",          // '>' inside header attribute values (381fe43)
    /*7*/ "<?xml version='1.0'\n  encoding='UTF-8'\n?>\n<stream:stream xmlns:stream='http://etherx.jabber.org/streams' xmlns='jabber:client'>",   // line breaks inside the XML declaration (381fe43)
    /*8*/ "<stream:stream from=\"o'brien.example\" id='say \"hi\" > all' xmlns:stream='http://etherx.jabber.org/streams' xmlns='jabber:client'>",   // the other quote character inside a quoted value (seed mutant C03_b2)
};
static const char *STZ[] = {
    /*0*/ "<presence/>",
    /*1*/ "<message to='a@b' type='chat'><body>Hello</body></message>",
    /*2*/ "<iq type='get' id='x1'><query xmlns='jabber:iq:roster'/></iq>",
    /*3*/ "<stream:features><starttls xmlns='urn:ietf:params:xml:ns:xmpp-tls'><required/></starttls><mechanisms xmlns='urn:ietf:params:xml:ns:xmpp-sasl'><mechanism>PLAIN</mechanism></mechanisms></stream:features>",
    /*4*/ "<message><body>a &lt; b &amp;&amp; c &gt; d &quot;q&quot; &apos;s&apos; &#65;&#x42;&#x20AC;</body></message>",
    /*5*/ "<message id='a>b' from=\"x/>y\"><body>t</body></message>",
    /*6*/ "<iq id=\"1>2\" type='result'/>",
    /*7*/ "<message><body>se\xc3\xb1or caf\xc3\xa9</body></message>",                                   // 2-byte
    /*8*/ "<message><body>\xe2\x82\xac \xe6\x97\xa5\xe6\x9c\xac\xe8\xaa\x9e</body></message>",        // 3-byte
    /*9*/ "<message><body>\xf0\x9f\x98\x80\xf0\x9d\x84\x9e</body></message>",                          // 4-byte
    /*10*/ "<presence from='j\xc3\xb6rg@\xe4\xbe\x8b\xe3\x81\x88.jp/\xf0\x9f\x93\xb1'/>",              // mixed, in an attribute
    /*11*/ "<message><body>one</body><x xmlns='jabber:x:data'><field var='a'><value>1</value></field></x></message>",
    /*12*/ "<message><body>a > b ]] c /> d</body></message>",
    /*13*/ "<iq><q:query xmlns:q='urn:x'><q:item q:a='1' b=\"&lt;&#x3e;\"/></q:query></iq>",
    /*14*/ "<message>\n  <body>multi\nline </body>\n</message>",
    /*15*/ "<a xmlns='urn:a'><b xmlns=''><c/></b>t&amp;<d xmlns='urn:d'>\xc3\x9f</d>u</a>",
    /*16*/ "<r xmlns='urn:xmpp:sm:3' h='5'/>",
    /*17*/ "<message><body>\xef\xbb\xbfzwnbsp \xef\xbf\xbd repl</body></message>",                      // U+FEFF and U+FFFD as content
};

static Stream mk(const std::string &name, int hdr, std::initializer_list<const char *> parts, bool close)
{
    Stream s; s.name = name;
    if (hdr >= 0) s.items.push_back({ 'h', QString::fromUtf8(HDR[hdr]) });
    for (const char *p : parts) {
        QString t = QString::fromUtf8(p);
        if (!t.isEmpty() && t[0] != u'<') { for (QChar c : t) s.items.push_back({ 'w', QString(c) }); }
        else s.items.push_back({ 's', t });
    }
    if (close) s.items.push_back({ 'c', QStringLiteral("</stream:stream>") });
    for (auto &it : s.items) { s.byteBoundaries.push_back(s.bytes.size()); s.text += it.text; s.bytes += it.text.toUtf8(); }
    s.byteBoundaries.push_back(s.bytes.size());
    return s;
}

static std::vector<Stream> corpus()
{
    auto S = [](int i) { return STZ[i]; };
    std::vector<Stream> c;
    c.push_back(mk("s00", 0, { S(0) }, true));
    c.push_back(mk("s01", 1, { S(1) }, false));
    c.push_back(mk("s02", 2, { S(2), S(0) }, true));
    c.push_back(mk("s03", 3, { S(16) }, true));
    c.push_back(mk("s04", 1, { S(7) }, true));
    c.push_back(mk("s05", 3, { S(8) }, false));
    c.push_back(mk("s06", 3, { S(9) }, true));
    c.push_back(mk("s07", 1, { S(10) }, true));
    c.push_back(mk("s08", 4, { S(0) }, true));
    c.push_back(mk("s09", 5, { S(1) }, true));
    c.push_back(mk("s10", 0, { S(3) }, false));
    c.push_back(mk("s11", 1, { S(4) }, true));
    c.push_back(mk("s12", 3, { S(5), S(6) }, true));
    c.push_back(mk("s13", 1, { S(11) }, false));
    c.push_back(mk("s14", 3, { S(12) }, true));
    c.push_back(mk("s15", 1, { S(13) }, true));
    c.push_back(mk("s16", 3, { S(14) }, true));
    c.push_back(mk("s17", 1, { S(15) }, true));
    c.push_back(mk("s18", 0, { S(0), " ", S(1), "\n", S(2) }, true));
    c.push_back(mk("s19", 1, { S(1), "\r\n", S(7), " \t ", S(0) }, true));
    c.push_back(mk("s20", 2, { "\n", S(3), "\n", S(16), "\n" }, true));
    c.push_back(mk("s21", 3, { S(0), S(0), S(0), S(16), S(6) }, true));
    c.push_back(mk("s22", 4, { S(7), S(8), S(9) }, true));
    c.push_back(mk("s23", 5, { S(10), " ", S(9) }, false));
    c.push_back(mk("s24", 1, { S(4), S(5), " ", S(12) }, true));
    c.push_back(mk("s25", 0, { S(13), S(15) }, true));
    c.push_back(mk("s26", 3, { S(14), "\n", S(14) }, false));
    c.push_back(mk("s27", 1, { " ", " ", S(0), " " }, true));
    c.push_back(mk("s28", 3, {}, true));                          // header and close only
    c.push_back(mk("s29", 0, {}, false));                         // header only
    c.push_back(mk("s30", 2, { S(8), "\n", S(10), "\n", S(7) }, true));
    c.push_back(mk("s31", 4, { S(11), S(2), " ", S(9) }, true));
    c.push_back(mk("s32", 5, { S(5), S(13) }, true));
    c.push_back(mk("s33", 1, { S(6), S(6), "\n\n", S(16) }, true));
    c.push_back(mk("s34", 3, { S(15), S(4) }, false));
    c.push_back(mk("s35", 0, { S(2), S(11), S(1) }, true));
    c.push_back(mk("s36", 1, { S(9), S(9) }, true));
    c.push_back(mk("s37", 3, { S(10), S(7), " ", S(8), "\n" }, true));
    c.push_back(mk("s38", 2, { S(12), S(5), S(0) }, false));
    c.push_back(mk("s39", 1, { S(0), "\xc2\xa0", S(16), "\xe3\x80\x80", S(0) }, true));   // NBSP / ideographic space: QChar::isSpace but not XML white space
    c.push_back(mk("s40", 3, { S(17), S(0) }, true));
    c.push_back(mk("s41", 6, { S(0), S(7) }, true));
    c.push_back(mk("s42", 7, { S(1), " ", S(17) }, true));
    c.push_back(mk("s43", 8, { S(0), S(8) }, true));
    return c;
}

// ---------------------------------------------------------------- helpers
// UTF-16 offset of every code point (QString::fromUcs4 must not be used for substrings: it strips a leading U+FEFF)
static std::vector<int> cpOffsets(const QString &s)
{
    std::vector<int> o;
    for (int i = 0; i < s.size(); i++) {
        o.push_back(i);
        if (s[i].isHighSurrogate() && i + 1 < s.size() && s[i + 1].isLowSurrogate()) i++;
    }
    o.push_back(s.size());
    return o;
}

static bool startsWithBom(const QByteArray &bytes, int pos)
{
    return pos + 2 < bytes.size() && static_cast<unsigned char>(bytes[pos]) == 0xEF &&
        static_cast<unsigned char>(bytes[pos + 1]) == 0xBB && static_cast<unsigned char>(bytes[pos + 2]) == 0xBF;
}

static bool insideMultibyte(const QByteArray &bytes, int pos)   // cut before byte `pos`
{
    return pos > 0 && pos < bytes.size() && (static_cast<unsigned char>(bytes[pos]) & 0xC0) == 0x80;
}

static std::vector<std::string> nonKeepAlive(const std::vector<std::string> &evs)
{
    std::vector<std::string> o;
    for (auto &e : evs) if (e != "ka") o.push_back(e);
    return o;
}

static std::string joinEvs(const std::vector<std::string> &v)
{
    std::string o;
    for (size_t i = 0; i < v.size(); i++) { if (i) o += "|"; o += v[i]; }
    return o.empty() ? "-" : o;
}

struct Runner {
    tst_QXmppStream &rig;
    long long transportRetries = 0;
    std::map<std::string, std::vector<std::string>> wholeEvents;   // stream -> events of the one-read run

    std::vector<int> actualCuts;   // read boundaries of the last runBytes as they really happened

    // feeds the chunks through the socket, printing one correspondence line per read; returns all events
    std::vector<std::string> runBytes(const std::vector<QByteArray> &chunks)
    {
        std::vector<std::string> all;
        rig.reset();
        actualCuts.clear();
        corr("reset", "ok");
        int pos = 0;
        for (auto &ch : chunks) {
            if (!rig.feedBytes(ch)) { fprintf(stderr, "loopback transport stalled\n"); exit(3); }
            if (rig.readLog.size() != 1) { transportRetries++; stat("transport_rechunked"); }
            int off = 0;
            for (auto &rd : rig.readLog) {
                corr("b " + hexOf(ch.mid(off, int(rd.n))), rd.obs);
                for (auto &e : rd.evs) all.push_back(e);
                off += int(rd.n); pos += int(rd.n);
                actualCuts.push_back(pos);
            }
        }
        if (!actualCuts.empty()) actualCuts.pop_back();
        return all;
    }

    // reads that happened outside a feed (around a disconnect / connect): normally none
    void flushStrayReads(std::vector<std::string> *into)
    {
        for (auto &rd : rig.readLog) {
            corr("b", rd.obs);   // only an empty read can happen here
            if (into) for (auto &e : rd.evs) into->push_back(e);
            stat("stray_reads_around_disconnect");
        }
        rig.readLog.clear();
    }

    // feed without resetting anything (used inside multi-connection histories)
    std::vector<std::string> feedMore(const std::vector<QByteArray> &chunks)
    {
        std::vector<std::string> all;
        for (auto &ch : chunks) {
            if (!rig.feedBytes(ch)) { fprintf(stderr, "loopback transport stalled\n"); exit(3); }
            if (rig.readLog.size() != 1) { transportRetries++; stat("transport_rechunked"); }
            int off = 0;
            for (auto &rd : rig.readLog) {
                corr("b " + hexOf(ch.mid(off, int(rd.n))), rd.obs);
                for (auto &e : rd.evs) all.push_back(e);
                off += int(rd.n);
            }
        }
        return all;
    }

    void endConnection(bool local)
    {
        bool ok = local ? rig.localDisconnect() : rig.peerLost();
        if (!ok) { fprintf(stderr, "connection did not close\n"); exit(3); }
        flushStrayReads(nullptr);
        corr(local ? "localDisconnect" : "peerLost", "-" + rig.stateObs());
    }

    void connectAgain()
    {
        int st = rig.reconnect();
        if (st < 0) { fprintf(stderr, "reconnect failed\n"); exit(3); }
        flushStrayReads(nullptr);
        corr("connect", (st == 1 ? std::string("started") : "started*" + std::to_string(st)) + rig.stateObs());
    }

    std::vector<std::string> runText(const std::vector<QString> &chunks)
    {
        std::vector<std::string> all;
        rig.reset();
        corr("reset", "ok");
        for (auto &ch : chunks) {
            std::string obs = rig.feedText(ch);
            corr("t " + hexOf(ch.toUtf8()), obs);
            for (auto &e : rig.evs) all.push_back(e);
        }
        return all;
    }

    void judge(const Stream &s, const std::vector<int> &cuts, const std::vector<std::string> &evs, const char *how)
    {
        auto got = nonKeepAlive(evs);
        auto &want = wholeEvents[s.name];
        if (got == want) { oraclePass()++; return; }
        bool mb = false, bom = false;
        for (int c : cuts) { if (insideMultibyte(s.bytes, c)) mb = true; if (startsWithBom(s.bytes, c)) bom = true; }
        std::string cutsS;
        for (int c : cuts) cutsS += (cutsS.empty() ? "" : ",") + std::to_string(c);
        std::string key = s.name.rfind("after-close", 0) == 0 ? "C03:bytes-after-stream-close"
            : mb ? "C03:split-inside-multibyte-char" : bom ? "C03:read-starting-with-zwnbsp-drops-it" : "C03:split-changes-events:" + s.name;
        oracleFail(key, std::string(how) + " stream=" + s.name + " bytes=" + hexOf(s.bytes) + " cuts=" + cutsS +
                   " one-read=" + joinEvs(want) + " split=" + joinEvs(got));
        stat(mb ? "oracle_fail_inside_multibyte" : bom ? "oracle_fail_read_starts_with_zwnbsp" : "oracle_fail_other");
    }

    void runSplit(const Stream &s, std::vector<int> cuts, const char *how)
    {
        std::sort(cuts.begin(), cuts.end());
        cuts.erase(std::unique(cuts.begin(), cuts.end()), cuts.end());
        std::vector<QByteArray> chunks;
        int prev = 0;
        for (int c : cuts) { if (c <= 0 || c >= s.bytes.size()) continue; chunks.push_back(s.bytes.mid(prev, c - prev)); prev = c; }
        chunks.push_back(s.bytes.mid(prev));
        auto evs = runBytes(chunks);
        std::vector<int> eff = actualCuts;
        judge(s, eff, evs, how);
        stat(std::string("runs_") + how);
        bool mb = false; for (int c : eff) if (insideMultibyte(s.bytes, c)) mb = true;
        if (mb) stat("runs_with_cut_inside_multibyte");
    }
};

// ---------------------------------------------------------------- PrefixOracle on the real QDomDocument
static QString wrapLikeTheCode(const QString &tag, const QString &buf, bool &hasOpen, bool &hasClose, QString &captured)
{
    static const QRegularExpression streamStartRegex(QStringLiteral(R"re(^(<\?xml[^>]*\?>)?\s*<stream:stream(?:[^>'"]|'[^']*'|"[^"]*")*>)re"));
    static const QRegularExpression streamEndRegex(QStringLiteral(R"(</stream:stream>\s*$)"));
    auto m = streamStartRegex.match(buf);
    hasOpen = m.hasMatch();
    captured = hasOpen ? m.captured() : QString();
    hasClose = streamEndRegex.match(buf).hasMatch();
    QString w = buf;
    if (!hasOpen) w.prepend(tag);
    if (!hasClose) w.append(QStringLiteral("</stream:stream>"));
    return w;
}

static bool domChildren(const QString &wrapped, QString &root, std::vector<QString> &kids)
{
    QDomDocument doc;
    if (!doc.setContent(wrapped, true)) return false;
    root = canonElem(doc.documentElement(), false);
    for (auto e = doc.documentElement().firstChildElement(); !e.isNull(); e = e.nextSiblingElement()) kids.push_back(canonElem(e, true));
    return true;
}

// returns number of violations; items = A ++ B ++ C, p = proper non-empty part of the first item of C
static long long checkPrefixOracle(const Stream &s, long long &checks, const QString &t0 = QString())
{
    long long viol = 0;
    size_t n = s.items.size();
    // expected: canonical children of the whole stream parsed at once
    QString wholeRoot; std::vector<QString> wholeKids;
    {
        bool ho, hc; QString cap;
        QString w = wrapLikeTheCode(QString(), s.text, ho, hc, cap);
        if (!domChildren(w, wholeRoot, wholeKids)) return 1;
    }
    std::vector<int> stanzaIndex(n, -1);
    { int k = 0; for (size_t i = 0; i < n; i++) if (s.items[i].kind == 's') stanzaIndex[i] = k++; if (k != int(wholeKids.size())) return 1; }
    auto tagAfter = [&](size_t a) { QString t = t0; for (size_t i = 0; i < a; i++) if (s.items[i].kind == 'h') t = s.items[i].text; return t; };
    for (size_t a = 0; a <= n; a++) {
        QString tag = tagAfter(a);
        QString seg;
        for (size_t b = a; b <= n; b++) {   // B = items[a..b)
            if (b > a) seg += s.items[b - 1].text;
            bool nonws = false;
            for (size_t i = a; i < b; i++) if (s.items[i].kind != 'w') nonws = true;
            if (nonws) {
                checks++;
                bool ho, hc; QString cap, root; std::vector<QString> kids;
                QString w = wrapLikeTheCode(tag, seg, ho, hc, cap);
                bool ok = domChildren(w, root, kids);
                bool wantOpen = false, wantClose = false; std::vector<QString> wantKids;
                for (size_t i = a; i < b; i++) {
                    if (s.items[i].kind == 'h') wantOpen = true;
                    if (s.items[i].kind == 'c') wantClose = true;
                    if (s.items[i].kind == 's') wantKids.push_back(wholeKids[size_t(stanzaIndex[i])]);
                }
                QString newTag = ho ? cap : tag;
                if (!ok || ho != wantOpen || hc != wantClose || kids != wantKids || (ho && root != wholeRoot) || newTag != tagAfter(b)) viol++;
            }
            if (b < n) {
                const QString &t = s.items[b].text;
                auto off = cpOffsets(t);
                for (size_t k = 1; k + 1 < off.size(); k++) {
                    checks++;
                    QString p = t.left(off[k]);
                    bool ho, hc; QString cap, root; std::vector<QString> kids;
                    QString w = wrapLikeTheCode(tag, seg + p, ho, hc, cap);
                    if (domChildren(w, root, kids)) viol++;
                }
            }
        }
    }
    return viol;
}

static std::string oracleOp(const Stream &s)
{
    std::string op = "oracle";
    for (auto &it : s.items) { op += " "; op += it.kind; op += hexOf(it.text.toUtf8()); }
    return op;
}

// ---------------------------------------------------------------- main
int main(int argc, char **argv)
{
    QCoreApplication app(argc, argv);
    Args a = parseArgs(argc, argv);

    if (a.mode == "probe") {   // stdin: one hex-encoded UTF-8 text per line -> canonical parse
        std::string line;
        while (std::getline(std::cin, line)) {
            QString text = QString::fromUtf8(QByteArray::fromHex(QByteArray::fromStdString(line)));
            QString root; std::vector<QString> kids;
            if (!domChildren(text, root, kids)) { printf("FAIL\n"); continue; }
            std::string o = pct(root);
            for (auto &k : kids) o += " " + pct(k);
            printf("%s\n", o.c_str());
        }
        return 0;
    }

    bool thorough = a.tier == "thorough";
    tst_QXmppStream rig;
    if (!rig.connectPair()) { fprintf(stderr, "cannot set up the loopback connection\n"); return 3; }
    QCoreApplication::processEvents();
    stat("started_signals_on_connect", rig.startedCount);
    Runner R { rig };
    Rng rng(a.seed);
    auto cs = corpus();
    stat("corpus_streams", (long long)cs.size());

    // 0. the former defect witnesses (Props/C03.lean `defectChunks`, `zwnbspChunks`), on the real code, first
    {
        Stream w = mk("witness", 3, { "<m>\xc3\xb1</m>" }, false);
        R.wholeEvents[w.name] = nonKeepAlive(R.runBytes({ w.bytes }));
        int cut = w.bytes.indexOf('\xb1');
        R.runSplit(w, { cut }, "witness");
        sample("witness <m>ñ</m> cut between C3 and B1: one-read=" + joinEvs(R.wholeEvents[w.name]));
        // second witness: the read boundary is a character boundary, but the next read starts with U+FEFF (EF BB BF)
        Stream z = mk("witness-zwnbsp", 3, { "<m>\xef\xbb\xbfx</m>" }, false);
        R.wholeEvents[z.name] = nonKeepAlive(R.runBytes({ z.bytes }));
        R.runSplit(z, { int(z.bytes.indexOf('\xef')) }, "witness");
    }

    // 1. one-read runs (reference of the oracle) + PrefixOracle on QDomDocument and on the Lean parser
    long long poChecks = 0, poViol = 0;
    for (auto &s : cs) {
        auto evs = R.runBytes({ s.bytes });
        R.wholeEvents[s.name] = nonKeepAlive(evs);
        size_t want = 0;
        for (auto &it : s.items) if (it.kind != 'w') want++;
        if (R.wholeEvents[s.name].size() != want) oracleFail("C03:one-read-run-incomplete:" + s.name, hexOf(s.bytes));
        else oraclePass()++;
        long long v = checkPrefixOracle(s, poChecks);
        poViol += v;
        if (v > 0) oracleFail("C03:prefix-oracle-violated:" + s.name, "QDomDocument does not satisfy the PrefixOracle hypothesis on " + hexOf(s.bytes));
        corr(oracleOp(s), v == 0 ? "ok" : "violated");
        stat("stream_bytes_total", s.bytes.size());
    }

    // 2. every 2-way split of every corpus stream (byte level, through the socket)
    QElapsedTimer timer; timer.start();
    std::vector<size_t> order(cs.size());
    for (size_t i = 0; i < order.size(); i++) order[i] = i;
    std::sort(order.begin(), order.end(), [&](size_t x, size_t y) { return cs[x].bytes.size() < cs[y].bytes.size(); });
    long long budgetMs = thorough ? 300000 : 45000;
    int exhaustive2 = 0;
    for (size_t oi = 0; oi < order.size(); oi++) {
        auto &s = cs[order[oi]];
        if (timer.elapsed() < budgetMs || oi < 10) {
            for (int k = 1; k < s.bytes.size(); k++) R.runSplit(s, { k }, "split2");
            exhaustive2++;
        } else {
            for (int j = 0; j < 40; j++) R.runSplit(s, { 1 + int(rng.below(uint32_t(s.bytes.size() - 1))) }, "split2sampled");
        }
    }
    stat("streams_with_all_2_splits", exhaustive2);

    // 3. one byte at a time
    for (auto &s : cs) {
        std::vector<int> cuts;
        for (int k = 1; k < s.bytes.size(); k++) cuts.push_back(k);
        R.runSplit(s, cuts, "bytewise");
    }

    // 4. random k-way splits
    int nrand = thorough ? 1000 : 25;
    for (auto &s : cs) {
        for (int j = 0; j < nrand; j++) {
            int k = 2 + int(rng.below(thorough ? 12 : 6));
            std::vector<int> cuts;
            for (int i = 0; i < k; i++) cuts.push_back(1 + int(rng.below(uint32_t(s.bytes.size() - 1))));
            if (j == 0 && &s == &cs[22]) { std::string c; for (int x : cuts) c += std::to_string(x) + " "; sample("random split of " + s.name + " (" + std::to_string(s.bytes.size()) + " bytes) at " + c); }
            R.runSplit(s, cuts, "randomk");
        }
    }

    // 5. thorough: every 3-way split of the shortest streams
    if (thorough) {
        std::vector<size_t> pick;
        for (size_t oi = 0; oi < 5 && oi < order.size(); oi++) pick.push_back(order[oi]);
        for (size_t i : { size_t(4), size_t(5), size_t(6), size_t(7) })          // the streams with 2-, 3-, 4-byte characters
            if (std::find(pick.begin(), pick.end(), i) == pick.end()) pick.push_back(i);
        for (size_t pi : pick) {
            auto &s = cs[pi];
            for (int i = 1; i < s.bytes.size(); i++)
                for (int j = i + 1; j < s.bytes.size(); j++) R.runSplit(s, { i, j }, "split3");
            stat("streams_with_all_3_splits");
        }
    }

    // 6. text level, direct processData calls (includes empty reads, which a socket cannot deliver)
    for (size_t si = 0; si < cs.size(); si++) {
        auto &s = cs[si];
        auto off = cpOffsets(s.text);
        int ncp = int(off.size()) - 1;
        auto sub = [&](int from, int to) { return s.text.mid(off[size_t(from)], off[size_t(to)] - off[size_t(from)]); };
        int step = (thorough || si % 4 == 0) ? 1 : 7;
        for (int k = 0; k <= ncp; k += step) {
            auto evs = R.runText({ sub(0, k), sub(k, ncp) });
            if (nonKeepAlive(evs) == R.wholeEvents[s.name]) oraclePass()++;
            else oracleFail("C03:text-split-changes-events:" + s.name, "cut at char " + std::to_string(k) + " of " + hexOf(s.bytes));
            stat("runs_text2");
        }
        // empty reads sprinkled in
        int k = int(rng.below(uint32_t(ncp)));
        auto evs = R.runText({ QString(), sub(0, k), QString(), sub(k, ncp), QString() });
        if (nonKeepAlive(evs) == R.wholeEvents[s.name]) oraclePass()++;
        else oracleFail("C03:text-split-changes-events:" + s.name, "empty reads, cut at char " + std::to_string(k) + " of " + hexOf(s.bytes));
        stat("runs_text_empty_reads");
    }

    // 7. correspondence-only probes of the two regular expressions and of odd inputs (no oracle: not valid streams,
    //    or inputs whose one-read behaviour is itself questionable)
    {
        const char *NS = " xmlns:stream='http://etherx.jabber.org/streams' xmlns='jabber:client'";
        auto q = [](const std::string &s) { return QString::fromUtf8(s.c_str()); };
        std::vector<std::vector<QString>> seqs = {
            { q("<?xml?><stream:stream" + std::string(NS) + ">"), q("<presence/>") },
            { q("<?xml version='1.0'\n?><stream:stream" + std::string(NS) + ">"), q("<presence/>") },          // LF inside the declaration: `.` does not match it
            { q("<stream:stream" + std::string(NS) + ">"), q("<a/></stream:stream>\n") },                         // `$` before a final LF
            { q("<stream:stream" + std::string(NS) + ">"), q("<a/></stream:stream> ") },                          // but not before a blank
            { q("<stream:stream" + std::string(NS) + ">"), q("<a/></stream:stream>\r\n") },
            { q("<stream:streamx" + std::string(NS) + ">"), q("</stream:streamx>") },
            { q("\n <stream:stream" + std::string(NS) + ">"), q("<presence/>") },
            { q("\x0b\x0c<stream:stream" + std::string(NS) + ">"), q("<presence/>") },
            { q("\xc2\xa0"), q("\xe2\x80\x83"), q("\xe3\x80\x80"), q("\xc2\x85"), q("\xe2\x80\xa8"), q("\xe1\xa0\x8e"), q("\xe2\x80\x8b") },   // QChar::isSpace or not
            { q("<presence/>") },                                                                                  // stanza before any header
            { q("<stream:stream" + std::string(NS) + " id='x'>"), q("<stream:stream" + std::string(NS) + " id='y'>"), q("<presence/>") },   // second header replaces the cached tag
            { q("<stream:stream" + std::string(NS) + ">"), q("garbage"), q("<presence/>") },                    // text at stream level
            { q("<stream:stream" + std::string(NS) + ">"), q("<a>"), q("</b>"), q("</a>") },                   // never parses again
            { q("<?xml version='1.0'?><stream:stream" + std::string(NS) + "><message><body>?><stream:stream ></body></message>"), q("<presence/>") },   // greedy .* of the declaration group
            { q("<stream:stream id='a>b'" + std::string(NS) + ">"), q("<presence/>") },                          // '>' inside a header attribute
            { q("<?xml version='1.0'?>"), q("<stream:stream" + std::string(NS) + ">"), q("<presence/>"), q("</stream:stream>") },
        };
        for (auto &seq : seqs) { R.runText(seq); stat("regex_probe_sequences"); }
    }

    // 8. two legal but unusual headers on which the regex-based header detection goes wrong (judged by the oracle,
    //    every 2-way split; they do NOT satisfy PrefixOracle, so the theorems say nothing about them)
    {
        auto special = [&](const std::string &name, const char *hdr) {
            Stream s; s.name = name;
            s.items = { { 'h', QString::fromUtf8(hdr) }, { 's', QStringLiteral("<presence/>") }, { 'c', QStringLiteral("</stream:stream>") } };
            for (auto &it : s.items) { s.byteBoundaries.push_back(s.bytes.size()); s.text += it.text; s.bytes += it.text.toUtf8(); }
            R.wholeEvents[s.name] = nonKeepAlive(R.runBytes({ s.bytes }));
            for (int k = 1; k < s.bytes.size(); k++) R.runSplit(s, { k }, "special");
        };
        special("header-gt-in-attribute-value", "<stream:stream id='a>b' xmlns:stream='http://etherx.jabber.org/streams' xmlns='jabber:client'>");
        special("header-newline-in-xml-declaration", "<?xml version='1.0'\n?><stream:stream xmlns:stream='http://etherx.jabber.org/streams' xmlns='jabber:client'>");
    }

    // 9. a stream that STARTS with a byte order mark (EF BB BF), and one with U+FEFF as very first character of a later
    //    stanza: every 2-way split and bytewise.  Reference = its own one-read run; additionally the BOM-prefixed stream
    //    must behave like the same stream without BOM (a leading BOM is not content: standard XML behaviour).
    {
        Stream plain = cs[0];
        Stream b = plain; b.name = "bom-at-stream-start"; b.bytes = QByteArray("\xef\xbb\xbf") + plain.bytes;
        R.wholeEvents[b.name] = nonKeepAlive(R.runBytes({ b.bytes }));
        if (R.wholeEvents[b.name] == R.wholeEvents[plain.name]) { oraclePass()++; stat("leading_bom_ignored", 1); }
        else oracleFail("C03:leading-bom-changes-events", "one-read with BOM=" + joinEvs(R.wholeEvents[b.name]) + " without=" + joinEvs(R.wholeEvents[plain.name]));
        for (int k = 1; k < b.bytes.size(); k++) R.runSplit(b, { k }, "bomstart");
        std::vector<int> cuts; for (int k = 1; k < b.bytes.size(); k++) cuts.push_back(k);
        R.runSplit(b, cuts, "bomstart");
    }

    // 10. bytes AFTER the closing tag (legal: XML allows white space after the root element, and servers commonly write a
    //     line break after </stream:stream>): every 2-way split, bytewise, random k-way.  Reference = the one-read run, which
    //     must itself deliver every item of the stream.  Any failure in this family has the key C03:bytes-after-stream-close.
    {
        const char *trailers[] = { " ", "\n", "\r\n", "\n\n", "\t ", " \n", "\r\n\r\n" };
        int ti = 0;
        for (size_t base : { size_t(0), size_t(18), size_t(22) }) {
            for (const char *tr : trailers) {
                Stream s = cs[base];
                s.name = "after-close-" + std::to_string(ti++) + "-" + cs[base].name;
                for (const char *c = tr; *c; c++) s.items.push_back({ 'w', QString(QChar(*c)) });
                s.bytes.clear(); s.text.clear(); s.byteBoundaries.clear();
                for (auto &it : s.items) { s.byteBoundaries.push_back(s.bytes.size()); s.text += it.text; s.bytes += it.text.toUtf8(); }
                auto evs = nonKeepAlive(R.runBytes({ s.bytes }));
                R.wholeEvents[s.name] = evs;
                size_t want = 0;
                for (auto &it : s.items) if (it.kind != 'w') want++;
                {   // the PrefixOracle hypothesis for these streams too: QDomDocument and (driver) the Lean parser
                    long long v = checkPrefixOracle(s, poChecks);
                    poViol += v;
                    if (v > 0) oracleFail("C03:prefix-oracle-violated:" + s.name, "QDomDocument does not satisfy the PrefixOracle hypothesis on " + hexOf(s.bytes));
                    corr(oracleOp(s), v == 0 ? "ok" : "violated");
                }
                if (evs.size() != want) { oracleFail("C03:bytes-after-stream-close", "one-read run delivers " + std::to_string(evs.size()) + " of " + std::to_string(want) + " events: stream=" + s.name + " bytes=" + hexOf(s.bytes) + " one-read=" + joinEvs(evs)); stat("after_close_one_read_incomplete"); }
                else oraclePass()++;
                for (int k = 1; k < s.bytes.size(); k++) R.runSplit(s, { k }, "afterclose");
                std::vector<int> cuts; for (int k = 1; k < s.bytes.size(); k++) cuts.push_back(k);
                R.runSplit(s, cuts, "afterclose");
                for (int j = 0; j < (thorough ? 60 : 6); j++) {
                    std::vector<int> c2; int kk = 2 + int(rng.below(5));
                    for (int i = 0; i < kk; i++) c2.push_back(1 + int(rng.below(uint32_t(s.bytes.size() - 1))));
                    R.runSplit(s, c2, "afterclose");
                }
            }
        }
        // correspondence only (not valid streams): garbage / further stanzas / a second close after the closing tag,
        // in the same read and in the next one
        const char *NS = "<stream:stream xmlns:stream='http://etherx.jabber.org/streams' xmlns='jabber:client'>";
        auto q = [](const std::string &x) { return QString::fromUtf8(x.c_str()); };
        std::vector<std::vector<QString>> seqs = {
            { q(std::string(NS) + "<a/></stream:stream>garbage") },
            { q(std::string(NS) + "<a/></stream:stream>"), q("garbage"), q("<b/>") },
            { q(std::string(NS) + "<a/></stream:stream><b/>") },
            { q(std::string(NS) + "<a/></stream:stream><b/><c/></stream:stream>") },
            { q(std::string(NS) + "<a/></stream:stream>"), q("<b/>"), q("</stream:stream>") },
            { q(std::string(NS) + "<a/></stream:stream>"), q(" "), q("\r\n"), q("<b/>") },
            { q(std::string(NS) + "<a/>"), q("</stream:stream> "), q("<b/>"), q("</stream:stream>") },
            { q(std::string(NS) + "<a/>"), q("</stream:stream>\n<b/>") },
            { q(std::string(NS) + "<a/></stream:stream></stream:stream>") },
            { q(std::string(NS) + "<a/></stream:stream>\n"), q(std::string(NS) + "<b/>") },
        };
        for (auto &seq : seqs) { R.runText(seq); stat("after_close_probe_sequences"); }
    }

    // 11. several connections on ONE XmppSocket (what QXmppOutgoingClient does on every reconnect): connection 1 carries a
    //     prefix of stream A cut at EVERY byte position (inside the header, a tag, an attribute value, an entity, a multi-byte
    //     character, on item boundaries), ends by the peer or locally, then the same object connects again through its own
    //     connectToHost() over loopback and receives stream B (one read, or cut in two).  Oracle: the events of the new connection
    //     are those of B on a fresh object.  Some histories have three connections.
    {
        std::vector<size_t> firsts = thorough ? std::vector<size_t>{ 4, 11, 2, 22, 8, 42 } : std::vector<size_t>{ 4, 11, 2 };
        long long n = 0;
        for (size_t ai : firsts) {
            const Stream &A = cs[ai];
            for (int k = 1; k < A.bytes.size(); k++) {
                for (int ending = 0; ending < 2; ending++) {
                    if (!thorough && ((k + ending) & 1)) continue;     // quick: alternate the way connection 1 ends
                    const Stream &B = cs[(ai + 1 + size_t(k) % 7) % cs.size()];
                    rig.reset();
                    corr("reset", "ok");
                    R.feedMore({ A.bytes.left(k) });
                    R.endConnection(ending == 1);
                    R.connectAgain();
                    std::vector<std::string> evs;
                    bool three = (k % 5 == 0);
                    const Stream *last = &B;
                    if (three) {
                        int kb = 1 + int(rng.below(uint32_t(B.bytes.size() - 1)));
                        R.feedMore({ B.bytes.left(kb) });
                        R.endConnection(ending == 0);
                        R.connectAgain();
                        last = &cs[(ai + 3) % cs.size()];
                    }
                    if (k % 3 == 0) {
                        int c = 1 + int(rng.below(uint32_t(last->bytes.size() - 1)));
                        evs = R.feedMore({ last->bytes.left(c), last->bytes.mid(c) });
                        // a cut inside a multi-byte character must not matter either (decoder state is per connection)
                    } else evs = R.feedMore({ last->bytes });
                    if (nonKeepAlive(evs) == R.wholeEvents[last->name]) oraclePass()++;
                    else {
                        oracleFail("C03:previous-connection-leaks-into-next", "connection 1: first " + std::to_string(k) + " bytes of " + A.name + " (" + hexOf(A.bytes.left(k)) +
                                   ") then " + (ending == 1 ? "localDisconnect" : "peerLost") + (three ? ", a second cut connection," : "") + " then reconnect and stream " + last->name +
                                   ": expected=" + joinEvs(R.wholeEvents[last->name]) + " got=" + joinEvs(nonKeepAlive(evs)));
                        stat("oracle_fail_reconnect");
                    }
                    n++;
                    if (insideMultibyte(A.bytes, k)) stat("reconnect_histories_first_cut_inside_multibyte");
                }
            }
        }
        stat("reconnect_histories", n);
    }

    // 12. SEVERAL streams on one connection (stream restart as after SASL: a new <stream:stream ...> header, no closing tag
    //     before it, no connected()/encrypted() reset).  The headers differ in attributes, default namespace and prefix
    //     declarations (xmlns:x re-bound, xmlns:db added, later dropped), the stanzas use those prefixes, so a stale cached
    //     header shows in the namespace URIs of the delivered elements/attributes.  A restart header always starts a read (it
    //     answers a round trip); inside the sessions every cut position is tried.  Reference = every session in one read.
    {
        const char *SNS = " xmlns:stream='http://etherx.jabber.org/streams'";
        std::string HA = std::string("<?xml version='1.0'?><stream:stream xmlns='jabber:client'") + SNS + " xmlns:x='urn:first' id='one' version='1.0'>";
        std::string HB = std::string("<stream:stream xmlns='jabber:server'") + SNS + " xmlns:x='urn:second' xmlns:db='jabber:server:dialback' id='two' version='1.0' xml:lang='de'>";
        std::string HC = std::string("<stream:stream xmlns='jabber:client'") + SNS + " id='three'>";
        std::string HX = std::string("<stream:stream xmlns='jabber:client'") + SNS + " xmlns:x='urn:1' id='x'>";
        std::string HY = std::string("<stream:stream xmlns='jabber:client'") + SNS + " xmlns:x='urn:2' id='y'>";   // same length as HX
        const char *FEAT = "<stream:features><x:ext a='1' x:b='2'/><mechanisms xmlns='urn:ietf:params:xml:ns:xmpp-sasl'><mechanism>PLAIN</mechanism></mechanisms></stream:features>";
        const char *SUCC = "<success xmlns='urn:ietf:params:xml:ns:xmpp-sasl'/>";
        const char *FEAT2 = "<stream:features><x:ext a='1' x:b='2'/><db:dialback/><bind xmlns='urn:ietf:params:xml:ns:xmpp-bind'/></stream:features>";
        const char *MSG = "<message to='a@b'><body>se\xc3\xb1or</body><x:y x:z='1'/></message>";
        const char *XEXT = "<x:ext/>";
        const char *IQ = "<iq type='result' id='b1'/>";
        auto session = [&](const std::string &name, const std::string &hdr, std::initializer_list<const char *> parts, bool close) {
            Stream s; s.name = name;
            s.items.push_back({ 'h', QString::fromUtf8(hdr.c_str()) });
            for (const char *p : parts) {
                QString t = QString::fromUtf8(p);
                if (!t.isEmpty() && t[0] != u'<') { for (QChar c : t) s.items.push_back({ 'w', QString(c) }); }
                else s.items.push_back({ 's', t });
            }
            if (close) s.items.push_back({ 'c', QStringLiteral("</stream:stream>") });
            for (auto &it : s.items) { s.byteBoundaries.push_back(s.bytes.size()); s.text += it.text; s.bytes += it.text.toUtf8(); }
            s.byteBoundaries.push_back(s.bytes.size());
            return s;
        };
        std::vector<std::pair<std::string, std::vector<Stream>>> multis = {
            { "restart-ABC", { session("A", HA, { FEAT, SUCC }, false), session("B", HB, { FEAT2, MSG, " " }, false), session("C", HC, { XEXT, IQ }, true) } },
            { "restart-BA", { session("B", HB, { FEAT2, SUCC }, false), session("A", HA, { FEAT, MSG }, true) } },
            { "restart-XY", { session("X", HX, { XEXT }, false), session("Y", HY, { XEXT, "\n", XEXT }, false) } },
            { "restart-AA", { session("A", HA, { SUCC }, false), session("A", HA, { FEAT, IQ }, true) } },
        };
        for (auto &m : multis) {
            auto &sess = m.second;
            // reference: every session in one read
            std::vector<QByteArray> ref; QByteArray all; std::vector<int> bounds;
            for (auto &ss : sess) { ref.push_back(ss.bytes); all += ss.bytes; bounds.push_back(all.size()); }
            bounds.pop_back();
            auto want = nonKeepAlive(R.runBytes(ref));
            size_t expectN = 0; for (auto &ss : sess) for (auto &it : ss.items) if (it.kind != 'w') expectN++;
            if (want.size() != expectN) oracleFail("C03:restart-split-changes-events:" + m.first, "session-per-read run delivers " + std::to_string(want.size()) + " of " + std::to_string(expectN) + " events: " + joinEvs(want));
            else oraclePass()++;
            // PrefixOracleFrom per session (QDomDocument here, the Lean parser in the driver), t0 = previous header
            QString t0;
            for (auto &ss : sess) {
                long long v = checkPrefixOracle(ss, poChecks, t0);
                poViol += v;
                if (v > 0) oracleFail("C03:prefix-oracle-violated:" + m.first + "/" + ss.name, "session oracle violated");
                std::string op = "oracleS " + (t0.isEmpty() ? std::string("-") : hexOf(t0.toUtf8()));
                for (auto &it : ss.items) { op += " "; op += it.kind; op += hexOf(it.text.toUtf8()); }
                corr(op, v == 0 ? "ok" : "violated");
                t0 = ss.items[0].text;
            }
            auto runCuts = [&](std::vector<int> cuts, const char *how) {
                for (int b : bounds) cuts.push_back(b);
                std::sort(cuts.begin(), cuts.end());
                cuts.erase(std::unique(cuts.begin(), cuts.end()), cuts.end());
                std::vector<QByteArray> chunks; int prev = 0;
                for (int c : cuts) { if (c <= 0 || c >= all.size()) continue; chunks.push_back(all.mid(prev, c - prev)); prev = c; }
                chunks.push_back(all.mid(prev));
                auto got = nonKeepAlive(R.runBytes(chunks));
                if (got == want) oraclePass()++;
                else {
                    std::string cs2; for (int c : R.actualCuts) cs2 += (cs2.empty() ? "" : ",") + std::to_string(c);
                    oracleFail("C03:restart-split-changes-events:" + m.first, std::string(how) + " bytes=" + hexOf(all) + " cuts=" + cs2 + " session-per-read=" + joinEvs(want) + " split=" + joinEvs(got));
                    stat("oracle_fail_restart");
                }
                stat("runs_restart");
            };
            for (int k = 1; k < all.size(); k++) runCuts({ k }, "restart1");
            { std::vector<int> c; for (int k = 1; k < all.size(); k++) c.push_back(k); runCuts(c, "restartbytewise"); }
            for (int j = 0; j < (thorough ? 400 : 40); j++) {
                std::vector<int> c; int kk = 2 + int(rng.below(6));
                for (int i = 0; i < kk; i++) c.push_back(1 + int(rng.below(uint32_t(all.size() - 1))));
                runCuts(c, "restartrandom");
            }
            // correspondence only: a restart header in the MIDDLE of a read is not recognised (anchored expression)
            R.runBytes({ all });
            if (sess.size() >= 2) R.runBytes({ sess[0].bytes + sess[1].bytes.left(sess[1].byteBoundaries[1]), sess[1].bytes.mid(sess[1].byteBoundaries[1]) });
            stat("restart_streams");
        }
    }

    stat("prefix_oracle_checks", poChecks);
    stat("prefix_oracle_violations", poViol);
    stat("transport_retries", R.transportRetries);
    finish();
    return 0;
}
