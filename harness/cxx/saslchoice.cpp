// C05 harness: drives the real QXmpp::Private::SaslManager::authenticate and Sasl2Manager::authenticate with a
// capturing SendDataInterface.  Observation = mechanism attribute of the emitted <auth/> / <authenticate/> (+ whether a
// FAST <fast/> request is attached) or the reported error.  Prints op/observation lines for the Lean model
// (qxdriver_c05) and evaluates the property itself (oracle) independently of the model.
//
// Line protocol (one case = one line after a `reset` line carrying the configuration):
//   reset <mode> <disabled> <preferred> <creds> <universe>     -> ok
//        mode      sasl | sasl2:<useFast 0|1>:<userAgent 0|1>
//        disabled  default (library default untouched) | - | n1,n2,...
//        preferred - | name
//        creds     - | comma list of  pw  ht=<IanaHashAlgorithm value>:<ChannelBindingType enumerator>[:s0|:sn]  fbt fba goo wl ;
//                  a trailing 0 (pw0 fbt0 fba0 goo0 wl0) = the string is set but EMPTY (non-null); absent = null QString;
//                  :s0 / :sn = the HT token's secret is empty / null
//        universe  names addressed by the bit masks of `m` lines
//   m <hexmask> <fast>     offer = universe names with bit set, in universe order; fast = ! (no <fast/> feature) | hexmask
//   l <names> <fastnames>  explicit lists (order, duplicates); - = empty list, % = empty name, ! = no <fast/> feature
// observation:  sent <mechanism> <fast 0|1>  |  mismatch <offered-but-disabled names|->  |  error <text>
//
// Client level (a real QXmppClient/QXmppOutgoingClient over a fake transport, fed <stream:features/>):
//   resetc <useSasl2><useSASL><useNonSASL>:<useFast>:<userAgent> <disabled> <preferred> <creds> <universe>   -> ok
//   c <mask> <legacy 0|1> <bind 0|1> <sasl2mask|!> <fastmask|!>    features: <mechanisms/> = names of mask (0 = element absent),
//        <auth xmlns='http://jabber.org/features/iq-auth'/>, <bind/>, SASL 2 <authentication/> with its own mechanisms and <fast/>
//   k <names> <legacy> <bind> <names2|!> <fastnames|!>             same with explicit lists
// observation:  <action> <disconnected 0|1>   action = sasl <mech> | sasl2 <mech> <fast> | mismatch <names|-> | legacy | bind |
//               session | nothing | several joined by + (never expected)
#include "common.h"

#include "QXmppConfiguration.h"
#include "QXmppSasl2UserAgent.h"
#include "QXmppSaslManager_p.h"
#include "QXmppSasl_p.h"
#include "XmppSocket.h"
#include "QXmppClient.h"
#include "QXmppClient_p.h"
#include "QXmppError.h"
#include "QXmppOutgoingClient.h"

#include <QCoreApplication>
#include <QDomDocument>
#include <QSslSocket>
#include <QUuid>
#include <algorithm>
#include <optional>
#include <set>

using namespace vh;
using namespace QXmpp::Private;
using S = std::string;
using SV = std::vector<std::string>;

struct Capture : SendDataInterface {
    std::vector<QByteArray> sent;
    bool sendData(const QByteArray &d) override { sent.push_back(d); return true; }
};

// ------------------------------------------------------------------------------------------ configuration of a case group
// every string credential has three states: 0 = null QString (never set), 1 = empty but non-null (QString(""),
// e.g. the text of an empty input field or a cleared value), 2 = non-empty. Only state 2 is a usable secret.
struct Creds {
    int pw = 0, fbt = 0, fba = 0, goo = 0, wl = 0;
    int htHash = -1;      // IanaHashAlgorithm value of the stored token, -1 = no token
    S htCb;               // ChannelBindingType enumerator name
    int htSecret = 2;     // state of the token's secret string (the availability predicate does not look at it)
};
struct Conf {
    bool sasl2 = false, useFast = false, ua = false;
    bool defaultDisabled = true;
    SV disabled;          // when !defaultDisabled
    S preferred;          // empty = none
    Creds creds;
    SV universe;
};

static const char *HASH_NAMES[] = { "SHA-256", "SHA-384", "SHA-512", "SHA3-224", "SHA3-256", "SHA3-384", "SHA3-512" };  // IANA names, XEP-0484
static const int N_HASH = 7;
static const char *CB_ENUM[] = { "TlsServerEndpoint", "TlsUnique", "TlsExporter", "None" };
static const char *CB_TEXT[] = { "ENDP", "UNIQ", "EXPR", "NONE" };

static SaslHtMechanism::ChannelBindingType cbOf(const S &e)
{
    if (e == "TlsServerEndpoint") return SaslHtMechanism::TlsServerEndpoint;
    if (e == "TlsUnique") return SaslHtMechanism::TlsUnique;
    if (e == "TlsExporter") return SaslHtMechanism::TlsExporter;
    return SaslHtMechanism::None;
}
static S tokenName(const Creds &c)  // the mechanism name the stored token is for (XEP-0484 naming), "" = no token
{
    if (c.htHash < 0) return "";
    for (int i = 0; i < 4; i++) if (c.htCb == CB_ENUM[i]) return S("HT-") + HASH_NAMES[c.htHash] + "-" + CB_TEXT[i];
    return "";
}

static S encName(const S &n) { return n.empty() ? "%" : n; }
static S encList(const SV &l) { if (l.empty()) return "-"; S s; for (size_t i = 0; i < l.size(); i++) { if (i) s += ","; s += encName(l[i]); } return s; }
static QStringList qlist(const SV &l) { QStringList q; for (auto &s : l) q << QString::fromStdString(s); return q; }

static S credsStr(const Creds &c)
{
    SV parts;
    auto str = [&](int st, const char *n) { if (st == 2) parts.push_back(n); else if (st == 1) parts.push_back(S(n) + "0"); };
    str(c.pw, "pw");
    if (c.htHash >= 0) parts.push_back("ht=" + std::to_string(c.htHash) + ":" + c.htCb + (c.htSecret == 1 ? ":s0" : c.htSecret == 0 ? ":sn" : ""));
    str(c.fbt, "fbt");
    str(c.fba, "fba");
    str(c.goo, "goo");
    str(c.wl, "wl");
    return encList(parts);
}
static S confLine(const Conf &c)
{
    S mode = c.sasl2 ? S("sasl2:") + (c.useFast ? "1" : "0") + ":" + (c.ua ? "1" : "0") : S("sasl");
    return "reset " + mode + " " + (c.defaultDisabled ? S("default") : encList(c.disabled)) + " " +
        (c.preferred.empty() ? S("-") : c.preferred) + " " + credsStr(c.creds) + " " + encList(c.universe);
}

static QXmppConfiguration makeConfig(const Conf &c)
{
    QXmppConfiguration cfg;
    cfg.setUser(QStringLiteral("user"));
    cfg.setDomain(QStringLiteral("example.org"));
    if (!c.defaultDisabled) cfg.setDisabledSaslMechanisms(qlist(c.disabled));
    if (!c.preferred.empty()) cfg.setSaslAuthMechanism(QString::fromStdString(c.preferred));
    // state 1: an empty, non-null QString (isEmpty() && !isNull()); state 0: the field is left untouched (null QString)
    auto val = [](int st, const char *text) { return st == 2 ? QString::fromLatin1(text) : QString(""); };
    if (c.creds.pw) cfg.setPassword(val(c.creds.pw, "secret"));
    if (c.creds.htHash >= 0) {
        cfg.credentialData().htToken = HtToken { SaslHtMechanism { IanaHashAlgorithm(c.creds.htHash), cbOf(c.creds.htCb) },
                                                 c.creds.htSecret == 0 ? QString() : val(c.creds.htSecret, "tok"), QDateTime() };
    }
    if (c.creds.fbt) cfg.setFacebookAccessToken(val(c.creds.fbt, "fbtoken"));
    if (c.creds.fba) cfg.setFacebookAppId(val(c.creds.fba, "fbapp"));
    if (c.creds.goo) cfg.setGoogleAccessToken(val(c.creds.goo, "gootoken"));
    if (c.creds.wl) cfg.setWindowsLiveAccessToken(val(c.creds.wl, "d2x0b2tlbg=="));
    cfg.setUseFastTokenAuthentication(c.useFast);
    if (c.ua) cfg.setSasl2UserAgent(QXmppSasl2UserAgent(QUuid(QStringLiteral("{d4565fa7-4d72-4749-b3d3-740edbf87770}")), QStringLiteral("verif"), QStringLiteral("box")));
    return cfg;
}

// ------------------------------------------------------------------------------------------ one call on the real code
struct Obs {
    bool sent = false;
    S mech; bool fast = false;
    bool mismatch = false; SV disabledOffered;
    S error;      // anything else
    size_t nSent = 0; bool pending = false; bool wellFormed = true;
    S str() const
    {
        if (!error.empty()) return "error " + error;
        if (sent) return "sent " + encName(mech) + " " + (fast ? "1" : "0");
        return "mismatch " + encList(disabledOffered);
    }
};

static QXmppLoggable *g_log;

// the mismatch text lists the offered-but-disabled names; false = text of an unexpected shape
static bool parseMismatchText(QString t, SV &disabledOffered)
{
    const QString head = QStringLiteral("No supported SASL mechanism available");
    if (!t.startsWith(head)) return false;
    t = t.mid(head.size());
    if (t.isEmpty()) return true;
    const QString pre = QStringLiteral(" ("), post = QStringLiteral(" is disabled)");
    if (!t.startsWith(pre) || !t.endsWith(post)) return false;
    t = t.mid(pre.size(), t.size() - pre.size() - post.size());
    for (auto &p : t.split(QStringLiteral(", "))) disabledOffered.push_back(p.toStdString());
    return true;
}

template<typename Result>
static void readError(const Result &r, Obs &o)
{
    using Err = std::pair<QString, QXmpp::AuthenticationError>;
    if (auto *e = std::get_if<Err>(&r)) {
        if (e->second.type == QXmpp::AuthenticationError::MechanismMismatch) {
            o.mismatch = true;
            if (!parseMismatchText(e->first, o.disabledOffered)) o.error = "mismatch-with-unexpected-text";
        } else {
            o.error = "type" + std::to_string(int(e->second.type));
        }
    } else {
        o.error = "finished-with-success";
    }
}

static Obs runCase(const Conf &c, const QXmppConfiguration &cfg, const SV &offer, const std::optional<SV> &fast)
{
    Obs o;
    Capture cap;
    QObject ctx;
    bool got = false;
    if (!c.sasl2) {
        SaslManager mgr(&cap);
        auto task = mgr.authenticate(cfg, qlist(offer), g_log);
        o.pending = !task.isFinished();
        if (task.isFinished()) task.then(&ctx, [&](SaslManager::AuthResult &&r) { got = true; readError(r, o); });
    } else {
        Sasl2Manager mgr(&cap);
        Sasl2::StreamFeature f;
        f.mechanisms = qlist(offer);
        if (fast) {
            FastFeature ff;
            for (auto &s : *fast) ff.mechanisms.push_back(QString::fromStdString(s));
            f.fast = ff;
        }
        auto task = mgr.authenticate(Sasl2::Authenticate {}, cfg, f, g_log);
        o.pending = !task.isFinished();
        if (task.isFinished()) task.then(&ctx, [&](Sasl2Manager::AuthResult &&r) { got = true; readError(r, o); });
    }
    o.nSent = cap.sent.size();
    if (o.pending) {
        if (cap.sent.size() != 1) { o.error = "pending-but-sent-" + std::to_string(cap.sent.size()); return o; }
        QDomDocument doc;
        if (!doc.setContent(cap.sent[0], true)) { o.error = "sent-unparsable-xml"; return o; }
        auto el = doc.documentElement();
        const QString wantTag = c.sasl2 ? QStringLiteral("authenticate") : QStringLiteral("auth");
        const QString wantNs = c.sasl2 ? QStringLiteral("urn:xmpp:sasl:2") : QStringLiteral("urn:ietf:params:xml:ns:xmpp-sasl");
        if (el.tagName() != wantTag || el.namespaceURI() != wantNs || !el.hasAttribute(QStringLiteral("mechanism"))) {
            o.error = "sent-unexpected-element-" + el.tagName().toStdString();
            return o;
        }
        o.sent = true;
        o.mech = el.attribute(QStringLiteral("mechanism")).toStdString();
        for (auto ch = el.firstChildElement(); !ch.isNull(); ch = ch.nextSiblingElement()) {
            if (ch.tagName() == QStringLiteral("fast") && ch.namespaceURI() == QStringLiteral("urn:xmpp:fast:0")) o.fast = true;
        }
    } else if (!got) {
        o.error = "finished-without-result";
    }
    return o;
}

// ------------------------------------------------------------------------------------------ the property, read off its text
// strength per the property: token > SCRAM (SHA3-512 > SHA-512 > SHA-256 > SHA-1) > DIGEST-MD5 > PLAIN > ANONYMOUS.
// -1: a supported mechanism the property's chain does not place (X-OAUTH2, X-FACEBOOK-PLATFORM, X-MESSENGER-OAUTH2)
// -2: not a mechanism the client supports
static int strength(const S &n)
{
    if (n == "ANONYMOUS") return 0;
    if (n == "PLAIN") return 1;
    if (n == "DIGEST-MD5") return 2;
    if (n == "SCRAM-SHA-1") return 3;
    if (n == "SCRAM-SHA-256") return 4;
    if (n == "SCRAM-SHA-512") return 5;
    if (n == "SCRAM-SHA3-512") return 6;
    if (n == "X-OAUTH2" || n == "X-FACEBOOK-PLATFORM" || n == "X-MESSENGER-OAUTH2") return -1;
    for (int h = 0; h < N_HASH; h++) for (int b = 0; b < 4; b++)
        if (n == S("HT-") + HASH_NAMES[h] + "-" + CB_TEXT[b]) return 7;
    return -2;
}
static bool usable(const S &n, const Creds &c)
{
    int s = strength(n);
    if (s == -2) return false;
    if (s == 7) return !tokenName(c).empty() && tokenName(c) == n && n.size() > 5 && n.substr(n.size() - 5) == "-NONE";  // channel binding is not implemented
    // a mechanism is usable only with a NON-EMPTY secret: an empty string (null or not) is no credential
    if (s >= 1 && s <= 6) return c.pw == 2;
    if (n == "X-OAUTH2") return c.goo == 2;
    if (n == "X-FACEBOOK-PLATFORM") return c.fbt == 2 && c.fba == 2;
    if (n == "X-MESSENGER-OAUTH2") return c.wl == 2;
    return true;  // ANONYMOUS
}
static bool has(const SV &l, const S &x) { return std::find(l.begin(), l.end(), x) != l.end(); }

// is there an offered, enabled name of the shape HT-<something><tail> where chosen = HT-<tail>?
static bool htAlias(const SV &all, const SV &disabled, const S &chosen)
{
    if (chosen.rfind("HT-", 0) != 0) return false;
    S tail = chosen.substr(3);
    for (auto &n : all)
        if (n != chosen && !has(disabled, n) && n.rfind("HT-", 0) == 0 && n.size() > chosen.size() &&
            n.compare(n.size() - tail.size(), tail.size(), tail) == 0)
            return true;
    return false;
}

static const SV DEFAULT_DISABLED = { "PLAIN" };  // property text: "PLAIN by default"
static long long failPrinted = 0;

static void fail(const S &key, const Conf &c, const S &op, const Obs &o)
{
    if (failPrinted++ < 40) oracleFail(key, confLine(c) + " ; " + op + " ; observed: " + o.str());
    stat("oracle_fail:" + key);
}

// returns true when the property held on this case
static bool oracle(const Conf &c, const SV &offer, const std::optional<SV> &fast, const Obs &o, const S &op)
{
    const SV &disabled = c.defaultDisabled ? DEFAULT_DISABLED : c.disabled;
    const bool fastOn = c.sasl2 && c.useFast && c.ua && fast.has_value();
    SV all = offer;
    if (fastOn) all.insert(all.end(), fast->begin(), fast->end());
    SV permitted;
    for (auto &n : all) if (!has(disabled, n) && strength(n) != -2 && usable(n, c.creds)) permitted.push_back(n);

    if (!o.error.empty()) { fail("C05:unexpected-error", c, op, o); return false; }
    if (o.sent) {
        // chosen-disabled / chosen-not-offered are the keys of the defect fixed in /repo 0f385bc (known_findings.json,
        // "fixed"): an offered, enabled name HT-<hash><hash>...-<cb> on which SaslHtMechanism::fromString's hash loop
        // matched more than once, so that HT-<last hash>-<cb> was used. Any occurrence of any of these keys is a violation now.
        bool alias = htAlias(all, disabled, o.mech);
        if (has(disabled, o.mech)) { fail(alias ? "C05:chosen-disabled" : "C05:disabled-mechanism-used", c, op, o); return false; }
        if (!has(all, o.mech)) { fail(alias ? "C05:chosen-not-offered" : "C05:unoffered-mechanism-used", c, op, o); return false; }
        if (strength(o.mech) == -2 || !usable(o.mech, c.creds)) { fail("C05:chosen-not-usable", c, op, o); return false; }
        if (o.nSent != 1 || !o.pending) { fail("C05:sent-count", c, op, o); return false; }
        if (!c.preferred.empty() && has(permitted, c.preferred)) {
            if (o.mech != c.preferred) { fail("C05:preferred-ignored", c, op, o); return false; }
        } else {
            int s = strength(o.mech);
            if (s >= 0) for (auto &p : permitted) if (strength(p) > s) { fail("C05:stronger-permitted-exists", c, op, o); return false; }
        }
        bool wantFast = fastOn && has(*fast, o.mech);
        if (o.fast != wantFast) { fail("C05:fast-flag", c, op, o); return false; }
        return true;
    }
    // nothing sent
    if (!permitted.empty()) { fail("C05:mismatch-although-permitted", c, op, o); return false; }
    if (!o.mismatch || o.nSent != 0 || o.pending) { fail("C05:no-mismatch-report", c, op, o); return false; }
    return true;
}

// ------------------------------------------------------------------------------------------ drivers of the experiment
static S hexmask(unsigned m) { char b[16]; snprintf(b, sizeof b, "%x", m); return b; }

struct Group {
    Conf conf; QXmppConfiguration cfg; long long cases = 0;
    explicit Group(const Conf &c) : conf(c), cfg(makeConfig(c)) { corr(confLine(c), "ok"); stat("configs"); }
    Obs maskCase(unsigned mask, std::optional<unsigned> fmask)
    {
        SV offer; std::optional<SV> fast;
        for (size_t i = 0; i < conf.universe.size(); i++) if (mask >> i & 1) offer.push_back(conf.universe[i]);
        if (fmask) { fast = SV(); for (size_t i = 0; i < conf.universe.size(); i++) if (*fmask >> i & 1) fast->push_back(conf.universe[i]); }
        S op = "m " + hexmask(mask) + " " + (fmask ? hexmask(*fmask) : S("!"));
        return finishCase(op, offer, fast);
    }
    Obs listCase(const SV &offer, const std::optional<SV> &fast)
    {
        S op = "l " + encList(offer) + " " + (fast ? encList(*fast) : S("!"));
        return finishCase(op, offer, fast);
    }
    Obs finishCase(const S &op, const SV &offer, const std::optional<SV> &fast)
    {
        Obs o = runCase(conf, cfg, offer, fast);
        corr(op, o.str());
        if (oracle(conf, offer, fast, o, op)) oraclePass()++;
        stat(o.sent ? (o.fast ? "obs_sent_fast" : "obs_sent") : (o.mismatch ? "obs_mismatch" : "obs_error"));
        if (o.sent) stat("chosen:" + (o.mech.rfind("HT-", 0) == 0 ? S("HT") : o.mech));
        cases++;
        return o;
    }
};

static Creds mkCreds(bool pw, int htHash, const char *cb, bool oauth, bool fba = true)
{
    Creds c; c.pw = pw ? 2 : 0; c.htHash = htHash; c.htCb = cb ? cb : ""; c.goo = c.wl = c.fbt = oauth ? 2 : 0; c.fba = oauth && fba ? 2 : 0; return c;
}

// the exhaustive part: every subset of `universe` as offer, for one configuration.
// SASL2: the names that are HT mechanisms go where `placement` says: 0 = all in the normal list, no <fast/>;
// 1 = HT names only in <fast/> (always present); 2 = HT names in both lists
static void allSubsets(const Conf &c, int placement)
{
    Group g(c);
    unsigned n = unsigned(c.universe.size());
    unsigned htBits = 0;
    for (unsigned i = 0; i < n; i++) if (c.universe[i].rfind("HT-", 0) == 0) htBits |= 1u << i;
    for (unsigned mask = 0; mask < (1u << n); mask++) {
        if (!c.sasl2 || placement == 0) g.maskCase(mask, std::nullopt);
        else if (placement == 1) g.maskCase(mask & ~htBits, mask & htBits);
        else g.maskCase(mask, mask & htBits);
    }
    stat("exhaustive_offers", 1ll << n);
}

static const SV U12 = { "ANONYMOUS", "PLAIN", "DIGEST-MD5", "SCRAM-SHA-1", "SCRAM-SHA-256", "SCRAM-SHA-512", "SCRAM-SHA3-512",
                        "HT-SHA-256-NONE", "HT-SHA3-512-NONE", "X-OAUTH2", "EXTERNAL", "SCRAM-SHA-1-PLUS" };
static const SV U8 = { "ANONYMOUS", "PLAIN", "DIGEST-MD5", "SCRAM-SHA-1", "SCRAM-SHA3-512", "HT-SHA-256-NONE", "X-OAUTH2", "SCRAM-SHA-1-PLUS" };
// second universe: the remaining families, a token mechanism with channel binding, case variants, the empty name,
// and names on which SaslHtMechanism::fromString's hash loop matches twice
static const SV U12B = { "X-FACEBOOK-PLATFORM", "X-MESSENGER-OAUTH2", "X-OAUTH2", "ANONYMOUS", "HT-SHA-256-ENDP", "HT-SHA-512-NONE",
                         "HT-SHA-256SHA-512-NONE", "plain", "", "SCRAM-SHA-256", "PLAIN", "HT-SHA-512-NONE-" };

struct Dis { bool def; SV list; };
static std::vector<Dis> disabledSets()
{
    return { { true, {} }, { false, {} }, { false, { "PLAIN", "SCRAM-SHA-1", "DIGEST-MD5" } },
             { false, { "SCRAM-SHA3-512", "HT-SHA-256-NONE" } }, { false, { "ANONYMOUS", "X-OAUTH2", "EXTERNAL", "PLAIN" } } };
}
static SV preferredSet() { return { "", "ANONYMOUS", "PLAIN", "DIGEST-MD5", "SCRAM-SHA-256", "HT-SHA-256-NONE", "X-OAUTH2", "EXTERNAL" }; }
static std::vector<Creds> credSets()
{
    std::vector<Creds> v = { mkCreds(true, -1, nullptr, false), mkCreds(false, -1, nullptr, false), mkCreds(true, 0, "None", false),
                             mkCreds(false, 6, "None", false), mkCreds(true, -1, nullptr, true), mkCreds(false, -1, nullptr, true) };
    // empty-but-non-null strings (state 1) are no credentials
    Creds e1; e1.pw = 1; v.push_back(e1);                                                  // password "" only
    Creds e2 = mkCreds(false, 0, "None", false); e2.pw = 1; e2.htSecret = 1; v.push_back(e2);  // password "" + HT token (secret "")
    Creds e3 = mkCreds(true, -1, nullptr, false); e3.goo = e3.wl = e3.fbt = e3.fba = 1; v.push_back(e3);  // password + all oauth strings ""
    Creds e4; e4.pw = 1; e4.goo = 2; e4.fbt = 2; e4.fba = 1; e4.wl = 1; v.push_back(e4);   // password "", google token, facebook token but app id ""
    return v;
}
struct ModeP { bool sasl2, useFast, ua; int placement; };
static std::vector<ModeP> modes()
{
    return { { false, false, false, 0 },      // SASL
             { true, true, true, 0 },         // SASL2, FAST enabled but the server has no <fast/>: HT names in the normal list
             { true, false, true, 1 },        // SASL2, FAST disabled (setUseFastTokenAuthentication(false)): <fast/> must be ignored
             { true, true, false, 1 },        // SASL2, FAST disabled (no user agent)
             { true, true, true, 1 },         // SASL2 + FAST
             { true, true, true, 2 } };       // SASL2 + FAST, HT names in both lists
}

static std::vector<std::pair<Conf, int>> allConfs(const SV &universe)
{
    std::vector<std::pair<Conf, int>> v;
    for (auto &m : modes()) for (auto &d : disabledSets()) for (auto &p : preferredSet()) for (auto &cr : credSets()) {
        Conf c; c.sasl2 = m.sasl2; c.useFast = m.useFast; c.ua = m.ua; c.defaultDisabled = d.def; c.disabled = d.list;
        c.preferred = p; c.creds = cr; c.universe = universe;
        v.push_back({ c, m.placement });
    }
    return v;
}

// ------------------------------------------------------------------------------------------ random part
static SV nameSpace()
{
    SV v = { "ANONYMOUS", "PLAIN", "DIGEST-MD5", "SCRAM-SHA-1", "SCRAM-SHA-256", "SCRAM-SHA-512", "SCRAM-SHA3-512",
             "X-OAUTH2", "X-FACEBOOK-PLATFORM", "X-MESSENGER-OAUTH2" };
    for (int h = 0; h < N_HASH; h++) for (int b = 0; b < 4; b++) v.push_back(S("HT-") + HASH_NAMES[h] + "-" + CB_TEXT[b]);
    for (auto s : { "SCRAM-SHA-1-PLUS", "SCRAM-SHA-256-PLUS", "SCRAM-SHA-512-PLUS", "SCRAM-SHA-384", "SCRAM-SHA3-256", "SCRAM-", "SCRAM-SHA-", "SCRAM",
                    "HT-", "HT", "HT-SHA-256", "HT-SHA-256-", "HT-SHA-256-NONE-", "HT-SHA-256-NONE-NONE", "HT-SHA-1-NONE", "HT-SHA-224-NONE", "HT-BLAKE2B-512-NONE",
                    "HT-SHA-256SHA-512-NONE", "HT-SHA-256SHA-384-NONE", "HT-SHA-384SHA-256-NONE", "HT-SHA-256SHA-256-NONE", "HT-SHA-256SHA-384SHA3-512-NONE",
                    "HT-SHA3-224SHA3-512-NONE", "HT-SHA-256-SHA-512-NONE", "HT-SHA-512-none", "ht-SHA-256-NONE", "HT-SHA-256NONE", "HT--NONE",
                    "EXTERNAL", "GSSAPI", "OAUTHBEARER", "X-OAUTH", "X-OAUTH22", "X-FACEBOOK", "plain", "Plain", "PLAINX", "XPLAIN", "PLAI", "anonymous", "ANONYMOUS-",
                    "DIGEST-MD5-", "DIGEST", "digest-md5", "", "-", "_", "NONE", "SHA-256" })
        v.push_back(s == S("-") ? S("--") : s);  // "-" and "%" are list syntax
    return v;
}

static void randomPart(Rng &rng, int nConfigs, int perConfig)
{
    SV ns = nameSpace();
    auto pick = [&]() -> S { uint32_t r = rng.below(100); if (r < 55) return ns[rng.below(10)]; if (r < 75) return ns[10 + rng.below(28)]; return ns[rng.below(ns.size())]; };
    for (int i = 0; i < nConfigs; i++) {
        Conf c;
        uint32_t m = rng.below(4);
        c.sasl2 = m != 0; c.useFast = rng.below(4) != 0; c.ua = rng.below(4) != 0;
        if (!c.sasl2) { c.useFast = rng.coin(); c.ua = rng.coin(); }
        c.defaultDisabled = rng.below(3) == 0;
        if (!c.defaultDisabled) { int k = rng.below(5); for (int j = 0; j < k; j++) c.disabled.push_back(pick()); }
        if (rng.below(3) != 0) { c.preferred = pick(); if (c.preferred.empty()) c.preferred = "PLAIN"; }
        auto st = [&](uint32_t pctSet) -> int { return rng.below(100) < pctSet ? 2 : int(rng.below(2)); };  // 2 | (0 or 1 evenly)
        c.creds.pw = st(60);
        if (rng.below(2)) { c.creds.htHash = rng.below(N_HASH); c.creds.htCb = rng.below(4) ? "None" : CB_ENUM[rng.below(3)]; c.creds.htSecret = rng.below(3); }
        c.creds.goo = st(25); c.creds.wl = st(25); c.creds.fbt = st(35); c.creds.fba = st(50);
        // bias: make the token's own mechanism and its aliases likely to be offered
        S tok = tokenName(c.creds);
        Group g(c);
        for (int j = 0; j < perConfig; j++) {
            SV offer; std::optional<SV> fast;
            int len = rng.below(9);
            for (int k = 0; k < len; k++) offer.push_back(!tok.empty() && rng.below(8) == 0 ? tok : pick());
            if (len && rng.below(3) == 0) offer.push_back(offer[rng.below(offer.size())]);   // duplicate
            if (c.sasl2 && rng.below(3) != 0) {
                fast = SV(); int fl = rng.below(4);
                for (int k = 0; k < fl; k++) fast->push_back(!tok.empty() && rng.below(3) == 0 ? tok : (rng.coin() ? ns[10 + rng.below(28)] : pick()));
            }
            Obs o = g.listCase(offer, fast);
            if (i < 3 && j < 2) sample(confLine(c) + " ; l " + encList(offer) + " " + (fast ? encList(*fast) : S("!")) + " => " + o.str());
            // order and multiplicity of the offer must not matter (the property speaks of the set of offered mechanisms)
            if (rng.below(4) == 0 && offer.size() > 1) {
                SV sh = offer;
                for (size_t k = sh.size(); k > 1; k--) std::swap(sh[k - 1], sh[rng.below(uint32_t(k))]);
                if (rng.coin()) sh.push_back(sh[rng.below(sh.size())]);
                Obs o2 = g.listCase(sh, fast);
                if (o2.sent != o.sent || o2.mech != o.mech || o2.fast != o.fast) fail("C05:order-dependent", c, "l " + encList(offer) + " vs " + encList(sh), o2);
                else oraclePass()++;
                stat("permutation_pairs");
            }
        }
    }
    stat("random_configs", nConfigs);
}

// orderings of subsets of the reduced universe: same set, shuffled / with duplicates, must give the same outcome
static void orderings(Rng &rng, const std::vector<std::pair<Conf, int>> &confs, int nConfigs, int perConfig)
{
    for (int i = 0; i < nConfigs; i++) {
        auto &cp = confs[rng.below(confs.size())];
        Group g(cp.first);
        for (int j = 0; j < perConfig; j++) {
            unsigned mask = unsigned(rng.next()) & ((1u << cp.first.universe.size()) - 1);
            SV offer;
            for (size_t k = 0; k < cp.first.universe.size(); k++) if (mask >> k & 1) offer.push_back(cp.first.universe[k]);
            std::optional<SV> fast;
            if (cp.first.sasl2 && cp.second != 0) { fast = SV(); for (auto &n : offer) if (n.rfind("HT-", 0) == 0) fast->push_back(n); }
            Obs o = g.listCase(offer, fast);
            SV sh = offer;
            for (size_t k = sh.size(); k > 1; k--) std::swap(sh[k - 1], sh[rng.below(uint32_t(k))]);
            if (!sh.empty() && rng.coin()) sh.insert(sh.begin() + rng.below(uint32_t(sh.size())), sh[rng.below(uint32_t(sh.size()))]);
            Obs o2 = g.listCase(sh, fast);
            if (o2.sent != o.sent || o2.mech != o.mech || o2.fast != o.fast) fail("C05:order-dependent", cp.first, "l " + encList(offer) + " vs " + encList(sh), o2);
            else oraclePass()++;
            stat("permutation_pairs");
        }
    }
}

// ------------------------------------------------------------------------------------------ corpus: minimized past findings (fixed in /repo 0f385bc), replayed first
static void corpus()
{
    // (1) the hash loop of SaslHtMechanism::fromString matched twice: the offered name was not the mechanism that was used
    {
        Conf c; c.defaultDisabled = false; c.creds = mkCreds(false, 2, "None", false); c.universe = { "HT-SHA-256SHA-512-NONE" };
        Group g(c);
        Obs o = g.listCase({ "HT-SHA-256SHA-512-NONE" }, std::nullopt);
        sample(confLine(c) + " ; l HT-SHA-256SHA-512-NONE ! => " + o.str());
    }
    // (2) same, with the mechanism that ends up being used disabled by the user
    {
        Conf c; c.defaultDisabled = false; c.disabled = { "PLAIN", "HT-SHA-512-NONE" }; c.creds = mkCreds(true, 2, "None", false);
        Group g(c);
        Obs o = g.listCase({ "HT-SHA-256SHA-512-NONE", "SCRAM-SHA-1" }, std::nullopt);
        sample(confLine(c) + " ; l HT-SHA-256SHA-512-NONE,SCRAM-SHA-1 ! => " + o.str());
        g.listCase({ "HT-SHA-512-NONE", "SCRAM-SHA-1" }, std::nullopt);
    }
    // (3) SASL2 + FAST flavour of (1): the name is in <fast/>, the request carries the other name and therefore no <fast/>
    {
        Conf c; c.sasl2 = c.useFast = c.ua = true; c.creds = mkCreds(true, 2, "None", false);
        Group g(c);
        g.listCase({ "SCRAM-SHA-256" }, SV { "HT-SHA-256SHA-512-NONE" });
        g.listCase({ "SCRAM-SHA-256" }, SV { "HT-SHA-512-NONE" });
    }
    // (4) initially missed seeded change C05_c2 (isNull() instead of isEmpty()): an empty, non-null password is no password
    {
        Conf c; c.creds.pw = 1; c.creds.goo = 2;
        Group g(c);
        g.listCase({ "SCRAM-SHA-512", "DIGEST-MD5", "ANONYMOUS", "X-OAUTH2" }, std::nullopt);   // must fall back to ANONYMOUS
        g.listCase({ "SCRAM-SHA-512", "SCRAM-SHA-1", "DIGEST-MD5" }, std::nullopt);             // must report a mismatch
        Conf c2 = c; c2.sasl2 = c2.useFast = c2.ua = true; c2.preferred = "SCRAM-SHA-256"; c2.creds.goo = 1; c2.creds.wl = 1; c2.creds.fbt = 2; c2.creds.fba = 1;
        Group g2(c2);
        g2.listCase({ "SCRAM-SHA-256", "X-OAUTH2", "X-MESSENGER-OAUTH2", "X-FACEBOOK-PLATFORM" }, std::nullopt);   // nothing usable
    }
    // tst_qxmppsasl-like rows and plain sanity rows
    {
        Conf c; c.creds = mkCreds(true, -1, nullptr, false);
        Group g(c);
        g.listCase({ "PLAIN", "DIGEST-MD5", "SCRAM-SHA-1", "SCRAM-SHA-256" }, std::nullopt);
        g.listCase({ "PLAIN" }, std::nullopt);
        g.listCase({}, std::nullopt);
        g.listCase({ "PLAIN", "ANONYMOUS" }, std::nullopt);
    }
}


// ========================================================================================== client level
// The managers above are only reached through QXmppOutgoingClient::handleStreamFeatures(). This part feeds stream features
// to a real QXmppClient whose XmppSocket writes into a fake QSslSocket (state "connected", writes captured, close recorded),
// and observes what the client does: which authentication element it sends (SASL <auth/>, SASL 2 <authenticate/>, XEP-0078
// jabber:iq:auth, resource bind), whether it opens a session, which error it reports and whether it disconnects.
class FakeSock : public QSslSocket
{
public:
    std::vector<QByteArray> written;
    bool closed = false;
    void up() { setOpenMode(QIODevice::ReadWrite); setSocketState(QAbstractSocket::ConnectedState); }
    void disconnectFromHost() override { closed = true; setSocketState(QAbstractSocket::UnconnectedState); }

protected:
    qint64 writeData(const char *d, qint64 n) override { written.emplace_back(d, int(n)); return n; }
};

// the library declares `friend class TestClient;` in QXmppClient and QXmppOutgoingClient
class TestClient
{
public:
    static QXmppOutgoingClient *stream(QXmppClient *c) { return c->d->stream; }
    static void handleStart(QXmppOutgoingClient *c) { c->handleStart(); }
    static void handleStream(QXmppOutgoingClient *c, const QDomElement &e) { c->handleStream(e); }
    static void received(QXmppOutgoingClient *c, const QDomElement &e) { c->handlePacketReceived(e); }
};

struct CConf {
    Conf conf;                 // disabled, preferred, creds, useFast, ua, universe (conf.sasl2 unused)
    bool useSasl2 = true, useSasl = true, useNonSasl = true;
};
struct Feat {
    SV mechanisms;             // <mechanisms xmlns=sasl/>, empty = element absent
    bool legacy = false, bind = false;
    std::optional<SV> sasl2;   // SASL 2 <authentication/> mechanisms
    std::optional<SV> fast;    // <fast/> inside it
};
struct CObs {
    SV actions; bool closed = false;
    bool saslAuth = false, sasl2Auth = false, legacy = false, bind = false, session = false, mismatch = false, otherError = false;
    S mech; bool fast = false; SV disabledOffered;
    S str() const
    {
        S a;
        for (size_t i = 0; i < actions.size(); i++) { if (i) a += "+"; a += actions[i]; }
        if (a.empty()) a = "nothing";
        return a + " " + (closed ? "1" : "0");
    }
};

static S cconfLine(const CConf &c)
{
    S flags = S(c.useSasl2 ? "1" : "0") + (c.useSasl ? "1" : "0") + (c.useNonSasl ? "1" : "0") + ":" + (c.conf.useFast ? "1" : "0") + ":" + (c.conf.ua ? "1" : "0");
    return "resetc " + flags + " " + (c.conf.defaultDisabled ? S("default") : encList(c.conf.disabled)) + " " +
        (c.conf.preferred.empty() ? S("-") : c.conf.preferred) + " " + credsStr(c.conf.creds) + " " + encList(c.conf.universe);
}

static QByteArray featuresXml(const Feat &f)
{
    QByteArray x = "<stream:features xmlns:stream='http://etherx.jabber.org/streams'>";
    auto mechs = [](const SV &l) { QByteArray b; for (auto &n : l) b += "<mechanism>" + QByteArray::fromStdString(n) + "</mechanism>"; return b; };
    if (!f.mechanisms.empty()) x += "<mechanisms xmlns='urn:ietf:params:xml:ns:xmpp-sasl'>" + mechs(f.mechanisms) + "</mechanisms>";
    if (f.legacy) x += "<auth xmlns='http://jabber.org/features/iq-auth'/>";
    if (f.bind) x += "<bind xmlns='urn:ietf:params:xml:ns:xmpp-bind'/>";
    if (f.sasl2) {
        x += "<authentication xmlns='urn:xmpp:sasl:2'>" + mechs(*f.sasl2);
        if (f.fast) x += "<inline><fast xmlns='urn:xmpp:fast:0'>" + mechs(*f.fast) + "</fast></inline>";
        x += "</authentication>";
    }
    return x + "</stream:features>";
}

static CObs runClient(const CConf &cc, const Feat &f)
{
    CObs o;
    QXmppClient client(QXmppClient::NoExtensions);
    QXmppOutgoingClient *c = TestClient::stream(&client);
    auto *fs = new FakeSock;
    fs->setParent(c);
    fs->up();
    c->xmppSocket().setSocket(fs);

    QXmppConfiguration cfg = makeConfig(cc.conf);
    cfg.setJid(QStringLiteral("user@example.org"));
    cfg.setResource(QStringLiteral("r"));
    cfg.setAutoReconnectionEnabled(false);
    cfg.setStreamSecurityMode(QXmppConfiguration::TLSDisabled);
    cfg.setUseSasl2Authentication(cc.useSasl2);
    cfg.setUseSASLAuthentication(cc.useSasl);
    cfg.setUseNonSASLAuthentication(cc.useNonSasl);
    c->configuration() = cfg;

    QObject ctx;
    QObject::connect(&client, &QXmppClient::errorOccurred, &ctx, [&](const QXmppError &e) {
        auto auth = e.value<QXmpp::AuthenticationError>();
        if (auth && auth->type == QXmpp::AuthenticationError::MechanismMismatch) {
            o.mismatch = true;
            if (parseMismatchText(e.description, o.disabledOffered)) o.actions.push_back("mismatch " + encList(o.disabledOffered));
            else o.actions.push_back("mismatch-with-unexpected-text");
        } else {
            o.otherError = true;
            o.actions.push_back("error");
        }
    });
    QObject::connect(c, &QXmppOutgoingClient::connected, &ctx, [&](const SessionBegin &) { o.session = true; o.actions.push_back("session"); });

    TestClient::handleStart(c);
    QDomDocument sdoc;
    sdoc.setContent(QByteArray("<stream:stream xmlns='jabber:client' xmlns:stream='http://etherx.jabber.org/streams' id='s1' from='example.org' version='1.0'/>"), true);
    TestClient::handleStream(c, sdoc.documentElement());
    fs->written.clear();
    size_t actionsBefore = o.actions.size();
    (void)actionsBefore;

    QDomDocument fdoc;
    if (!fdoc.setContent(featuresXml(f), true)) { o.actions.push_back("harness-bad-features-xml"); return o; }
    // what the client writes is looked at in order, interleaved with the signals above by construction (all synchronous)
    TestClient::received(c, fdoc.documentElement());

    for (auto &w : fs->written) {
        if (w == "</stream:stream>") continue;   // part of disconnecting
        QDomDocument d;
        if (!d.setContent(w, true)) { o.actions.push_back("unparsable"); continue; }
        auto el = d.documentElement();
        const QString ns = el.namespaceURI(), tag = el.tagName();
        if (tag == QStringLiteral("auth") && ns == QStringLiteral("urn:ietf:params:xml:ns:xmpp-sasl")) {
            o.saslAuth = true; o.mech = el.attribute(QStringLiteral("mechanism")).toStdString();
            o.actions.push_back("sasl " + encName(o.mech));
        } else if (tag == QStringLiteral("authenticate") && ns == QStringLiteral("urn:xmpp:sasl:2")) {
            o.sasl2Auth = true; o.mech = el.attribute(QStringLiteral("mechanism")).toStdString();
            for (auto ch = el.firstChildElement(); !ch.isNull(); ch = ch.nextSiblingElement())
                if (ch.tagName() == QStringLiteral("fast") && ch.namespaceURI() == QStringLiteral("urn:xmpp:fast:0")) o.fast = true;
            o.actions.push_back("sasl2 " + encName(o.mech) + " " + (o.fast ? "1" : "0"));
        } else if (tag == QStringLiteral("iq")) {
            auto ch = el.firstChildElement();
            if (ch.tagName() == QStringLiteral("query") && ch.namespaceURI() == QStringLiteral("jabber:iq:auth")) { o.legacy = true; o.actions.push_back("legacy"); }
            else if (ch.tagName() == QStringLiteral("bind") && ch.namespaceURI() == QStringLiteral("urn:ietf:params:xml:ns:xmpp-bind")) { o.bind = true; o.actions.push_back("bind"); }
            else o.actions.push_back("iq:" + ch.tagName().toStdString());
        } else if (tag == QStringLiteral("presence")) {
            // initial presence of an opened session
        } else {
            o.actions.push_back("other:" + tag.toStdString());
        }
    }
    o.closed = fs->closed;
    // canonical order: what was sent / reported is a set here (signals and writes were collected separately)
    std::sort(o.actions.begin(), o.actions.end());
    return o;
}

static void cfail(const S &key, const CConf &c, const S &op, const CObs &o)
{
    if (failPrinted++ < 40) oracleFail(key, cconfLine(c) + " ; " + op + " ; observed: " + o.str());
    stat("oracle_fail:" + key);
}

// The property at client level, independent of the model. The client negotiates SASL 2 when the server offers it and the user
// enabled it, else SASL when the server offers a non-empty <mechanisms/> and the user enabled it. Whenever it negotiates:
// nothing permitted (offered, enabled, implemented, usable with NON-EMPTY secrets)  =>  mechanism mismatch reported, disconnect,
// and NO authentication element of any kind (no <auth/>, no <authenticate/>, no jabber:iq:auth, no bind, no session);
// something permitted => exactly that SASL element with a mechanism that passes the manager-level oracle, nothing else.
// SASL disabled by the user => no SASL <auth/> is ever sent.
static bool clientOracle(const CConf &cc, const Feat &f, const CObs &o, const S &op)
{
    const Conf &c = cc.conf;
    const bool neg2 = f.sasl2.has_value() && cc.useSasl2;
    const bool neg1 = !neg2 && !f.mechanisms.empty() && cc.useSasl;
    if (o.otherError) { cfail("C05:client:unexpected-error", cc, op, o); return false; }
    if (!neg2 && !neg1) {
        if (o.saslAuth || o.sasl2Auth) { cfail("C05:client:sasl-used-although-not-negotiable", cc, op, o); return false; }
        if (o.mismatch) { cfail("C05:client:mismatch-without-negotiation", cc, op, o); return false; }
        return true;
    }
    const SV &disabled = c.defaultDisabled ? DEFAULT_DISABLED : c.disabled;
    const SV &base = neg2 ? *f.sasl2 : f.mechanisms;
    const bool fastOn = neg2 && c.useFast && c.ua && f.fast.has_value();
    SV all = base;
    if (fastOn) all.insert(all.end(), f.fast->begin(), f.fast->end());
    bool anyPermitted = false;
    for (auto &n : all) if (!has(disabled, n) && strength(n) != -2 && usable(n, c.creds)) anyPermitted = true;
    if (!anyPermitted) {
        if (o.saslAuth || o.sasl2Auth || o.legacy || o.bind || o.session) { cfail("C05:client:auth-sent-although-nothing-permitted", cc, op, o); return false; }
        if (!o.mismatch) { cfail("C05:client:no-mismatch-report", cc, op, o); return false; }
        if (!o.closed) { cfail("C05:client:not-disconnected-after-mismatch", cc, op, o); return false; }
        if (o.actions.size() != 1) { cfail("C05:client:extra-action-with-mismatch", cc, op, o); return false; }
        return true;
    }
    if (o.mismatch) { cfail("C05:client:mismatch-although-permitted", cc, op, o); return false; }
    if (o.legacy || o.bind || o.session) { cfail("C05:client:fallback-although-sasl-possible", cc, op, o); return false; }
    if ((neg2 && (!o.sasl2Auth || o.saslAuth)) || (neg1 && (!o.saslAuth || o.sasl2Auth)) || o.actions.size() != 1) { cfail("C05:client:wrong-element", cc, op, o); return false; }
    if (o.closed) { cfail("C05:client:disconnected-while-authenticating", cc, op, o); return false; }
    // the mechanism itself: same judgement as at manager level
    Conf mc = c; mc.sasl2 = neg2;
    Obs mo; mo.sent = true; mo.mech = o.mech; mo.fast = o.fast; mo.nSent = 1; mo.pending = true;
    return oracle(mc, base, neg2 ? f.fast : std::nullopt, mo, "client-level " + cconfLine(cc) + " ; " + op);
}

struct CGroup {
    CConf cc;
    explicit CGroup(const CConf &c) : cc(c) { corr(cconfLine(c), "ok"); stat("client_configs"); }
    SV pick(unsigned mask) const { SV v; for (size_t i = 0; i < cc.conf.universe.size(); i++) if (mask >> i & 1) v.push_back(cc.conf.universe[i]); return v; }
    CObs finishCase(const S &op, const Feat &f)
    {
        CObs o = runClient(cc, f);
        corr(op, o.str());
        if (clientOracle(cc, f, o, op)) oraclePass()++;
        stat("client_cases");
        stat("client_obs:" + (o.actions.empty() ? S("nothing") : o.actions[0].substr(0, o.actions[0].find(' '))));
        return o;
    }
    CObs maskCase(unsigned mask, bool legacy, bool bind, std::optional<unsigned> m2, std::optional<unsigned> fm)
    {
        Feat f; f.mechanisms = pick(mask); f.legacy = legacy; f.bind = bind;
        if (m2) f.sasl2 = pick(*m2);
        if (m2 && fm) f.fast = pick(*fm);
        S op = "c " + hexmask(mask) + " " + (legacy ? "1" : "0") + " " + (bind ? "1" : "0") + " " + (m2 ? hexmask(*m2) : S("!")) + " " + (m2 && fm ? hexmask(*fm) : S("!"));
        return finishCase(op, f);
    }
    CObs listCase(const Feat &f)
    {
        S op = "k " + encList(f.mechanisms) + " " + (f.legacy ? "1" : "0") + " " + (f.bind ? "1" : "0") + " " + (f.sasl2 ? encList(*f.sasl2) : S("!")) + " " + (f.sasl2 && f.fast ? encList(*f.fast) : S("!"));
        Feat g = f; if (!g.sasl2) g.fast.reset();
        return finishCase(op, g);
    }
};

static const SV UC6 = { "PLAIN", "SCRAM-SHA-1", "ANONYMOUS", "HT-SHA-256-NONE", "EXTERNAL", "SCRAM-SHA-1-PLUS" };
static const SV UC8 = { "PLAIN", "SCRAM-SHA-1", "ANONYMOUS", "HT-SHA-256-NONE", "EXTERNAL", "SCRAM-SHA-1-PLUS", "DIGEST-MD5", "X-OAUTH2" };

static std::vector<CConf> clientConfs(const SV &universe)
{
    std::vector<CConf> v;
    std::vector<Dis> dis = { { true, {} }, { false, {} }, { false, { "PLAIN", "SCRAM-SHA-1", "DIGEST-MD5", "ANONYMOUS" } } };
    SV prefs = { "", "PLAIN", "SCRAM-SHA-1" };
    Creds pw0; pw0.pw = 1;
    std::vector<Creds> creds = { mkCreds(true, -1, nullptr, false), mkCreds(false, -1, nullptr, false), pw0, mkCreds(true, 0, "None", false) };
    for (int flags = 0; flags < 8; flags++) for (auto &d : dis) for (auto &p : prefs) for (auto &cr : creds) for (int fastCfg = 0; fastCfg < 2; fastCfg++) {
        CConf c; c.useSasl2 = flags & 4; c.useSasl = flags & 2; c.useNonSasl = flags & 1;
        c.conf.defaultDisabled = d.def; c.conf.disabled = d.list; c.conf.preferred = p; c.conf.creds = cr; c.conf.universe = universe;
        c.conf.useFast = fastCfg; c.conf.ua = true;
        if (fastCfg == 0 && cr.htHash < 0 && !p.empty()) continue;   // thin out: FAST setting only matters with a token
        v.push_back(c);
    }
    return v;
}

// every subset of the universe as <mechanisms/> x legacy x bind x SASL 2 {absent, same names (HT names in <fast/>), only names the
// client does not implement}
static void clientSubsets(const CConf &cc)
{
    CGroup g(cc);
    unsigned n = unsigned(cc.conf.universe.size()), htBits = 0, unknownBits = 0;
    for (unsigned i = 0; i < n; i++) {
        if (cc.conf.universe[i].rfind("HT-", 0) == 0) htBits |= 1u << i;
        if (strength(cc.conf.universe[i]) == -2) unknownBits |= 1u << i;
    }
    for (unsigned mask = 0; mask < (1u << n); mask++) for (int legacy = 0; legacy < 2; legacy++) for (int bind = 0; bind < 2; bind++) {
        g.maskCase(mask, legacy, bind, std::nullopt, std::nullopt);
        g.maskCase(mask, legacy, bind, mask & ~htBits, mask & htBits);
        if ((mask & 7) == 0) g.maskCase(mask, legacy, bind, unknownBits, std::nullopt);
    }
    stat("client_exhaustive_offers", 1ll << n);
}

static void clientRandom(Rng &rng, int nConfigs, int perConfig)
{
    SV ns = nameSpace();
    ns.erase(std::remove(ns.begin(), ns.end(), S("")), ns.end());   // an empty <mechanism/> is a parsing matter, not this property's
    auto pick = [&]() -> S { uint32_t r = rng.below(100); if (r < 45) return ns[rng.below(10)]; if (r < 60) return ns[10 + rng.below(28)]; return ns[rng.below(ns.size())]; };
    for (int i = 0; i < nConfigs; i++) {
        CConf c;
        c.useSasl2 = rng.below(3) != 0; c.useSasl = rng.below(4) != 0; c.useNonSasl = rng.below(3) != 0;
        c.conf.useFast = rng.below(4) != 0; c.conf.ua = rng.below(4) != 0;
        c.conf.defaultDisabled = rng.below(2) == 0;
        if (!c.conf.defaultDisabled) { int k = rng.below(4); for (int j = 0; j < k; j++) c.conf.disabled.push_back(pick()); }
        if (rng.below(3) == 0) c.conf.preferred = pick();
        auto st = [&](uint32_t pctSet) -> int { return rng.below(100) < pctSet ? 2 : int(rng.below(2)); };
        c.conf.creds.pw = st(50);
        if (rng.below(3) == 0) { c.conf.creds.htHash = rng.below(N_HASH); c.conf.creds.htCb = "None"; }
        c.conf.creds.goo = st(20);
        S tok = tokenName(c.conf.creds);
        CGroup g(c);
        for (int j = 0; j < perConfig; j++) {
            Feat f;
            bool unknownOnly = rng.below(3) == 0;   // the interesting corner: only names the client does not implement
            auto name = [&]() -> S { if (unknownOnly) { S n; do n = ns[rng.below(ns.size())]; while (strength(n) != -2); return n; } return pick(); };
            int len = rng.below(5);
            for (int k = 0; k < len; k++) f.mechanisms.push_back(name());
            f.legacy = rng.coin(); f.bind = rng.coin();
            if (rng.below(3) == 0) {
                f.sasl2 = SV(); int l2 = rng.below(4);
                for (int k = 0; k < l2; k++) f.sasl2->push_back(name());
                if (rng.coin()) { f.fast = SV(); int fl = rng.below(3); for (int k = 0; k < fl; k++) f.fast->push_back(!tok.empty() && rng.coin() ? tok : ns[10 + rng.below(28)]); }
            }
            CObs o = g.listCase(f);
            if (i < 2 && j < 2) sample(cconfLine(c) + " ; " + featuresXml(f).toStdString() + " => " + o.str());
        }
    }
    stat("client_random_configs", nConfigs);
}

static void clientCorpus()
{
    // initially missed seeded change C05_d2: an offer made only of names the client does not implement must still end in a
    // mechanism mismatch, not in XEP-0078 authentication or an unauthenticated bind
    CConf c; c.conf.creds = mkCreds(true, -1, nullptr, false);
    CGroup g(c);
    Feat f; f.mechanisms = { "GSSAPI", "EXTERNAL" }; f.legacy = true;
    CObs o = g.listCase(f);
    sample(cconfLine(c) + " ; " + featuresXml(f).toStdString() + " => " + o.str());
    f.mechanisms = { "SCRAM-SHA-1-PLUS" }; f.legacy = false; f.bind = true; g.listCase(f);
    f.mechanisms = { "PLAIN" }; f.legacy = true; f.bind = true; g.listCase(f);              // disabled by default: mismatch
    f.mechanisms = { "PLAIN", "SCRAM-SHA-1" }; g.listCase(f);                                // control
    f.mechanisms = {}; g.listCase(f);                                                        // no SASL offered at all: legacy auth
    f.sasl2 = SV { "GSSAPI" }; f.mechanisms = { "SCRAM-SHA-1" }; g.listCase(f);              // SASL 2 negotiated, nothing permitted in it
}

int main(int argc, char **argv)
{
    QCoreApplication app(argc, argv);
    Args a = parseArgs(argc, argv);
    QXmppLoggable log;
    g_log = &log;
    bool thorough = a.tier == "thorough";
    Rng rng(a.seed);

    corpus();
    clientCorpus();

    // exhaustive part
    auto confs12 = allConfs(U12);
    if (thorough) {
        for (auto &cp : confs12) allSubsets(cp.first, cp.second);
        stat("exhaustive_u12_configs", (long long)confs12.size());
        auto confsB = allConfs(U12B);
        int n = 0;
        for (size_t i = 0; i < confsB.size(); i++) if (rng.below(8) == 0) { allSubsets(confsB[i].first, confsB[i].second); n++; }
        stat("exhaustive_u12b_configs", n);
    } else {
        // every configuration with all 256 offers over the 8-name universe ...
        auto confs8 = allConfs(U8);
        for (auto &cp : confs8) allSubsets(cp.first, cp.second);
        stat("exhaustive_u8_configs", (long long)confs8.size());
        // ... and all 4096 offers over the 12-name universe for a seeded sample of the configurations
        int n = 0;
        for (size_t i = 0; i < confs12.size(); i++) if (rng.below(24) == 0) { allSubsets(confs12[i].first, confs12[i].second); n++; }
        stat("exhaustive_u12_configs", n);
        auto confsB = allConfs(U12B);
        n = 0;
        for (size_t i = 0; i < confsB.size(); i++) if (rng.below(120) == 0) { allSubsets(confsB[i].first, confsB[i].second); n++; }
        stat("exhaustive_u12b_configs", n);
    }
    stat("universe_size", (long long)U12.size());

    orderings(rng, confs12, thorough ? 2000 : 300, 20);
    randomPart(rng, thorough ? 20000 : 2500, 16);

    // client level
    for (auto &cc : clientConfs(thorough ? UC8 : UC6)) clientSubsets(cc);
    clientRandom(rng, thorough ? 6000 : 1200, 12);

    finish();
    return 0;
}
