// C05 harness: drives the real QXmpp::Private::SaslManager::authenticate and Sasl2Manager::authenticate with a
// capturing SendDataInterface.  Observation = mechanism attribute of the emitted <auth/> / <authenticate/> (+ whether a
// FAST <fast/> request is attached) or the reported error.  Prints op/observation lines for the Lean model
// (qxdriver_c05) and evaluates the property itself (oracle) independently of the model.
//
// Line protocol (one case = one line after a `reset` line carrying the configuration):
//   reset <mode> <disabled> <preferred> <creds> <universe>     -> ok
//        mode      sasl | sasl2:<useFast 0|1>:<userAgent 0|1>
//        disabled  default (library default untouched) | - | n1,n2,...
//        preferred - | name
//        creds     - | comma list of  pw  ht=<IanaHashAlgorithm value>:<ChannelBindingType enumerator>[:s0|:sn]  fbt fba goo wl ;
//                  a trailing 0 (pw0 fbt0 fba0 goo0 wl0) = the string is set but EMPTY (non-null); absent = null QString;
//                  :s0 / :sn = the HT token's secret is empty / null
//        universe  names addressed by the bit masks of `m` lines
//   m <hexmask> <fast>     offer = universe names with bit set, in universe order; fast = ! (no <fast/> feature) | hexmask
//   l <names> <fastnames>  explicit lists (order, duplicates); - = empty list, % = empty name, ! = no <fast/> feature
// observation:  sent <mechanism> <fast 0|1>  |  mismatch <offered-but-disabled names|->  |  error <text>
#include "common.h"

#include "QXmppConfiguration.h"
#include "QXmppSasl2UserAgent.h"
#include "QXmppSaslManager_p.h"
#include "QXmppSasl_p.h"
#include "XmppSocket.h"

#include <QCoreApplication>
#include <QDomDocument>
#include <QUuid>
#include <algorithm>
#include <optional>
#include <set>

using namespace vh;
using namespace QXmpp::Private;
using S = std::string;
using SV = std::vector<std::string>;

struct Capture : SendDataInterface {
    std::vector<QByteArray> sent;
    bool sendData(const QByteArray &d) override { sent.push_back(d); return true; }
};

// ------------------------------------------------------------------------------------------ configuration of a case group
// every string credential has three states: 0 = null QString (never set), 1 = empty but non-null (QString(""),
// e.g. the text of an empty input field or a cleared value), 2 = non-empty. Only state 2 is a usable secret.
struct Creds {
    int pw = 0, fbt = 0, fba = 0, goo = 0, wl = 0;
    int htHash = -1;      // IanaHashAlgorithm value of the stored token, -1 = no token
    S htCb;               // ChannelBindingType enumerator name
    int htSecret = 2;     // state of the token's secret string (the availability predicate does not look at it)
};
struct Conf {
    bool sasl2 = false, useFast = false, ua = false;
    bool defaultDisabled = true;
    SV disabled;          // when !defaultDisabled
    S preferred;          // empty = none
    Creds creds;
    SV universe;
};

static const char *HASH_NAMES[] = { "SHA-256", "SHA-384", "SHA-512", "SHA3-224", "SHA3-256", "SHA3-384", "SHA3-512" };  // IANA names, XEP-0484
static const int N_HASH = 7;
static const char *CB_ENUM[] = { "TlsServerEndpoint", "TlsUnique", "TlsExporter", "None" };
static const char *CB_TEXT[] = { "ENDP", "UNIQ", "EXPR", "NONE" };

static SaslHtMechanism::ChannelBindingType cbOf(const S &e)
{
    if (e == "TlsServerEndpoint") return SaslHtMechanism::TlsServerEndpoint;
    if (e == "TlsUnique") return SaslHtMechanism::TlsUnique;
    if (e == "TlsExporter") return SaslHtMechanism::TlsExporter;
    return SaslHtMechanism::None;
}
static S tokenName(const Creds &c)  // the mechanism name the stored token is for (XEP-0484 naming), "" = no token
{
    if (c.htHash < 0) return "";
    for (int i = 0; i < 4; i++) if (c.htCb == CB_ENUM[i]) return S("HT-") + HASH_NAMES[c.htHash] + "-" + CB_TEXT[i];
    return "";
}

static S encName(const S &n) { return n.empty() ? "%" : n; }
static S encList(const SV &l) { if (l.empty()) return "-"; S s; for (size_t i = 0; i < l.size(); i++) { if (i) s += ","; s += encName(l[i]); } return s; }
static QStringList qlist(const SV &l) { QStringList q; for (auto &s : l) q << QString::fromStdString(s); return q; }

static S credsStr(const Creds &c)
{
    SV parts;
    auto str = [&](int st, const char *n) { if (st == 2) parts.push_back(n); else if (st == 1) parts.push_back(S(n) + "0"); };
    str(c.pw, "pw");
    if (c.htHash >= 0) parts.push_back("ht=" + std::to_string(c.htHash) + ":" + c.htCb + (c.htSecret == 1 ? ":s0" : c.htSecret == 0 ? ":sn" : ""));
    str(c.fbt, "fbt");
    str(c.fba, "fba");
    str(c.goo, "goo");
    str(c.wl, "wl");
    return encList(parts);
}
static S confLine(const Conf &c)
{
    S mode = c.sasl2 ? S("sasl2:") + (c.useFast ? "1" : "0") + ":" + (c.ua ? "1" : "0") : S("sasl");
    return "reset " + mode + " " + (c.defaultDisabled ? S("default") : encList(c.disabled)) + " " +
        (c.preferred.empty() ? S("-") : c.preferred) + " " + credsStr(c.creds) + " " + encList(c.universe);
}

static QXmppConfiguration makeConfig(const Conf &c)
{
    QXmppConfiguration cfg;
    cfg.setUser(QStringLiteral("user"));
    cfg.setDomain(QStringLiteral("example.org"));
    if (!c.defaultDisabled) cfg.setDisabledSaslMechanisms(qlist(c.disabled));
    if (!c.preferred.empty()) cfg.setSaslAuthMechanism(QString::fromStdString(c.preferred));
    // state 1: an empty, non-null QString (isEmpty() && !isNull()); state 0: the field is left untouched (null QString)
    auto val = [](int st, const char *text) { return st == 2 ? QString::fromLatin1(text) : QString(""); };
    if (c.creds.pw) cfg.setPassword(val(c.creds.pw, "secret"));
    if (c.creds.htHash >= 0) {
        cfg.credentialData().htToken = HtToken { SaslHtMechanism { IanaHashAlgorithm(c.creds.htHash), cbOf(c.creds.htCb) },
                                                 c.creds.htSecret == 0 ? QString() : val(c.creds.htSecret, "tok"), QDateTime() };
    }
    if (c.creds.fbt) cfg.setFacebookAccessToken(val(c.creds.fbt, "fbtoken"));
    if (c.creds.fba) cfg.setFacebookAppId(val(c.creds.fba, "fbapp"));
    if (c.creds.goo) cfg.setGoogleAccessToken(val(c.creds.goo, "gootoken"));
    if (c.creds.wl) cfg.setWindowsLiveAccessToken(val(c.creds.wl, "d2x0b2tlbg=="));
    cfg.setUseFastTokenAuthentication(c.useFast);
    if (c.ua) cfg.setSasl2UserAgent(QXmppSasl2UserAgent(QUuid(QStringLiteral("{d4565fa7-4d72-4749-b3d3-740edbf87770}")), QStringLiteral("verif"), QStringLiteral("box")));
    return cfg;
}

// ------------------------------------------------------------------------------------------ one call on the real code
struct Obs {
    bool sent = false;
    S mech; bool fast = false;
    bool mismatch = false; SV disabledOffered;
    S error;      // anything else
    size_t nSent = 0; bool pending = false; bool wellFormed = true;
    S str() const
    {
        if (!error.empty()) return "error " + error;
        if (sent) return "sent " + encName(mech) + " " + (fast ? "1" : "0");
        return "mismatch " + encList(disabledOffered);
    }
};

static QXmppLoggable *g_log;

template<typename Result>
static void readError(const Result &r, Obs &o)
{
    using Err = std::pair<QString, QXmpp::AuthenticationError>;
    if (auto *e = std::get_if<Err>(&r)) {
        if (e->second.type == QXmpp::AuthenticationError::MechanismMismatch) {
            o.mismatch = true;
            QString t = e->first;
            const QString head = QStringLiteral("No supported SASL mechanism available");
            if (!t.startsWith(head)) { o.error = "mismatch-with-unexpected-text"; return; }
            t = t.mid(head.size());
            if (t.isEmpty()) return;
            const QString pre = QStringLiteral(" ("), post = QStringLiteral(" is disabled)");
            if (!t.startsWith(pre) || !t.endsWith(post)) { o.error = "mismatch-with-unexpected-text"; return; }
            t = t.mid(pre.size(), t.size() - pre.size() - post.size());
            for (auto &p : t.split(QStringLiteral(", "))) o.disabledOffered.push_back(p.toStdString());
        } else {
            o.error = "type" + std::to_string(int(e->second.type));
        }
    } else {
        o.error = "finished-with-success";
    }
}

static Obs runCase(const Conf &c, const QXmppConfiguration &cfg, const SV &offer, const std::optional<SV> &fast)
{
    Obs o;
    Capture cap;
    QObject ctx;
    bool got = false;
    if (!c.sasl2) {
        SaslManager mgr(&cap);
        auto task = mgr.authenticate(cfg, qlist(offer), g_log);
        o.pending = !task.isFinished();
        if (task.isFinished()) task.then(&ctx, [&](SaslManager::AuthResult &&r) { got = true; readError(r, o); });
    } else {
        Sasl2Manager mgr(&cap);
        Sasl2::StreamFeature f;
        f.mechanisms = qlist(offer);
        if (fast) {
            FastFeature ff;
            for (auto &s : *fast) ff.mechanisms.push_back(QString::fromStdString(s));
            f.fast = ff;
        }
        auto task = mgr.authenticate(Sasl2::Authenticate {}, cfg, f, g_log);
        o.pending = !task.isFinished();
        if (task.isFinished()) task.then(&ctx, [&](Sasl2Manager::AuthResult &&r) { got = true; readError(r, o); });
    }
    o.nSent = cap.sent.size();
    if (o.pending) {
        if (cap.sent.size() != 1) { o.error = "pending-but-sent-" + std::to_string(cap.sent.size()); return o; }
        QDomDocument doc;
        if (!doc.setContent(cap.sent[0], true)) { o.error = "sent-unparsable-xml"; return o; }
        auto el = doc.documentElement();
        const QString wantTag = c.sasl2 ? QStringLiteral("authenticate") : QStringLiteral("auth");
        const QString wantNs = c.sasl2 ? QStringLiteral("urn:xmpp:sasl:2") : QStringLiteral("urn:ietf:params:xml:ns:xmpp-sasl");
        if (el.tagName() != wantTag || el.namespaceURI() != wantNs || !el.hasAttribute(QStringLiteral("mechanism"))) {
            o.error = "sent-unexpected-element-" + el.tagName().toStdString();
            return o;
        }
        o.sent = true;
        o.mech = el.attribute(QStringLiteral("mechanism")).toStdString();
        for (auto ch = el.firstChildElement(); !ch.isNull(); ch = ch.nextSiblingElement()) {
            if (ch.tagName() == QStringLiteral("fast") && ch.namespaceURI() == QStringLiteral("urn:xmpp:fast:0")) o.fast = true;
        }
    } else if (!got) {
        o.error = "finished-without-result";
    }
    return o;
}

// ------------------------------------------------------------------------------------------ the property, read off its text
// strength per the property: token > SCRAM (SHA3-512 > SHA-512 > SHA-256 > SHA-1) > DIGEST-MD5 > PLAIN > ANONYMOUS.
// -1: a supported mechanism the property's chain does not place (X-OAUTH2, X-FACEBOOK-PLATFORM, X-MESSENGER-OAUTH2)
// -2: not a mechanism the client supports
static int strength(const S &n)
{
    if (n == "ANONYMOUS") return 0;
    if (n == "PLAIN") return 1;
    if (n == "DIGEST-MD5") return 2;
    if (n == "SCRAM-SHA-1") return 3;
    if (n == "SCRAM-SHA-256") return 4;
    if (n == "SCRAM-SHA-512") return 5;
    if (n == "SCRAM-SHA3-512") return 6;
    if (n == "X-OAUTH2" || n == "X-FACEBOOK-PLATFORM" || n == "X-MESSENGER-OAUTH2") return -1;
    for (int h = 0; h < N_HASH; h++) for (int b = 0; b < 4; b++)
        if (n == S("HT-") + HASH_NAMES[h] + "-" + CB_TEXT[b]) return 7;
    return -2;
}
static bool usable(const S &n, const Creds &c)
{
    int s = strength(n);
    if (s == -2) return false;
    if (s == 7) return !tokenName(c).empty() && tokenName(c) == n && n.size() > 5 && n.substr(n.size() - 5) == "-NONE";  // channel binding is not implemented
    // a mechanism is usable only with a NON-EMPTY secret: an empty string (null or not) is no credential
    if (s >= 1 && s <= 6) return c.pw == 2;
    if (n == "X-OAUTH2") return c.goo == 2;
    if (n == "X-FACEBOOK-PLATFORM") return c.fbt == 2 && c.fba == 2;
    if (n == "X-MESSENGER-OAUTH2") return c.wl == 2;
    return true;  // ANONYMOUS
}
static bool has(const SV &l, const S &x) { return std::find(l.begin(), l.end(), x) != l.end(); }

// is there an offered, enabled name of the shape HT-<something><tail> where chosen = HT-<tail>?
static bool htAlias(const SV &all, const SV &disabled, const S &chosen)
{
    if (chosen.rfind("HT-", 0) != 0) return false;
    S tail = chosen.substr(3);
    for (auto &n : all)
        if (n != chosen && !has(disabled, n) && n.rfind("HT-", 0) == 0 && n.size() > chosen.size() &&
            n.compare(n.size() - tail.size(), tail.size(), tail) == 0)
            return true;
    return false;
}

static const SV DEFAULT_DISABLED = { "PLAIN" };  // property text: "PLAIN by default"
static long long failPrinted = 0;

static void fail(const S &key, const Conf &c, const S &op, const Obs &o)
{
    if (failPrinted++ < 40) oracleFail(key, confLine(c) + " ; " + op + " ; observed: " + o.str());
    stat("oracle_fail:" + key);
}

// returns true when the property held on this case
static bool oracle(const Conf &c, const SV &offer, const std::optional<SV> &fast, const Obs &o, const S &op)
{
    const SV &disabled = c.defaultDisabled ? DEFAULT_DISABLED : c.disabled;
    const bool fastOn = c.sasl2 && c.useFast && c.ua && fast.has_value();
    SV all = offer;
    if (fastOn) all.insert(all.end(), fast->begin(), fast->end());
    SV permitted;
    for (auto &n : all) if (!has(disabled, n) && strength(n) != -2 && usable(n, c.creds)) permitted.push_back(n);

    if (!o.error.empty()) { fail("C05:unexpected-error", c, op, o); return false; }
    if (o.sent) {
        // chosen-disabled / chosen-not-offered are the keys of the defect fixed in /repo 0f385bc (known_findings.json,
        // "fixed"): an offered, enabled name HT-<hash><hash>...-<cb> on which SaslHtMechanism::fromString's hash loop
        // matched more than once, so that HT-<last hash>-<cb> was used. Any occurrence of any of these keys is a violation now.
        bool alias = htAlias(all, disabled, o.mech);
        if (has(disabled, o.mech)) { fail(alias ? "C05:chosen-disabled" : "C05:disabled-mechanism-used", c, op, o); return false; }
        if (!has(all, o.mech)) { fail(alias ? "C05:chosen-not-offered" : "C05:unoffered-mechanism-used", c, op, o); return false; }
        if (strength(o.mech) == -2 || !usable(o.mech, c.creds)) { fail("C05:chosen-not-usable", c, op, o); return false; }
        if (o.nSent != 1 || !o.pending) { fail("C05:sent-count", c, op, o); return false; }
        if (!c.preferred.empty() && has(permitted, c.preferred)) {
            if (o.mech != c.preferred) { fail("C05:preferred-ignored", c, op, o); return false; }
        } else {
            int s = strength(o.mech);
            if (s >= 0) for (auto &p : permitted) if (strength(p) > s) { fail("C05:stronger-permitted-exists", c, op, o); return false; }
        }
        bool wantFast = fastOn && has(*fast, o.mech);
        if (o.fast != wantFast) { fail("C05:fast-flag", c, op, o); return false; }
        return true;
    }
    // nothing sent
    if (!permitted.empty()) { fail("C05:mismatch-although-permitted", c, op, o); return false; }
    if (!o.mismatch || o.nSent != 0 || o.pending) { fail("C05:no-mismatch-report", c, op, o); return false; }
    return true;
}

// ------------------------------------------------------------------------------------------ drivers of the experiment
static S hexmask(unsigned m) { char b[16]; snprintf(b, sizeof b, "%x", m); return b; }

struct Group {
    Conf conf; QXmppConfiguration cfg; long long cases = 0;
    explicit Group(const Conf &c) : conf(c), cfg(makeConfig(c)) { corr(confLine(c), "ok"); stat("configs"); }
    Obs maskCase(unsigned mask, std::optional<unsigned> fmask)
    {
        SV offer; std::optional<SV> fast;
        for (size_t i = 0; i < conf.universe.size(); i++) if (mask >> i & 1) offer.push_back(conf.universe[i]);
        if (fmask) { fast = SV(); for (size_t i = 0; i < conf.universe.size(); i++) if (*fmask >> i & 1) fast->push_back(conf.universe[i]); }
        S op = "m " + hexmask(mask) + " " + (fmask ? hexmask(*fmask) : S("!"));
        return finishCase(op, offer, fast);
    }
    Obs listCase(const SV &offer, const std::optional<SV> &fast)
    {
        S op = "l " + encList(offer) + " " + (fast ? encList(*fast) : S("!"));
        return finishCase(op, offer, fast);
    }
    Obs finishCase(const S &op, const SV &offer, const std::optional<SV> &fast)
    {
        Obs o = runCase(conf, cfg, offer, fast);
        corr(op, o.str());
        if (oracle(conf, offer, fast, o, op)) oraclePass()++;
        stat(o.sent ? (o.fast ? "obs_sent_fast" : "obs_sent") : (o.mismatch ? "obs_mismatch" : "obs_error"));
        if (o.sent) stat("chosen:" + (o.mech.rfind("HT-", 0) == 0 ? S("HT") : o.mech));
        cases++;
        return o;
    }
};

static Creds mkCreds(bool pw, int htHash, const char *cb, bool oauth, bool fba = true)
{
    Creds c; c.pw = pw ? 2 : 0; c.htHash = htHash; c.htCb = cb ? cb : ""; c.goo = c.wl = c.fbt = oauth ? 2 : 0; c.fba = oauth && fba ? 2 : 0; return c;
}

// the exhaustive part: every subset of `universe` as offer, for one configuration.
// SASL2: the names that are HT mechanisms go where `placement` says: 0 = all in the normal list, no <fast/>;
// 1 = HT names only in <fast/> (always present); 2 = HT names in both lists
static void allSubsets(const Conf &c, int placement)
{
    Group g(c);
    unsigned n = unsigned(c.universe.size());
    unsigned htBits = 0;
    for (unsigned i = 0; i < n; i++) if (c.universe[i].rfind("HT-", 0) == 0) htBits |= 1u << i;
    for (unsigned mask = 0; mask < (1u << n); mask++) {
        if (!c.sasl2 || placement == 0) g.maskCase(mask, std::nullopt);
        else if (placement == 1) g.maskCase(mask & ~htBits, mask & htBits);
        else g.maskCase(mask, mask & htBits);
    }
    stat("exhaustive_offers", 1ll << n);
}

static const SV U12 = { "ANONYMOUS", "PLAIN", "DIGEST-MD5", "SCRAM-SHA-1", "SCRAM-SHA-256", "SCRAM-SHA-512", "SCRAM-SHA3-512",
                        "HT-SHA-256-NONE", "HT-SHA3-512-NONE", "X-OAUTH2", "EXTERNAL", "SCRAM-SHA-1-PLUS" };
static const SV U8 = { "ANONYMOUS", "PLAIN", "DIGEST-MD5", "SCRAM-SHA-1", "SCRAM-SHA3-512", "HT-SHA-256-NONE", "X-OAUTH2", "SCRAM-SHA-1-PLUS" };
// second universe: the remaining families, a token mechanism with channel binding, case variants, the empty name,
// and names on which SaslHtMechanism::fromString's hash loop matches twice
static const SV U12B = { "X-FACEBOOK-PLATFORM", "X-MESSENGER-OAUTH2", "X-OAUTH2", "ANONYMOUS", "HT-SHA-256-ENDP", "HT-SHA-512-NONE",
                         "HT-SHA-256SHA-512-NONE", "plain", "", "SCRAM-SHA-256", "PLAIN", "HT-SHA-512-NONE-" };

struct Dis { bool def; SV list; };
static std::vector<Dis> disabledSets()
{
    return { { true, {} }, { false, {} }, { false, { "PLAIN", "SCRAM-SHA-1", "DIGEST-MD5" } },
             { false, { "SCRAM-SHA3-512", "HT-SHA-256-NONE" } }, { false, { "ANONYMOUS", "X-OAUTH2", "EXTERNAL", "PLAIN" } } };
}
static SV preferredSet() { return { "", "ANONYMOUS", "PLAIN", "DIGEST-MD5", "SCRAM-SHA-256", "HT-SHA-256-NONE", "X-OAUTH2", "EXTERNAL" }; }
static std::vector<Creds> credSets()
{
    std::vector<Creds> v = { mkCreds(true, -1, nullptr, false), mkCreds(false, -1, nullptr, false), mkCreds(true, 0, "None", false),
                             mkCreds(false, 6, "None", false), mkCreds(true, -1, nullptr, true), mkCreds(false, -1, nullptr, true) };
    // empty-but-non-null strings (state 1) are no credentials
    Creds e1; e1.pw = 1; v.push_back(e1);                                                  // password "" only
    Creds e2 = mkCreds(false, 0, "None", false); e2.pw = 1; e2.htSecret = 1; v.push_back(e2);  // password "" + HT token (secret "")
    Creds e3 = mkCreds(true, -1, nullptr, false); e3.goo = e3.wl = e3.fbt = e3.fba = 1; v.push_back(e3);  // password + all oauth strings ""
    Creds e4; e4.pw = 1; e4.goo = 2; e4.fbt = 2; e4.fba = 1; e4.wl = 1; v.push_back(e4);   // password "", google token, facebook token but app id ""
    return v;
}
struct ModeP { bool sasl2, useFast, ua; int placement; };
static std::vector<ModeP> modes()
{
    return { { false, false, false, 0 },      // SASL
             { true, true, true, 0 },         // SASL2, FAST enabled but the server has no <fast/>: HT names in the normal list
             { true, false, true, 1 },        // SASL2, FAST disabled (setUseFastTokenAuthentication(false)): <fast/> must be ignored
             { true, true, false, 1 },        // SASL2, FAST disabled (no user agent)
             { true, true, true, 1 },         // SASL2 + FAST
             { true, true, true, 2 } };       // SASL2 + FAST, HT names in both lists
}

static std::vector<std::pair<Conf, int>> allConfs(const SV &universe)
{
    std::vector<std::pair<Conf, int>> v;
    for (auto &m : modes()) for (auto &d : disabledSets()) for (auto &p : preferredSet()) for (auto &cr : credSets()) {
        Conf c; c.sasl2 = m.sasl2; c.useFast = m.useFast; c.ua = m.ua; c.defaultDisabled = d.def; c.disabled = d.list;
        c.preferred = p; c.creds = cr; c.universe = universe;
        v.push_back({ c, m.placement });
    }
    return v;
}

// ------------------------------------------------------------------------------------------ random part
static SV nameSpace()
{
    SV v = { "ANONYMOUS", "PLAIN", "DIGEST-MD5", "SCRAM-SHA-1", "SCRAM-SHA-256", "SCRAM-SHA-512", "SCRAM-SHA3-512",
             "X-OAUTH2", "X-FACEBOOK-PLATFORM", "X-MESSENGER-OAUTH2" };
    for (int h = 0; h < N_HASH; h++) for (int b = 0; b < 4; b++) v.push_back(S("HT-") + HASH_NAMES[h] + "-" + CB_TEXT[b]);
    for (auto s : { "SCRAM-SHA-1-PLUS", "SCRAM-SHA-256-PLUS", "SCRAM-SHA-512-PLUS", "SCRAM-SHA-384", "SCRAM-SHA3-256", "SCRAM-", "SCRAM-SHA-", "SCRAM",
                    "HT-", "HT", "HT-SHA-256", "HT-SHA-256-", "HT-SHA-256-NONE-", "HT-SHA-256-NONE-NONE", "HT-SHA-1-NONE", "HT-SHA-224-NONE", "HT-BLAKE2B-512-NONE",
                    "HT-SHA-256SHA-512-NONE", "HT-SHA-256SHA-384-NONE", "HT-SHA-384SHA-256-NONE", "HT-SHA-256SHA-256-NONE", "HT-SHA-256SHA-384SHA3-512-NONE",
                    "HT-SHA3-224SHA3-512-NONE", "HT-SHA-256-SHA-512-NONE", "HT-SHA-512-none", "ht-SHA-256-NONE", "HT-SHA-256NONE", "HT--NONE",
                    "EXTERNAL", "GSSAPI", "OAUTHBEARER", "X-OAUTH", "X-OAUTH22", "X-FACEBOOK", "plain", "Plain", "PLAINX", "XPLAIN", "PLAI", "anonymous", "ANONYMOUS-",
                    "DIGEST-MD5-", "DIGEST", "digest-md5", "", "-", "_", "NONE", "SHA-256" })
        v.push_back(s == S("-") ? S("--") : s);  // "-" and "%" are list syntax
    return v;
}

static void randomPart(Rng &rng, int nConfigs, int perConfig)
{
    SV ns = nameSpace();
    auto pick = [&]() -> S { uint32_t r = rng.below(100); if (r < 55) return ns[rng.below(10)]; if (r < 75) return ns[10 + rng.below(28)]; return ns[rng.below(ns.size())]; };
    for (int i = 0; i < nConfigs; i++) {
        Conf c;
        uint32_t m = rng.below(4);
        c.sasl2 = m != 0; c.useFast = rng.below(4) != 0; c.ua = rng.below(4) != 0;
        if (!c.sasl2) { c.useFast = rng.coin(); c.ua = rng.coin(); }
        c.defaultDisabled = rng.below(3) == 0;
        if (!c.defaultDisabled) { int k = rng.below(5); for (int j = 0; j < k; j++) c.disabled.push_back(pick()); }
        if (rng.below(3) != 0) { c.preferred = pick(); if (c.preferred.empty()) c.preferred = "PLAIN"; }
        auto st = [&](uint32_t pctSet) -> int { return rng.below(100) < pctSet ? 2 : int(rng.below(2)); };  // 2 | (0 or 1 evenly)
        c.creds.pw = st(60);
        if (rng.below(2)) { c.creds.htHash = rng.below(N_HASH); c.creds.htCb = rng.below(4) ? "None" : CB_ENUM[rng.below(3)]; c.creds.htSecret = rng.below(3); }
        c.creds.goo = st(25); c.creds.wl = st(25); c.creds.fbt = st(35); c.creds.fba = st(50);
        // bias: make the token's own mechanism and its aliases likely to be offered
        S tok = tokenName(c.creds);
        Group g(c);
        for (int j = 0; j < perConfig; j++) {
            SV offer; std::optional<SV> fast;
            int len = rng.below(9);
            for (int k = 0; k < len; k++) offer.push_back(!tok.empty() && rng.below(8) == 0 ? tok : pick());
            if (len && rng.below(3) == 0) offer.push_back(offer[rng.below(offer.size())]);   // duplicate
            if (c.sasl2 && rng.below(3) != 0) {
                fast = SV(); int fl = rng.below(4);
                for (int k = 0; k < fl; k++) fast->push_back(!tok.empty() && rng.below(3) == 0 ? tok : (rng.coin() ? ns[10 + rng.below(28)] : pick()));
            }
            Obs o = g.listCase(offer, fast);
            if (i < 3 && j < 2) sample(confLine(c) + " ; l " + encList(offer) + " " + (fast ? encList(*fast) : S("!")) + " => " + o.str());
            // order and multiplicity of the offer must not matter (the property speaks of the set of offered mechanisms)
            if (rng.below(4) == 0 && offer.size() > 1) {
                SV sh = offer;
                for (size_t k = sh.size(); k > 1; k--) std::swap(sh[k - 1], sh[rng.below(uint32_t(k))]);
                if (rng.coin()) sh.push_back(sh[rng.below(sh.size())]);
                Obs o2 = g.listCase(sh, fast);
                if (o2.sent != o.sent || o2.mech != o.mech || o2.fast != o.fast) fail("C05:order-dependent", c, "l " + encList(offer) + " vs " + encList(sh), o2);
                else oraclePass()++;
                stat("permutation_pairs");
            }
        }
    }
    stat("random_configs", nConfigs);
}

// orderings of subsets of the reduced universe: same set, shuffled / with duplicates, must give the same outcome
static void orderings(Rng &rng, const std::vector<std::pair<Conf, int>> &confs, int nConfigs, int perConfig)
{
    for (int i = 0; i < nConfigs; i++) {
        auto &cp = confs[rng.below(confs.size())];
        Group g(cp.first);
        for (int j = 0; j < perConfig; j++) {
            unsigned mask = unsigned(rng.next()) & ((1u << cp.first.universe.size()) - 1);
            SV offer;
            for (size_t k = 0; k < cp.first.universe.size(); k++) if (mask >> k & 1) offer.push_back(cp.first.universe[k]);
            std::optional<SV> fast;
            if (cp.first.sasl2 && cp.second != 0) { fast = SV(); for (auto &n : offer) if (n.rfind("HT-", 0) == 0) fast->push_back(n); }
            Obs o = g.listCase(offer, fast);
            SV sh = offer;
            for (size_t k = sh.size(); k > 1; k--) std::swap(sh[k - 1], sh[rng.below(uint32_t(k))]);
            if (!sh.empty() && rng.coin()) sh.insert(sh.begin() + rng.below(uint32_t(sh.size())), sh[rng.below(uint32_t(sh.size()))]);
            Obs o2 = g.listCase(sh, fast);
            if (o2.sent != o.sent || o2.mech != o.mech || o2.fast != o.fast) fail("C05:order-dependent", cp.first, "l " + encList(offer) + " vs " + encList(sh), o2);
            else oraclePass()++;
            stat("permutation_pairs");
        }
    }
}

// ------------------------------------------------------------------------------------------ corpus: minimized past findings (fixed in /repo 0f385bc), replayed first
static void corpus()
{
    // (1) the hash loop of SaslHtMechanism::fromString matched twice: the offered name was not the mechanism that was used
    {
        Conf c; c.defaultDisabled = false; c.creds = mkCreds(false, 2, "None", false); c.universe = { "HT-SHA-256SHA-512-NONE" };
        Group g(c);
        Obs o = g.listCase({ "HT-SHA-256SHA-512-NONE" }, std::nullopt);
        sample(confLine(c) + " ; l HT-SHA-256SHA-512-NONE ! => " + o.str());
    }
    // (2) same, with the mechanism that ends up being used disabled by the user
    {
        Conf c; c.defaultDisabled = false; c.disabled = { "PLAIN", "HT-SHA-512-NONE" }; c.creds = mkCreds(true, 2, "None", false);
        Group g(c);
        Obs o = g.listCase({ "HT-SHA-256SHA-512-NONE", "SCRAM-SHA-1" }, std::nullopt);
        sample(confLine(c) + " ; l HT-SHA-256SHA-512-NONE,SCRAM-SHA-1 ! => " + o.str());
        g.listCase({ "HT-SHA-512-NONE", "SCRAM-SHA-1" }, std::nullopt);
    }
    // (3) SASL2 + FAST flavour of (1): the name is in <fast/>, the request carries the other name and therefore no <fast/>
    {
        Conf c; c.sasl2 = c.useFast = c.ua = true; c.creds = mkCreds(true, 2, "None", false);
        Group g(c);
        g.listCase({ "SCRAM-SHA-256" }, SV { "HT-SHA-256SHA-512-NONE" });
        g.listCase({ "SCRAM-SHA-256" }, SV { "HT-SHA-512-NONE" });
    }
    // (4) initially missed seeded change C05_c2 (isNull() instead of isEmpty()): an empty, non-null password is no password
    {
        Conf c; c.creds.pw = 1; c.creds.goo = 2;
        Group g(c);
        g.listCase({ "SCRAM-SHA-512", "DIGEST-MD5", "ANONYMOUS", "X-OAUTH2" }, std::nullopt);   // must fall back to ANONYMOUS
        g.listCase({ "SCRAM-SHA-512", "SCRAM-SHA-1", "DIGEST-MD5" }, std::nullopt);             // must report a mismatch
        Conf c2 = c; c2.sasl2 = c2.useFast = c2.ua = true; c2.preferred = "SCRAM-SHA-256"; c2.creds.goo = 1; c2.creds.wl = 1; c2.creds.fbt = 2; c2.creds.fba = 1;
        Group g2(c2);
        g2.listCase({ "SCRAM-SHA-256", "X-OAUTH2", "X-MESSENGER-OAUTH2", "X-FACEBOOK-PLATFORM" }, std::nullopt);   // nothing usable
    }
    // tst_qxmppsasl-like rows and plain sanity rows
    {
        Conf c; c.creds = mkCreds(true, -1, nullptr, false);
        Group g(c);
        g.listCase({ "PLAIN", "DIGEST-MD5", "SCRAM-SHA-1", "SCRAM-SHA-256" }, std::nullopt);
        g.listCase({ "PLAIN" }, std::nullopt);
        g.listCase({}, std::nullopt);
        g.listCase({ "PLAIN", "ANONYMOUS" }, std::nullopt);
    }
}

int main(int argc, char **argv)
{
    QCoreApplication app(argc, argv);
    Args a = parseArgs(argc, argv);
    QXmppLoggable log;
    g_log = &log;
    bool thorough = a.tier == "thorough";
    Rng rng(a.seed);

    corpus();

    // exhaustive part
    auto confs12 = allConfs(U12);
    if (thorough) {
        for (auto &cp : confs12) allSubsets(cp.first, cp.second);
        stat("exhaustive_u12_configs", (long long)confs12.size());
        auto confsB = allConfs(U12B);
        int n = 0;
        for (size_t i = 0; i < confsB.size(); i++) if (rng.below(8) == 0) { allSubsets(confsB[i].first, confsB[i].second); n++; }
        stat("exhaustive_u12b_configs", n);
    } else {
        // every configuration with all 256 offers over the 8-name universe ...
        auto confs8 = allConfs(U8);
        for (auto &cp : confs8) allSubsets(cp.first, cp.second);
        stat("exhaustive_u8_configs", (long long)confs8.size());
        // ... and all 4096 offers over the 12-name universe for a seeded sample of the configurations
        int n = 0;
        for (size_t i = 0; i < confs12.size(); i++) if (rng.below(24) == 0) { allSubsets(confs12[i].first, confs12[i].second); n++; }
        stat("exhaustive_u12_configs", n);
        auto confsB = allConfs(U12B);
        n = 0;
        for (size_t i = 0; i < confsB.size(); i++) if (rng.below(120) == 0) { allSubsets(confsB[i].first, confsB[i].second); n++; }
        stat("exhaustive_u12b_configs", n);
    }
    stat("universe_size", (long long)U12.size());

    orderings(rng, confs12, thorough ? 2000 : 300, 20);
    randomPart(rng, thorough ? 20000 : 2500, 16);

    finish();
    return 0;
}
