// C19 harness: two real QXmppClients, each with a real QXmppTransferManager, wired back to back IN-PROCESS without
// sockets.  Everything a client sends is captured from its logger (XmppSocket::sendData logs before it looks at the
// socket), parsed, stamped with the sender's full JID as `from` (what a server does) and pushed into the other client's
// QXmppOutgoingClient::handlePacketReceived.  The stream-initiation offer/answer is forwarded untouched; from the first
// XEP-0047 stanza on, an interposer holds every <open/>/<data/>/<close/> the sending client emits ("pending") and the
// harness decides, op by op, what happens to it (deliver | drop | dup | swap | flip | eclose | wsid | wsender | inj).
// Each op is one correspondence line for the Lean model (lean/Driver/C19.lean documents the op syntax); the property
// itself is judged by oracles written from the property text alone (see `judge`).
//
// A second part drives the SOCKS5 receive path of a real QXmppTransferIncomingJob: the harness plays the sending peer,
// offers a stream host on 127.0.0.1 served by a real QXmppSocksServer and writes an honest, truncated or altered byte
// stream into the accepted connection.
#include "common.h"

#include "QXmppClient.h"
#include "QXmppClient_p.h"
#include "QXmppConfiguration.h"
#include "QXmppLogger.h"
#include "QXmppOutgoingClient.h"
#include "QXmppSocks.h"
#include "QXmppTransferManager.h"

#include <QBuffer>
#include <QCoreApplication>
#include <QCryptographicHash>
#include <QDomDocument>
#include <QElapsedTimer>
#include <QFile>
#include <QDir>
#include <QTcpSocket>
#include <QTimer>
#include <deque>
#include <functional>
#include <optional>
#include <sstream>

using namespace vh;

static const char *NS_IBB = "http://jabber.org/protocol/ibb";

// The IBB block size is not configurable through the public API (QXmppTransferManagerPrivate::ibbBlockSize is fixed to
// 4096).  To explore other negotiated block sizes the harness writes that private field: the private `d` pointer is
// reached with the explicit-instantiation idiom (no patching, no `#define private public`), and the field is the FIRST
// member of QXmppTransferManagerPrivate (src/client/QXmppTransferManager.cpp).  `blockSizeField` verifies the layout
// assumption at start-up (a fresh manager must read 4096 there) and the correspondence verifies it on every transfer
// (the <open/> the real sender emits carries the value written).
class QXmppTransferManagerPrivate;
template<typename Tag, typename Tag::type M>
struct Rob { friend typename Tag::type get(Tag) { return M; } };
struct MgrD {
    using type = const std::unique_ptr<QXmppTransferManagerPrivate> QXmppTransferManager::*;
    friend type get(MgrD);
};
template struct Rob<MgrD, &QXmppTransferManager::d>;
static int &blockSizeField(QXmppTransferManager *m)
{
    return *reinterpret_cast<int *>((m->*get(MgrD())).get());
}

// ------------------------------------------------------------------------------------------------ plumbing
class TestClient : public QXmppClient  // the library declares `friend class TestClient`
{
public:
    TestClient() : QXmppClient(QXmppClient::NoExtensions) { }
    void receive(const QDomElement &e) { d->stream->handlePacketReceived(e); }
};

static QDomElement parseStanza(const QString &xml, QDomDocument &doc)
{
    // exactly the wrapping XmppSocket::processData applies before parsing
    const QString wrapped = QStringLiteral("<stream:stream xmlns='jabber:client' xmlns:stream='http://etherx.jabber.org/streams'>") +
        xml + QStringLiteral("</stream:stream>");
    QString err;
    if (!doc.setContent(wrapped, true, &err)) {
        fprintf(stderr, "harness: cannot parse sent stanza: %s\n%s\n", qPrintable(err), qPrintable(xml));
        exit(3);
    }
    return doc.documentElement().firstChildElement();
}

struct Side {
    TestClient client;
    QXmppLogger logger;
    QXmppTransferManager *mgr = nullptr;
    QString jid;
    std::deque<QString> out;  // stanzas sent, not yet looked at by the interposer

    explicit Side(const QString &j) : jid(j)
    {
        logger.setLoggingType(QXmppLogger::SignalLogging);
        client.setLogger(&logger);
        QObject::connect(&logger, &QXmppLogger::message, [this](QXmppLogger::MessageType t, const QString &text) {
            if (t == QXmppLogger::SentMessage) out.push_back(text);
        });
        client.configuration().setJid(j);
        mgr = new QXmppTransferManager;
        client.addExtension(mgr);
    }
    void receiveXml(const QString &xml)
    {
        QDomDocument doc;
        client.receive(parseStanza(xml, doc));
    }
};

static std::string digest(const QByteArray &b)
{
    if (b.size() <= 24) return b.isEmpty() ? std::string("-") : hex((const unsigned char *)b.constData(), b.size());
    const QByteArray h = QCryptographicHash::hash(b, QCryptographicHash::Md5);
    return "md5:" + hex((const unsigned char *)h.constData(), h.size());
}
static const char *stateName(QXmppTransferJob::State s)
{
    switch (s) {
    case QXmppTransferJob::OfferState: return "offer";
    case QXmppTransferJob::StartState: return "start";
    case QXmppTransferJob::TransferState: return "transfer";
    case QXmppTransferJob::FinishedState: return "finished";
    }
    return "?";
}
static const char *errName(QXmppTransferJob::Error e)
{
    switch (e) {
    case QXmppTransferJob::NoError: return "none";
    case QXmppTransferJob::AbortError: return "abort";
    case QXmppTransferJob::FileAccessError: return "access";
    case QXmppTransferJob::FileCorruptError: return "corrupt";
    case QXmppTransferJob::ProtocolError: return "protocol";
    }
    return "?";
}

// an XEP-0047 request as the interposer sees it
struct Ibb {
    enum Kind { Open, Data, Close } kind = Close;
    QString id;
    int sender = 0;  // 0 = the sending client's JID, n>0 = a third party
    int sid = 0;     // 0 = the negotiated session id, n>0 = another one
    long bs = 0;     // open
    long seq = 0;    // data (as written on the wire)
    QByteArray payload;
    bool raw = false;     // data: `rawText` is written as the element text instead of base64(payload)
    QString rawText;
    bool spaced = false;  // data: the base64 text is broken up with white space
};

static std::string showPending(const std::optional<Ibb> &p)
{
    if (!p) return "-";
    switch (p->kind) {
    case Ibb::Open: return "open:" + std::to_string(p->bs);
    case Ibb::Data: return "data:" + std::to_string(p->seq) + ":" + std::to_string(p->payload.size()) + ":" + digest(p->payload);
    case Ibb::Close: return "close";
    }
    return "?";
}

// ------------------------------------------------------------------------------------------------ receiver devices
// What the application hands to QXmppTransferJob::accept(QIODevice *).  QIODevice::write() may legally take fewer bytes
// than offered, or fail; the property is about what the device HOLDS, so that is what is observed and judged.
struct DevSpec {
    enum K { Buf, PerWrite, Full, Fail } k = Buf;
    long n = 0;
    std::string str() const
    {
        switch (k) {
        case Buf: return "buf";
        case PerWrite: return "pw:" + std::to_string(n);
        case Full: return "full:" + std::to_string(n);
        case Fail: return "fail:" + std::to_string(n);
        }
        return "?";
    }
};
class RecvDevice : public QIODevice
{
public:
    DevSpec spec;
    QByteArray held;
    bool lossy = false;  // some write() took less than offered or failed
    qint64 offered = 0;  // bytes passed to write() so far
    explicit RecvDevice(DevSpec s) : spec(s) { }
    bool isSequential() const override { return true; }
protected:
    qint64 readData(char *, qint64) override { return -1; }
    qint64 writeData(const char *data, qint64 len) override
    {
        qint64 take = len;
        offered += len;
        if (spec.k == DevSpec::PerWrite) take = std::min<qint64>(len, spec.n);
        else if (spec.k == DevSpec::Full) take = std::min<qint64>(len, std::max<qint64>(0, spec.n - held.size()));
        else if (spec.k == DevSpec::Fail && held.size() + len > spec.n) { lossy = true; return -1; }
        if (take < len) lossy = true;
        held.append(data, int(take));
        return take;
    }
};
// a plain QBuffer for `buf`, a RecvDevice otherwise
struct Sink {
    DevSpec spec;
    QBuffer buf;
    std::unique_ptr<RecvDevice> custom;
    explicit Sink(DevSpec s) : spec(s)
    {
        if (s.k == DevSpec::Buf) buf.open(QIODevice::WriteOnly);
        else { custom = std::make_unique<RecvDevice>(s); custom->open(QIODevice::WriteOnly | QIODevice::Unbuffered); }
    }
    QIODevice *device() { return custom ? static_cast<QIODevice *>(custom.get()) : &buf; }
    const QByteArray &held() const { return custom ? custom->held : buf.data(); }
    bool lossy() const { return custom && custom->lossy; }
    qint64 offered() const { return custom ? custom->offered : qint64(buf.data().size()); }
};

static const QString SJID = QStringLiteral("romeo@montague.example/orchard");
static const QString RJID = QStringLiteral("juliet@capulet.example/balcony");
// JIDs that are NOT the offering client's full JID (the model only knows "sender ≠ 0"; the number selects the string)
static QString thirdJid(int n)
{
    switch (n) {
    case 2: return QStringLiteral("romeo@montague.example/phone");             // same account, other resource
    case 3: return QStringLiteral("romeo@montague.example");                   // same account, bare JID
    case 4: return QStringLiteral("Romeo@Montague.Example/orchard");           // case variant
    case 5: return QStringLiteral("romeo@montague.example.evil.org/orchard");  // look-alike domain extending the real one
    default: return QStringLiteral("mallory%1@evil.example/x").arg(n);         // another account
    }
}

struct World {
    Side s { SJID };
    Side r { RJID };
    QXmppTransferJob *incoming = nullptr;
    QIODevice *acceptInto = nullptr;
    QString acceptPath;  // if set: the application calls accept(filePath) and the library opens the file itself
    World()
    {
        s.mgr->setSupportedMethods(QXmppTransferJob::InBandMethod);
        r.mgr->setSupportedMethods(QXmppTransferJob::InBandMethod);
        if (blockSizeField(s.mgr) != 4096 || blockSizeField(r.mgr) != 4096) {
            fprintf(stderr, "harness: QXmppTransferManagerPrivate layout changed (ibbBlockSize is no longer the first member)\n");
            exit(3);
        }
        QObject::connect(r.mgr, &QXmppTransferManager::fileReceived, [this](QXmppTransferJob *job) {
            incoming = job;
            if (!acceptPath.isEmpty()) job->accept(acceptPath);
            else if (acceptInto) job->accept(acceptInto);
        });
    }
};
static World *W = nullptr;

// ------------------------------------------------------------------------------------------------ one IBB transfer
struct Transfer {
    int bsS, bsR;
    bool withHash;
    bool withSize = true;
    QByteArray data;
    QString sidStr;
    std::vector<QString> sentIds;  // ids of the XEP-0047 requests the sending client emitted, in order
    QBuffer sendBuf;
    Sink sink;
    QXmppTransferJob *sj = nullptr, *rj = nullptr;
    int sFin = 0, rFin = 0, sErrSig = 0, rErrSig = 0;
    qint64 sDone = 0, rDone = 0;
    std::optional<Ibb> pending;
    std::string history;
    // what the oracle needs to know about the faults applied (decided from the op and the kind of stanza it hit)
    int faults = 0;        // fault ops that hit a data block (lost / reordered / altered / mislabelled / stream cut short)
    int harmlessDups = 0;  // duplicated data blocks
    int otherOps = 0;      // anything else that is not an honest delivery (faults on <open/>/<close/>, forged stanzas)
    int foreignInj = 0;    // injected stanzas from another JID / for another session id
    bool sawRSuccessWrong = false;
    bool altered = false;  // a payload was altered in transit / a block was forged in the sender's name with its session id
    bool dupRefused = false;
    std::string faultKind;        // the op of the (last) fault that hit a data block
    QString pathMode;             // accept(filePath): the file the library writes
    QByteArray onDiskAtFinished;  // what that file held when finished() was emitted
    bool finishedSeen = false;
    bool senderIgnoredError = false, senderMovedOnForeignAck = false;
    static int counter;

    Transfer(int bS, int bR, bool hash, const QByteArray &d, DevSpec dev) : bsS(bS), bsR(bR), withHash(hash), data(d), sink(dev) { }
    ~Transfer()
    {
        delete sj;
        delete rj;
        W->incoming = nullptr;
        W->acceptInto = nullptr;
        W->acceptPath.clear();
        W->s.out.clear();
        W->r.out.clear();
    }

    bool start()
    {
        blockSizeField(W->s.mgr) = bsS;
        blockSizeField(W->r.mgr) = bsR;
        sidStr = QStringLiteral("sid%1").arg(++counter);
        sendBuf.setData(data);
        sendBuf.open(QIODevice::ReadOnly);
        W->acceptInto = pathMode.isEmpty() ? sink.device() : nullptr;
        W->acceptPath = pathMode;
        W->incoming = nullptr;
        QXmppTransferFileInfo info;
        info.setName(QStringLiteral("file.bin"));
        info.setSize(withSize ? data.size() : 0);  // 0 = no size attribute in the offer (sequential source of unknown length)
        if (withHash) info.setHash(QCryptographicHash::hash(data, QCryptographicHash::Md5));
        sj = W->s.mgr->sendFile(RJID, &sendBuf, info, sidStr);
        if (!sj) return false;
        QObject::connect(sj, &QXmppTransferJob::finished, [this]() { sFin++; });
        QObject::connect(sj, QOverload<QXmppTransferJob::Error>::of(&QXmppTransferJob::error), [this](QXmppTransferJob::Error) { sErrSig++; });
        QObject::connect(sj, &QXmppTransferJob::progress, [this](qint64 done, qint64) { sDone = done; });
        // negotiation (XEP-0095/0096) is forwarded untouched until the sender emits its first XEP-0047 stanza
        for (int guard = 0; guard < 16 && !pending; guard++) {
            bool moved = false;
            while (!W->s.out.empty() && !pending) {
                QString x = W->s.out.front(); W->s.out.pop_front();
                moved = true;
                if (auto p = asIbb(x)) { pending = p; sentIds.push_back(p->id); break; }
                forward(x, SJID, W->r);
            }
            while (!W->r.out.empty()) {
                QString x = W->r.out.front(); W->r.out.pop_front();
                moved = true;
                forward(x, RJID, W->s);
            }
            QCoreApplication::processEvents();
            if (!moved) break;
        }
        rj = W->incoming;
        if (rj) {
            QObject::connect(rj, &QXmppTransferJob::finished, [this]() {
                rFin++;
                if (!pathMode.isEmpty() && !finishedSeen) {
                    // what an application that opens the file in its finished() handler sees
                    finishedSeen = true;
                    QFile f(pathMode);
                    if (f.open(QIODevice::ReadOnly)) onDiskAtFinished = f.read(1 << 26);
                }
            });
            QObject::connect(rj, &QXmppTransferJob::progress, [this](qint64 done, qint64) { rDone = done; });
            QObject::connect(rj, QOverload<QXmppTransferJob::Error>::of(&QXmppTransferJob::error), [this](QXmppTransferJob::Error) { rErrSig++; });
        }
        return rj && pending && pending->kind == Ibb::Open;
    }

    static void forward(const QString &xml, const QString &from, Side &to)
    {
        QDomDocument doc;
        QDomElement e = parseStanza(xml, doc);
        if (!e.hasAttribute(QStringLiteral("from"))) e.setAttribute(QStringLiteral("from"), from);
        to.client.receive(e);
    }

    std::optional<Ibb> asIbb(const QString &xml) const
    {
        QDomDocument doc;
        QDomElement e = parseStanza(xml, doc);
        if (e.tagName() != QLatin1String("iq") || e.attribute(QStringLiteral("type")) != QLatin1String("set")) return std::nullopt;
        QDomElement c = e.firstChildElement();
        if (c.namespaceURI() != QLatin1String(NS_IBB)) return std::nullopt;
        Ibb i;
        i.id = e.attribute(QStringLiteral("id"));
        if (e.attribute(QStringLiteral("to")) != RJID || c.attribute(QStringLiteral("sid")) != sidStr) {
            fprintf(stderr, "harness: sender emitted an IBB stanza for another peer/session: %s\n", qPrintable(xml));
            exit(3);
        }
        if (c.tagName() == QLatin1String("open")) { i.kind = Ibb::Open; i.bs = c.attribute(QStringLiteral("block-size")).toLong(); }
        else if (c.tagName() == QLatin1String("data")) {
            i.kind = Ibb::Data; i.seq = c.attribute(QStringLiteral("seq")).toLong();
            i.payload = QByteArray::fromBase64(c.text().toLatin1());
        } else if (c.tagName() == QLatin1String("close")) i.kind = Ibb::Close;
        else return std::nullopt;
        return i;
    }

    static QString dataText(const Ibb &i)
    {
        if (i.raw) return i.rawText.toHtmlEscaped();
        QString b64 = QString::fromLatin1(i.payload.toBase64());
        if (!i.spaced) return b64;
        QString out = QStringLiteral("\n  ");
        for (int k = 0; k < b64.size(); k++) { out += b64[k]; if (k % 4 == 3) out += QStringLiteral("\n\t "); }
        return out + QStringLiteral(" ");
    }
    QString render(const Ibb &i) const
    {
        const QString from = i.sender == 0 ? SJID : thirdJid(i.sender);
        const QString sid = i.sid == 0 ? sidStr : sidStr + QStringLiteral("-other%1").arg(i.sid);
        QString head = QStringLiteral("<iq id=\"%1\" to=\"%2\" from=\"%3\" type=\"set\">").arg(i.id, RJID, from);
        switch (i.kind) {
        case Ibb::Open:
            return head + QStringLiteral("<open xmlns=\"%1\" sid=\"%2\" block-size=\"%3\"/></iq>").arg(QLatin1String(NS_IBB), sid).arg(i.bs);
        case Ibb::Data:
            return head + QStringLiteral("<data xmlns=\"%1\" sid=\"%2\" seq=\"%3\">%4</data></iq>")
                              .arg(QLatin1String(NS_IBB), sid).arg(i.seq).arg(dataText(i));
        case Ibb::Close:
            return head + QStringLiteral("<close xmlns=\"%1\" sid=\"%2\"/></iq>").arg(QLatin1String(NS_IBB), sid);
        }
        return {};
    }

    struct Reply { QString xml; QString id; bool ok; QString cond; int to; };
    std::vector<Reply> replies;  // of the current op

    // the receiving client handles one stanza; exactly what it sends back is collected
    std::vector<Reply> toReceiver(const Ibb &i)
    {
        W->r.out.clear();
        W->r.receiveXml(render(i));
        std::vector<Reply> res;
        for (auto &x : W->r.out) {
            QDomDocument doc;
            QDomElement e = parseStanza(x, doc);
            Reply rp;
            rp.xml = x;
            rp.id = e.attribute(QStringLiteral("id"));
            rp.ok = e.attribute(QStringLiteral("type")) == QLatin1String("result");
            QDomElement er = e.firstChildElement(QStringLiteral("error"));
            rp.cond = er.isNull() ? QString() : er.firstChildElement().tagName();
            const QString to = e.attribute(QStringLiteral("to"));
            rp.to = to == SJID ? 0 : 1;
            res.push_back(rp);
            replies.push_back(rp);
            stat(rp.ok ? "reply_result" : "reply_" + rp.cond.toStdString());
        }
        W->r.out.clear();
        return res;
    }
    // the sending client handles one response; what it emits becomes the pending stanza
    void toSender(const QString &replyXml)
    {
        W->s.out.clear();
        forward(replyXml, RJID, W->s);
        // sender-side oracle: an error response of the peer to the request in flight must end the job with an error
        bool peerError = false;
        {
            QDomDocument doc;
            QDomElement e = parseStanza(replyXml, doc);
            const QString from = e.hasAttribute(QStringLiteral("from")) ? e.attribute(QStringLiteral("from")) : RJID;
            peerError = e.attribute(QStringLiteral("type")) == QLatin1String("error") && from == RJID && !sentIds.empty() &&
                e.attribute(QStringLiteral("id")) == sentIds.back() && sj->state() != QXmppTransferJob::FinishedState;
        }
        for (auto &x : W->s.out) {
            if (auto p = asIbb(x)) { pending = p; sentIds.push_back(p->id); }
            else { fprintf(stderr, "harness: unexpected stanza from sender: %s\n", qPrintable(x)); exit(3); }
        }
        W->s.out.clear();
        if (peerError && !(sj->state() == QXmppTransferJob::FinishedState && sj->error() != QXmppTransferJob::NoError)) senderIgnoredError = true;
    }
    void feed(const std::vector<Reply> &rs) { for (auto &rp : rs) if (rp.to == 0) toSender(rp.xml); }
    QString forgedAck(const Ibb &i) const
    {
        return QStringLiteral("<iq id=\"%1\" to=\"%2\" type=\"result\"/>").arg(i.id, SJID);
    }

    std::string observe()
    {
        QCoreApplication::processEvents();  // queued _q_terminated → finished()/error() signals
        std::string rp;
        for (auto &x : replies) {
            if (!rp.empty()) rp += ",";
            if (x.to != 0) rp += "@";
            rp += x.ok ? "ok" : "e:" + x.cond.toStdString();
        }
        if (rp.empty()) rp = "-";
        std::ostringstream o;
        o << rp << "|R " << stateName(rj->state()) << " " << errName(rj->error()) << " " << sink.held().size() << " "
          << digest(sink.held()) << " d" << rDone << " f" << rFin << " e" << rErrSig
          << "|S " << stateName(sj->state()) << " " << errName(sj->error()) << " " << sDone << " f" << sFin << " e" << sErrSig
          << "|P " << showPending(pending);
        // oracle 1 is evaluated after every op: whenever the receiver says "finished without error" it must hold the sender's bytes
        if (rj->state() == QXmppTransferJob::FinishedState && rj->error() == QXmppTransferJob::NoError && sink.held() != data)
            sawRSuccessWrong = true;
        return o.str();
    }

    static void fireTimers(QXmppTransferJob *job)
    {
        const auto timers = job->findChildren<QTimer *>(QString(), Qt::FindDirectChildrenOnly);
        for (QTimer *t : timers) {
            if (!t->isActive() || !t->isSingleShot()) continue;
            const int interval = t->interval();
            t->start(0);
            QElapsedTimer guard; guard.start();
            while (t->isActive() && guard.elapsed() < 5000) QCoreApplication::processEvents(QEventLoop::AllEvents, 2);
            t->setInterval(interval);
        }
    }
    std::string apply(const std::string &op)
    {
        history += op + ";";
        replies.clear();
        std::istringstream is(op);
        std::string w; is >> w;
        stat("op_" + w);
        const bool onData = pending && pending->kind == Ibb::Data;
        const int faultsBefore = faults + harmlessDups;
        const int faultsOnlyBefore = faults;
        if (w == "deliver") {
            if (pending) { Ibb p = *pending; pending.reset(); feed(toReceiver(p)); }
        } else if (w == "run") {
            long n; is >> n;
            for (long k = 0; k < n && pending; k++) { Ibb p = *pending; pending.reset(); feed(toReceiver(p)); }
            // the per-stanza replies of a long run are summarised
            long ok = 0, bad = 0;
            for (auto &x : replies) (x.ok ? ok : bad)++;
            replies.clear();
            std::string o = observe();
            return "ok" + std::to_string(ok) + ",err" + std::to_string(bad) + o.substr(o.find('|'));
        } else if (w == "deliverws") {
            // honest delivery with the base64 text broken up by white space (not a fault)
            if (pending) { Ibb p = *pending; pending.reset(); p.spaced = true; feed(toReceiver(p)); }
        } else if (w == "timeout") {
            // the 120 s inactivity interval elapses: fire the running in-band timers of both jobs now (they are plain QTimer
            // children of the job objects; no hook in the library is needed)
            fireTimers(sj); fireTimers(rj);
        } else if (w == "lose") {
            if (pending) { pending.reset(); if (onData) faults++; }
        } else if (w == "rinj") {
            long o = 0, b = 0; std::string cond; is >> o >> b >> cond;
            const long idx = long(sentIds.size()) - b;
            const QString id = idx >= 1 ? sentIds[size_t(idx - 1)] : QStringLiteral("chan-none");
            const QString from = o == 0 ? RJID : thirdJid(int(o));
            QString xml = QStringLiteral("<iq id=\"%1\" to=\"%2\" from=\"%3\" type=\"%4\">").arg(id, SJID, from, cond == "ok" ? QStringLiteral("result") : QStringLiteral("error"));
            if (cond != "ok") xml += QStringLiteral("<error type=\"cancel\"><%1 xmlns=\"urn:ietf:params:xml:ns:xmpp-stanzas\"/></error>").arg(QString::fromStdString(cond));
            xml += QStringLiteral("</iq>");
            const qint64 doneBefore = sDone; const std::string pendBefore = showPending(pending);
            const auto stateBefore = sj->state();
            toSender(xml);
            if ((o != 0 || b != 0) && (sDone != doneBefore || showPending(pending) != pendBefore || sj->state() != stateBefore)) senderMovedOnForeignAck = true;
        } else if (w == "pclose") {
            W->s.out.clear();
            W->s.receiveXml(QStringLiteral("<iq id=\"peer-close\" to=\"%1\" from=\"%2\" type=\"set\"><close xmlns=\"%3\" sid=\"%4\"/></iq>")
                                .arg(SJID, RJID, QLatin1String(NS_IBB), sidStr));
            std::string rp;
            for (auto &x : W->s.out) {
                QDomDocument doc;
                QDomElement e = parseStanza(x, doc);
                if (!rp.empty()) rp += ",";
                QDomElement er = e.firstChildElement(QStringLiteral("error"));
                rp += e.attribute(QStringLiteral("type")) == QLatin1String("result") ? "ok" : "e:" + er.firstChildElement().tagName().toStdString();
            }
            W->s.out.clear();
            otherOps++;
            std::string o = observe();
            return "s:" + rp + o.substr(o.find('|'));
        } else if (w == "drop") {
            if (pending) { Ibb p = *pending; pending.reset(); toSender(forgedAck(p)); if (onData) faults++; }
        } else if (w == "dup") {
            if (pending) {
                Ibb p = *pending; pending.reset();
                auto r1 = toReceiver(p);
                const qint64 len1 = sink.held().size();
                auto r2 = toReceiver(p);
                if (onData) {
                    harmlessDups++;
                    dupRefused = r2.size() == 1 && !r2[0].ok && sink.held().size() == len1;
                }
                feed(r1); feed(r2);
            }
        } else if (w == "swap") {
            if (pending) {
                Ibb p = *pending; pending.reset();
                toSender(forgedAck(p));
                if (pending) {
                    Ibb q = *pending; pending.reset();
                    auto rq = toReceiver(q);
                    auto rp = toReceiver(p);
                    feed(rq); feed(rp);
                    if (onData) faults++;
                } else {
                    feed(toReceiver(p));
                }
            }
        } else if (w == "flip") {
            long bit; is >> bit;
            if (pending) {
                Ibb p = *pending; pending.reset();
                if (p.kind == Ibb::Data && !p.payload.isEmpty()) {
                    long b = bit % (8L * p.payload.size());
                    p.payload[int(b / 8)] = char(p.payload[int(b / 8)] ^ (1 << (b % 8)));
                    faults++;
                    altered = true;
                }
                feed(toReceiver(p));
            }
        } else if (w == "eclose") {
            Ibb c; c.kind = Ibb::Close; c.id = QStringLiteral("chan-close");
            feed(toReceiver(c));
            if (onData) faults++;
        } else if (w == "wsid") {
            if (pending) { Ibb p = *pending; pending.reset(); p.sid = 1; feed(toReceiver(p)); if (onData) faults++; }
        } else if (w == "wsender") {
            int who = 1; is >> who; if (who <= 0) who = 1;
            if (pending) { Ibb p = *pending; pending.reset(); p.sender = who; feed(toReceiver(p)); if (onData) faults++; }
        } else if (w == "inj") {
            Ibb c; std::string kind;
            is >> c.sender >> c.sid >> kind;
            c.id = QStringLiteral("chan-inj");
            if (kind == "open") { c.kind = Ibb::Open; is >> c.bs; }
            else if (kind == "data") {
                std::string hx; is >> c.seq >> hx; c.kind = Ibb::Data;
                if (hx != "-") c.payload = QByteArray::fromHex(QByteArray::fromStdString(hx));
            } else if (kind == "rawdata") {
                std::string hx; is >> c.seq >> hx; c.kind = Ibb::Data; c.raw = true;
                if (hx != "-") c.rawText = QString::fromLatin1(QByteArray::fromHex(QByteArray::fromStdString(hx)));
            } else c.kind = Ibb::Close;
            feed(toReceiver(c));
            if (c.sender != 0 || c.sid != 0) foreignInj++;  // somebody else's stanza: must not disturb the transfer
            else otherOps++;                                // forged in the sender's name: only oracle 1 applies
            if (c.sender == 0 && c.sid == 0 && c.kind == Ibb::Data) altered = true;
        }
        if (faults > faultsOnlyBefore) faultKind = w;
        if (w != "deliver" && w != "deliverws" && w != "inj" && w != "timeout" && faults + harmlessDups == faultsBefore) otherOps++;
        return observe();
    }

    bool rSuccess() const { return rj->state() == QXmppTransferJob::FinishedState && rj->error() == QXmppTransferJob::NoError; }
    bool sSuccess() const { return sj->state() == QXmppTransferJob::FinishedState && sj->error() == QXmppTransferJob::NoError; }
};
int Transfer::counter = 0;

// ------------------------------------------------------------------------------------------------ contents
static QByteArray makeContent(const std::string &kind, long n, Rng &rng)
{
    QByteArray d(int(n), '\0');
    if (kind == "ff") d.fill(char(0xff));
    else if (kind == "pat") for (long i = 0; i < n; i++) d[int(i)] = char((i * 131 + (i / 256) * 17 + 7) % 256);
    else if (kind == "rnd") for (long i = 0; i < n; i++) d[int(i)] = char(rng.below(256));
    return d;
}
static std::string contentSpec(const std::string &kind, const QByteArray &d)
{
    if (kind == "zero" || kind == "ff" || kind == "pat") return kind + ":" + std::to_string(d.size());
    return "hex:" + hex((const unsigned char *)d.constData(), d.size());
}

// ------------------------------------------------------------------------------------------------ running + judging
struct Case { int bsS, bsR; bool hash; std::string kind; QByteArray data; std::vector<std::string> ops; bool finishHonestly = true; DevSpec dev; bool announceSize = true; };

static long long totalOps = 0;

// Oracles, from the property text only (no model involved):
//  (1) whenever the receiving job is finished without error, the receiver's device holds exactly the sender's bytes;
//  (2) no fault at all  ⇒ both jobs finish without error and the bytes are identical;
//  (3) exactly one fault that hit a data block (lost / reordered / altered / mislabelled / stream cut short) and an honest
//      channel otherwise ⇒ the receiving job never reports success, AND, once the honest remainder of the exchange has
//      been delivered, it HAS FINISHED with FileCorruptError or ProtocolError (a job that just sits in TransferState does
//      not "report a corruption or protocol error").  A duplicated block is judged by (1) plus "the copy is refused and not
//      written": the code answers the copy with <unexpected-request/>, does not write it, and the transfer completes with
//      identical bytes (theorem duplicate_is_refused_and_harmless) — read as satisfying the property.
//  (4) stanzas of other JIDs / other sessions do not disturb the transfer;
//  (5) sending side: an error response of the peer to the request in flight ends the sending job with an error; responses
//      from other JIDs or to older requests do not move it.
static void judge(Transfer &t, const Case &c, const std::string &replay)
{
    const long long blocks = c.bsS > 0 ? (c.data.size() + c.bsS - 1) / c.bsS : 0;
    if (t.senderIgnoredError) oracleFail("C19:sender-ignores-error-response", replay);
    if (t.senderMovedOnForeignAck) oracleFail("C19:sender-moves-on-foreign-or-stale-response", replay);
    if (t.sawRSuccessWrong) {
        // recorded limits: nothing announced to check against
        const char *key = !c.hash && t.altered ? "C19:nohash-altered-accepted"                      // altered/forged, no hash announced
            : !c.hash && !c.announceSize ? "C19:nosize-nohash-truncated-accepted"                  // neither size nor hash announced
            : !c.announceSize && t.sink.lossy() ? "C19:nosize-short-write-accepted"                // hash covers offered bytes only
            : "C19:success-with-different-bytes";
        oracleFail(key, replay);
        return;
    }
    if (t.faults == 0 && t.harmlessDups == 0 && t.otherOps == 0 && c.bsS <= c.bsR && c.bsS > 0 && !t.sink.lossy()) {
        if (t.rSuccess() && t.sSuccess() && t.sink.held() == c.data) oraclePass()++;
        else oracleFail(t.foreignInj > 0 ? "C19:foreign-stanza-disturbs-transfer"
                        : blocks > 65536 ? "C19:ibb-seq-wrap" : "C19:honest-run-not-successful", replay);
        return;
    }
    if (t.faults == 1 && t.harmlessDups == 0 && t.otherOps == 0) {
        // (FileAccessError counts when the receiver's own device refused data: that is what then went wrong)
        const bool reported = t.rj->state() == QXmppTransferJob::FinishedState &&
            (t.rj->error() == QXmppTransferJob::FileCorruptError || t.rj->error() == QXmppTransferJob::ProtocolError ||
             (t.sink.lossy() && t.rj->error() == QXmppTransferJob::FileAccessError));
        if (t.rSuccess()) oracleFail("C19:fault-but-success", replay);
        else if (!reported) {
            // the block (or the answer to it) vanished and nothing follows: before repo commit 72eab57 the library had no
            // timeout and both jobs waited for ever (key kept for that regression)
            const bool silent = t.faultKind == "lose" || t.faultKind == "wsender";
            oracleFail(silent ? "C19:lost-stanza-hangs-forever" : "C19:fault-without-error-report", replay);
        } else oraclePass()++;
        return;
    }
    if (t.faults == 0 && t.harmlessDups == 1 && t.otherOps == 0 && c.bsS <= c.bsR && !t.sink.lossy()) {
        // a duplicated data block: the copy must be refused (error reply, nothing written) and the transfer must still be exact
        if (t.dupRefused && t.rSuccess() && t.sink.held() == c.data) oraclePass()++;
        else oracleFail("C19:duplicate-not-refused", replay);
        return;
    }
    oraclePass()++;  // several faults / forged stanzas / sender-side ops: oracles (1) and (5) were the claims, they held
}

static void runCase(const Case &c)
{
    Transfer t(c.bsS, c.bsR, c.hash, c.data, c.dev);
    t.withSize = c.announceSize;
    const std::string reset = "reset ibb " + std::to_string(c.bsS) + " " + std::to_string(c.bsR) + " " + (c.hash ? "1" : "0") + " " +
        (c.announceSize ? "1" : "0") + " " + c.dev.str() + " " +
        contentSpec(c.kind, c.data);
    printf("I %s\n", reset.substr(0, 200).c_str());
    fflush(stdout);
    if (!t.start()) {
        fprintf(stderr, "harness: negotiation did not reach <open/> for %s\n", reset.substr(0, 200).c_str());
        exit(3);
    }
    corr(reset, "ok|" + t.observe().substr(2));
    for (auto &op : c.ops) { corr(op, t.apply(op)); totalOps++; }
    if (c.finishHonestly) {
        // honest continuation to the end (bounded: every deliver either consumes the pending stanza or there is none)
        long guard = 0;
        const long blocks = c.bsS > 0 ? (c.data.size() + c.bsS - 1) / c.bsS : 0;
        if (blocks > 64) {
            corr("run " + std::to_string(blocks + 4), t.apply("run " + std::to_string(blocks + 4)));
        } else {
            while (t.pending && guard++ < 200) { corr("deliver", t.apply("deliver")); totalOps++; }
        }
        // … and enough time: whatever is still waiting for a stanza that will never come gives up
        corr("timeout", t.apply("timeout")); totalOps++;
    }
    std::string replay = reset.substr(0, 300) + " :: " + t.history.substr(0, 600);
    judge(t, c, replay);
    stat("transfers");
}

static std::string rndHex(Rng &rng, int n)
{
    QByteArray b(n, '\0');
    for (int i = 0; i < n; i++) b[i] = char(rng.below(256));
    return n ? hex((const unsigned char *)b.constData(), n) : std::string("-");
}

// ------------------------------------------------------------------------------------------------ SOCKS5 receive path
// The harness plays the sending peer towards the real receiving client: SI offer with the bytestreams method, then a
// XEP-0065 <query/> naming a stream host on 127.0.0.1 that is a real QXmppSocksServer owned by the harness; the real
// QXmppTransferIncomingJob connects with a real QXmppSocksClient; the harness writes the byte stream.
struct SocksRun {
    QByteArray data;        // what the peer announced (size/hash are of this)
    bool withHash; bool withSize;
    Sink sink;
    QXmppTransferJob *rj = nullptr;
    int rFin = 0;
    qint64 rDone = 0;
    explicit SocksRun(DevSpec d) : sink(d) { }
    QTcpSocket *sock = nullptr;
    std::string obs()
    {
        std::ostringstream o;
        o << "R " << stateName(rj->state()) << " " << errName(rj->error()) << " " << sink.held().size() << " " << digest(sink.held()) << " d" << rDone << " f" << rFin;
        return o.str();
    }
};

static bool spinUntil(const std::function<bool()> &cond, int ms = 20000)
{
    QElapsedTimer t; t.start();
    while (!cond() && t.elapsed() < ms) QCoreApplication::processEvents(QEventLoop::AllEvents, 5);
    return cond();
}

static int socksCounter = 0;
static bool socksAvailable = true;
// accept(filePath) on the SOCKS5 receive path: when set, the receiving application lets the library open this path
// (oracle only, no model lines); the whole file is read back inside finished()
static QString g_socksPath;
static QByteArray g_socksDiskAtFinished;
static bool g_socksPathOk = false;

// chunks: the byte strings written; `disconnectAtEnd`: close the connection afterwards
static void runSocks(const QByteArray &announced, bool withHash, bool withSize, const std::vector<QByteArray> &chunks, bool faulty,
                     const std::string &label, DevSpec dev = DevSpec())
{
    if (!socksAvailable) { stat("socks_skipped"); return; }
    World &w = *W;
    w.r.mgr->setSupportedMethods(QXmppTransferJob::SocksMethod);
    SocksRun run(dev);
    run.data = announced;
    const bool pathMode = !g_socksPath.isEmpty();
    w.acceptInto = pathMode ? nullptr : run.sink.device();
    w.acceptPath = g_socksPath;
    g_socksDiskAtFinished.clear(); g_socksPathOk = false;
    w.incoming = nullptr;
    w.r.out.clear();
    const QString sid = QStringLiteral("socks%1").arg(++socksCounter);
    QXmppSocksServer server;
    QTcpSocket *accepted = nullptr;
    QObject::connect(&server, &QXmppSocksServer::newConnection, [&](QTcpSocket *s, QString, quint16) { accepted = s; });
    if (!server.listen()) { socksAvailable = false; stat("socks_skipped"); w.r.mgr->setSupportedMethods(QXmppTransferJob::InBandMethod); return; }

    QString file = QStringLiteral("<file xmlns=\"http://jabber.org/protocol/si/profile/file-transfer\" name=\"f.bin\"");
    if (withSize) file += QStringLiteral(" size=\"%1\"").arg(announced.size());
    if (withHash) file += QStringLiteral(" hash=\"%1\"").arg(QString::fromLatin1(QCryptographicHash::hash(announced, QCryptographicHash::Md5).toHex()));
    file += QStringLiteral("/>");
    const QString offer = QStringLiteral("<iq id=\"offer1\" to=\"%1\" from=\"%2\" type=\"set\"><si xmlns=\"http://jabber.org/protocol/si\" id=\"%3\" "
                                         "profile=\"http://jabber.org/protocol/si/profile/file-transfer\">%4"
                                         "<feature xmlns=\"http://jabber.org/protocol/feature-neg\"><x xmlns=\"jabber:x:data\" type=\"form\">"
                                         "<field type=\"list-single\" var=\"stream-method\"><option><value>http://jabber.org/protocol/bytestreams</value></option>"
                                         "</field></x></feature></si></iq>").arg(RJID, SJID, sid, file);
    w.r.receiveXml(offer);
    run.rj = w.incoming;
    std::string op = "reset socks " + std::string(withHash ? "1 " : "0 ") + (withSize ? "1 " : "0 ") + dev.str() + " hex:" +
        hex((const unsigned char *)announced.constData(), announced.size());
    if (!run.rj || run.rj->method() != QXmppTransferJob::SocksMethod) {
        fprintf(stderr, "harness: SOCKS offer not accepted\n"); exit(3);
    }
    QObject::connect(run.rj, &QXmppTransferJob::finished, [&run, pathMode]() {
        run.rFin++;
        if (pathMode && run.rFin == 1) {
            QFile f(g_socksPath);
            if (f.open(QIODevice::ReadOnly)) g_socksDiskAtFinished = f.read(1 << 26);
        }
    });
    QObject::connect(run.rj, &QXmppTransferJob::progress, [&run](qint64 done, qint64) { run.rDone = done; });
    const QString hosts = QStringLiteral("<iq id=\"hosts1\" to=\"%1\" from=\"%2\" type=\"set\"><query xmlns=\"http://jabber.org/protocol/bytestreams\" sid=\"%3\">"
                                         "<streamhost jid=\"%2\" host=\"127.0.0.1\" port=\"%4\"/></query></iq>").arg(RJID, SJID, sid).arg(server.serverPort());
    w.r.receiveXml(hosts);
    if (!spinUntil([&]() { return accepted && run.rj->state() == QXmppTransferJob::TransferState; }, 5000)) {
        // no loopback TCP in this environment: documented as not exercised
        socksAvailable = false; stat("socks_skipped");
        delete run.rj; w.incoming = nullptr; w.acceptInto = nullptr;
        w.r.mgr->setSupportedMethods(QXmppTransferJob::InBandMethod);
        return;
    }
    if (!pathMode) corr(op, "ok|" + run.obs());
    std::string hist = op + ";";
    for (auto &c : chunks) {
        const qint64 before = pathMode ? run.rDone : run.sink.offered();
        accepted->write(c);
        accepted->flush();
        spinUntil([&]() { return (pathMode ? run.rDone : run.sink.offered()) >= before + c.size() || run.rj->state() == QXmppTransferJob::FinishedState; });
        QCoreApplication::processEvents();
        std::string o = "chunk " + (c.isEmpty() ? std::string("-") : hex((const unsigned char *)c.constData(), c.size()));
        hist += o.substr(0, 140) + ";";
        if (!pathMode) corr(o, run.obs());
    }
    // the peer closes the connection
    const bool wasFinished = run.rj->state() == QXmppTransferJob::FinishedState;
    accepted->disconnectFromHost();
    spinUntil([&]() { return run.rj->state() == QXmppTransferJob::FinishedState; }, 20000);
    QCoreApplication::processEvents();
    (void)wasFinished;
    if (!pathMode) corr("disc", run.obs());
    hist += "disc;";
    if (pathMode) {
        // accept(filePath): success ⇒ the WHOLE file on disk (length and content), as seen from finished(), is what was sent
        const bool ok = run.rj->state() == QXmppTransferJob::FinishedState && run.rj->error() == QXmppTransferJob::NoError;
        g_socksPathOk = ok;
        if (!ok) oracleFail("C19:accept-path-honest-run-not-successful", label);
        else if (g_socksDiskAtFinished != announced)
            oracleFail("C19:accept-path-file-differs-from-sent-bytes", label + " sent=" + std::to_string(announced.size()) + " on-disk=" + std::to_string(g_socksDiskAtFinished.size()));
        else oraclePass()++;
        stat("socks_path_runs");
        delete run.rj;
        w.incoming = nullptr; w.acceptInto = nullptr; w.acceptPath.clear(); w.r.out.clear();
        w.r.mgr->setSupportedMethods(QXmppTransferJob::InBandMethod);
        return;
    }
    // oracle: success ⇒ identical bytes; honest ⇒ success; truncated/altered ⇒ not success (when the offer carried what is needed)
    QByteArray all; for (auto &c : chunks) all += c;
    const bool success = run.rj->state() == QXmppTransferJob::FinishedState && run.rj->error() == QXmppTransferJob::NoError;
    if (run.sink.lossy()) faulty = true;  // the device did not take everything: the receiver cannot hold the file
    if (success && run.sink.held() != announced) oracleFail("C19:socks-success-with-different-bytes", label + " " + hist.substr(0, 400));
    else if (!faulty && !success) oracleFail("C19:socks-honest-run-not-successful", label + " " + hist.substr(0, 400));
    else if (faulty && success) oracleFail("C19:socks-fault-but-success", label + " " + hist.substr(0, 400));
    else oraclePass()++;
    stat("socks_runs");
    delete run.rj;
    w.incoming = nullptr; w.acceptInto = nullptr; w.r.out.clear();
    w.r.mgr->setSupportedMethods(QXmppTransferJob::InBandMethod);
}

// ------------------------------------------------------------------------------------------------ accept(filePath)
// The application lets the library open the file (QXmppTransferJob::accept(const QString &)).  Oracle only (no model
// lines): success ⇒ the file ON DISK, as an application sees it from its finished() handler, equals the bytes sent;
// a file that cannot hold the data (/dev/full: every flush fails with ENOSPC) must not end in success.
// `previous`: what the destination path already holds (null QByteArray = no such file)
static void runAcceptPath(const QByteArray &data, const QString &path, const std::string &what, const QByteArray &previous = QByteArray(),
                          int blockSize = 4096)
{
    if (path.startsWith(QStringLiteral("/verif/"))) {
        QFile::remove(path);
        if (!previous.isNull()) { QFile f(path); if (f.open(QIODevice::WriteOnly)) { f.write(previous); f.close(); } }
    }
    Transfer t(blockSize, 4096, true, data, DevSpec());
    t.pathMode = path;
    const std::string label = "accept-path " + what + " size=" + std::to_string(data.size()) +
        (previous.isNull() ? std::string(" no-previous-file") : " previous-file=" + std::to_string(previous.size()) + "bytes");
    printf("I %s\n", label.c_str()); fflush(stdout);
    const bool started = t.start();
    if (started) {
        long guard = 0;
        while (t.pending && guard++ < 100000) { Ibb p = *t.pending; t.pending.reset(); t.feed(t.toReceiver(p)); }
    }
    QCoreApplication::processEvents();
    QCoreApplication::processEvents();
    const bool rOk = t.rj && t.rj->state() == QXmppTransferJob::FinishedState && t.rj->error() == QXmppTransferJob::NoError;
    if (what == "unwritable") {
        // the library could not open the file: nobody may report success
        const bool sOk = t.sj->state() == QXmppTransferJob::FinishedState && t.sj->error() == QXmppTransferJob::NoError;
        if (rOk || sOk) oracleFail("C19:accept-path-unwritable-but-success", label); else oraclePass()++;
    } else if (what == "full") {
        if (rOk) oracleFail("C19:accept-path-write-error-unnoticed", label); else oraclePass()++;
    } else {
        // success ⇒ the WHOLE file on disk (length and content), as an application sees it from finished(), is what was sent
        if (!rOk) oracleFail("C19:accept-path-honest-run-not-successful", label);
        else if (t.onDiskAtFinished.size() < data.size()) oracleFail("C19:accept-path-file-incomplete-at-finished", label + " on-disk=" + std::to_string(t.onDiskAtFinished.size()));
        else if (t.onDiskAtFinished != data) oracleFail("C19:accept-path-file-differs-from-sent-bytes", label + " on-disk=" + std::to_string(t.onDiskAtFinished.size()));
        else oraclePass()++;
        // one model line: the honest transfer into a path holding `previous`, opened the way the model says the code opens it
        if (data.size() <= 4096 && previous.size() <= 4096 && t.rj) {
            const std::string prevHex = previous.isEmpty() ? std::string("-") : hex((const unsigned char *)previous.constData(), previous.size());
            corr("pathrun " + std::to_string(blockSize) + " " + prevHex + " hex:" + hex((const unsigned char *)data.constData(), data.size()),
                 std::string("R ") + stateName(t.rj->state()) + " " + errName(t.rj->error()) + " " + std::to_string(t.onDiskAtFinished.size()) + " " + digest(t.onDiskAtFinished));
        }
    }
    stat("accept_path_runs");
}

// ------------------------------------------------------------------------------------------------ SOCKS5 sending side
// The real QXmppTransferOutgoingJob with the bytestreams method; the harness plays the receiving peer (and, in the
// proxy scenarios, the XEP-0065 proxy) over 127.0.0.1.  One correspondence line per scenario for the small decision
// model (`ssend …`), plus the oracle: the sending job reports success ⇒ the peer was really connected and every byte of
// the file was handed to the socket; a wrong <streamhost-used/>, a refused activation or a peer that goes away early
// end in ProtocolError.
static QString sha1Host(const QString &sid, const QString &initiator, const QString &target)
{
    return QString::fromUtf8(QCryptographicHash::hash((sid + initiator + target).toLatin1(), QCryptographicHash::Sha1).toHex());
}
static int ssendCounter = 0;
static bool ssendAvailable = true;

static void runSocksSend(const std::string &scenario, long size, Rng &rng)
{
    if (!ssendAvailable) { stat("socks_send_skipped"); return; }
    World &w = *W;
    w.s.mgr->setSupportedMethods(QXmppTransferJob::SocksMethod);
    const bool viaProxy = scenario.rfind("proxy", 0) == 0;
    const QString proxyJid = QStringLiteral("proxy.montague.example");
    w.s.mgr->setProxy(viaProxy ? proxyJid : QString());
    w.s.mgr->setProxyOnly(viaProxy);
    QByteArray data = makeContent(size > 100000 ? "pat" : "rnd", size, rng);
    QBuffer src; src.setData(data); src.open(QIODevice::ReadOnly);
    const QString sid = QStringLiteral("ssend%1").arg(++ssendCounter);
    QXmppTransferFileInfo info; info.setName(QStringLiteral("f.bin")); info.setSize(data.size());
    info.setHash(QCryptographicHash::hash(data, QCryptographicHash::Md5));
    w.s.out.clear();
    std::unique_ptr<QXmppTransferJob> sj(w.s.mgr->sendFile(RJID, &src, info, sid));
    auto cleanup = [&]() {
        sj.reset();
        w.s.out.clear();
        w.s.mgr->setProxy(QString()); w.s.mgr->setProxyOnly(false);
        w.s.mgr->setSupportedMethods(QXmppTransferJob::InBandMethod);
    };
    auto takeSent = [&](const char *childTag) -> QDomElement {
        // the last stanza the sending client emitted with that child element
        static QDomDocument doc;
        for (auto it = w.s.out.rbegin(); it != w.s.out.rend(); ++it) {
            QDomElement e = parseStanza(*it, doc);
            if (e.firstChildElement().tagName() == QLatin1String(childTag)) { QDomElement r = e; w.s.out.clear(); return r; }
        }
        return QDomElement();
    };
    QDomElement offer = takeSent("si");
    if (offer.isNull()) { fprintf(stderr, "harness: no SI offer from the SOCKS sender\n"); exit(3); }
    // accept with the bytestreams method
    w.s.receiveXml(QStringLiteral("<iq id=\"%1\" to=\"%2\" from=\"%3\" type=\"result\"><si xmlns=\"http://jabber.org/protocol/si\">"
                                  "<feature xmlns=\"http://jabber.org/protocol/feature-neg\"><x xmlns=\"jabber:x:data\" type=\"submit\">"
                                  "<field var=\"stream-method\"><value>http://jabber.org/protocol/bytestreams</value></field></x></feature></si></iq>")
                       .arg(offer.attribute(QStringLiteral("id")), SJID, RJID));
    QXmppSocksServer proxyServer;           // the harness-owned proxy (proxy scenarios)
    QTcpSocket *atProxy = nullptr;
    QObject::connect(&proxyServer, &QXmppSocksServer::newConnection, [&](QTcpSocket *s, QString, quint16) { atProxy = s; });
    if (viaProxy) {
        if (!proxyServer.listen()) { ssendAvailable = false; cleanup(); stat("socks_send_skipped"); return; }
        QDomElement q = takeSent("query");  // iq get to the proxy
        if (q.isNull()) { fprintf(stderr, "harness: sender did not query the proxy\n"); exit(3); }
        w.s.receiveXml(QStringLiteral("<iq id=\"%1\" to=\"%2\" from=\"%3\" type=\"result\"><query xmlns=\"http://jabber.org/protocol/bytestreams\">"
                                      "<streamhost jid=\"%3\" host=\"127.0.0.1\" port=\"%4\"/></query></iq>")
                           .arg(q.attribute(QStringLiteral("id")), SJID, proxyJid).arg(proxyServer.serverPort()));
    }
    QDomElement hosts = takeSent("query");
    if (hosts.isNull()) {
        // no usable local address (QXmppIceComponent::discoverAddresses() skips loopback): the job gives up by itself
        if (!viaProxy) { ssendAvailable = false; sample("SOCKS5 sending side: no non-loopback address in this environment, direct scenarios not exercised"); }
        cleanup(); stat("socks_send_skipped"); return;
    }
    const QString offerId = hosts.attribute(QStringLiteral("id"));
    int port = 0;
    for (QDomElement h = hosts.firstChildElement().firstChildElement(QStringLiteral("streamhost")); !h.isNull(); h = h.nextSiblingElement(QStringLiteral("streamhost")))
        if (h.attribute(QStringLiteral("jid")) == SJID) port = h.attribute(QStringLiteral("port")).toInt();
    auto used = [&](const QString &jid) {
        w.s.receiveXml(QStringLiteral("<iq id=\"%1\" to=\"%2\" from=\"%3\" type=\"result\"><query xmlns=\"http://jabber.org/protocol/bytestreams\" sid=\"%4\">"
                                      "<streamhost-used jid=\"%5\"/></query></iq>").arg(offerId, SJID, RJID, sid, jid));
    };
    auto finished = [&]() { return sj->state() == QXmppTransferJob::FinishedState; };
    QByteArray got;
    bool connected = false;
    std::unique_ptr<QXmppSocksClient> peer;
    QTcpSocket *stream = nullptr;
    if (scenario == "direct-honest" || scenario == "direct-early-close") {
        peer = std::make_unique<QXmppSocksClient>(QStringLiteral("127.0.0.1"), quint16(port));
        bool ready = false;
        QObject::connect(peer.get(), &QXmppSocksClient::ready, [&]() { ready = true; });
        peer->connectToHost(sha1Host(sid, SJID, RJID), 0);
        if (!spinUntil([&]() { return ready; }, 5000)) { ssendAvailable = false; cleanup(); stat("socks_send_skipped"); return; }
        connected = true;
        stream = peer.get();
        used(SJID);
    } else if (scenario == "direct-not-connected") {
        used(SJID);                                 // "I connected to your server" — but nobody did
    } else if (scenario == "unknown-host-used") {
        used(QStringLiteral("somebody@else.example/x"));
    } else if (viaProxy) {
        used(proxyJid);                             // the peer says it went through the proxy: the sender connects there and activates
        if (!spinUntil([&]() { return atProxy != nullptr || finished(); }, 5000) || !atProxy) { ssendAvailable = false; cleanup(); stat("socks_send_skipped"); return; }
        QDomElement act;
        spinUntil([&]() { if (act.isNull()) act = takeSent("query"); return !act.isNull() || finished(); }, 5000);
        if (act.isNull()) { fprintf(stderr, "harness: no activation request\n"); exit(3); }
        const QString type = scenario == "proxy-activation-refused" ? QStringLiteral("error") : QStringLiteral("result");
        QString rep = QStringLiteral("<iq id=\"%1\" to=\"%2\" from=\"%3\" type=\"%4\">").arg(act.attribute(QStringLiteral("id")), SJID, proxyJid, type);
        if (type == QLatin1String("error")) rep += QStringLiteral("<error type=\"cancel\"><not-allowed xmlns=\"urn:ietf:params:xml:ns:xmpp-stanzas\"/></error>");
        w.s.receiveXml(rep + QStringLiteral("</iq>"));
        connected = scenario != "proxy-activation-refused";
        stream = atProxy;
    }
    if (stream && connected) {
        if (scenario == "direct-early-close") {
            spinUntil([&]() { return stream->bytesAvailable() > 0; }, 5000);
            got = stream->read(1000);
            stream->abort();                       // the peer goes away after a kilobyte
        } else {
            spinUntil([&]() { got += stream->readAll(); return got.size() >= data.size() || stream->state() != QAbstractSocket::ConnectedState; }, 20000);
            got += stream->readAll();
        }
    }
    spinUntil(finished, 10000);
    QCoreApplication::processEvents();
    const bool success = finished() && sj->error() == QXmppTransferJob::NoError;
    const std::string outcome = !finished() ? "unfinished" : errName(sj->error());
    corr("ssend " + scenario, outcome);
    const bool shouldSucceed = scenario == "direct-honest" || scenario == "proxy-honest";
    if (success && (!connected || (scenario != "direct-early-close" && got != data))) oracleFail("C19:socks-sender-success-without-delivery", scenario);
    else if (success && scenario == "direct-early-close") oracleFail("C19:socks-sender-success-after-early-close", scenario);
    else if (!success && shouldSucceed) oracleFail("C19:socks-sender-honest-run-not-successful", scenario + " -> " + outcome);
    else if (!shouldSucceed && !(finished() && sj->error() == QXmppTransferJob::ProtocolError)) oracleFail("C19:socks-sender-fault-without-error-report", scenario + " -> " + outcome);
    else oraclePass()++;
    stat("socks_send_runs");
    peer.reset();
    cleanup();
}

// ------------------------------------------------------------------------------------------------ main
int main(int argc, char **argv)
{
    QCoreApplication app(argc, argv);
    Args a = parseArgs(argc, argv);
    const bool thorough = a.tier == "thorough";
    Rng rng(a.seed);
    World world;
    W = &world;

    if (a.mode == "hangprobe") {
        // used to validate fixes/C19-ibb-inactivity-timeout.diff with a shortened interval: lose a block, wait in real time
        Transfer t(2, 4096, true, QByteArray("hello"), DevSpec());
        t.start();
        t.apply("deliver"); t.apply("deliver"); t.apply("lose");
        spinUntil([&]() { return t.rj->state() == QXmppTransferJob::FinishedState && t.sj->state() == QXmppTransferJob::FinishedState; }, a.seed * 1000);
        printf("hangprobe R %s %s S %s %s\n", stateName(t.rj->state()), errName(t.rj->error()), stateName(t.sj->state()), errName(t.sj->error()));
        return 0;
    }
    if (a.mode == "ssend") {
        W->s.logger.setLoggingType(QXmppLogger::SignalLogging);
        QObject::connect(&W->s.logger, &QXmppLogger::message, [](QXmppLogger::MessageType t, const QString &text) { fprintf(stderr, "LOG %d %s\n", int(t), qPrintable(text.left(300))); });
        runSocksSend("proxy-honest", 5000, rng);
        finish();
        return 0;
    }
    if (a.mode == "probe") {
        Case c { 2, 4096, true, "hex", QByteArray("hello"), {} };
        runCase(c);
        finish();
        return 0;
    }

    const std::vector<std::string> faultOps = { "drop", "dup", "swap", "flip", "eclose", "wsid", "wsender",
                                                "wsender 2", "wsender 3", "wsender 4", "wsender 5" };
    std::vector<int> blockSizes = { 1, 2, 16 };
    if (thorough) blockSizes.push_back(4096);

    // ---- 0. corpus: minimized past findings first.
    // (a) 65537 blocks of size 1: before repo commit 49cbe2e (int counters against the 16-bit wire field) block 65536 was
    //     refused with <unexpected-request/>; it must now succeed (oracle key C19:ibb-seq-wrap otherwise).
    {
        Case big { 1, 4096, true, "pat", makeContent("pat", 65537, rng), {} };
        big.finishHonestly = false;
        big.ops = { "run 65535", "deliver", "deliver", "deliver", "deliver", "deliver", "deliver" };
        runCase(big);
        stat("wrap_cases");
    }
    // (a2) witnesses of findings fixed in the library, kept so that they stay fixed:
    //      a lost block with nothing following (72eab57: the inactivity timer ends both jobs with ProtocolError — the harness
    //      fires the jobs' QTimer children, see the `timeout` op), a short-writing device with hash but no size announced
    //      (675e9c1: FileAccessError), accept(filePath) read back inside finished() and /dev/full (38165f0: section 7)
    runCase({ 2, 4096, true, "hex", QByteArray("hello"), { "deliver", "deliver", "lose" } });
    runCase({ 2, 4096, true, "hex", QByteArray("hello"), { "deliver", "deliver", "wsender 2" } });
    {
        Case c { 2, 4096, true, "hex", QByteArray::fromHex("0102"), {} };
        c.announceSize = false; c.dev = DevSpec { DevSpec::PerWrite, 1 };
        runCase(c);
    }
    // (b) no hash announced, one bit flipped (recorded finding C19:nohash-altered-accepted) and its neighbours
    runCase({ 2, 4096, false, "hex", QByteArray::fromHex("b66071"), { "deliver", "flip 0" } });
    runCase({ 2, 4096, true, "hex", QByteArray::fromHex("b66071"), { "deliver", "flip 0" } });
    runCase({ 2, 4096, false, "hex", QByteArray::fromHex("b66071"), { "deliver", "swap" } });
    // ---- 1. honest runs + every single fault at every position, sizes around the block boundaries
    for (int b : blockSizes) {
        std::vector<long> sizes = { 0, 1, b - 1L, b, b + 1L, 3L * b + 2 };
        std::sort(sizes.begin(), sizes.end());
        sizes.erase(std::unique(sizes.begin(), sizes.end()), sizes.end());
        for (long n : sizes) {
            if (n < 0) continue;
            for (const char *kind : { "rnd", "zero", "ff" }) {
                if (b == 4096 && std::string(kind) != "rnd" && n > b) continue;
                QByteArray d = makeContent(kind, n, rng);
                for (int hash = 1; hash >= 0; hash--) {
                    runCase({ b, 4096, hash == 1, kind, d, {} });
                    const long blocks = (n + b - 1) / b;
                    const long positions = blocks + 2;  // open, each data block, close
                    if (hash == 0 && std::string(kind) != "rnd") continue;
                    for (long pos = 0; pos < positions; pos++) {
                        for (auto &f : faultOps) {
                            Case c { b, 4096, hash == 1, kind, d, {} };
                            for (long k = 0; k < pos; k++) c.ops.push_back("deliver");
                            c.ops.push_back(f == "flip" ? "flip " + std::to_string(rng.below(1 << 16)) : f);
                            runCase(c);
                            stat("single_fault_cases");
                        }
                    }
                }
            }
        }
    }
    // ---- 1b. exhaustive: every op sequence up to a depth over an 11-symbol alphabet on a 2-block file, then honest to the end
    {
        const std::vector<std::string> alpha = { "deliver", "drop", "dup", "swap", "flip 9", "eclose", "wsid", "wsender", "inj 0 0 data 1 ee",
                                                 "lose", "rinj 0 0 item-not-found" };
        const int depth = thorough ? 4 : 3;
        const QByteArray d = QByteArray::fromHex("a1b2c3");
        for (int hash = 1; hash >= 0; hash--) {
            std::vector<int> idx;
            std::function<void()> rec = [&]() {
                if (!idx.empty()) {
                    Case c { 2, 4096, hash == 1, "hex", d, {} };
                    for (int i : idx) c.ops.push_back(alpha[i]);
                    runCase(c);
                    stat("exhaustive_sequences");
                }
                if ((int)idx.size() == depth) return;
                for (int i = 0; i < (int)alpha.size(); i++) { idx.push_back(i); rec(); idx.pop_back(); }
            };
            rec();
        }
        stat("exhaustive_depth", depth);
        stat("exhaustive_alphabet", (long long)alpha.size());
    }
    // ---- 1c. receiver devices that take less than offered / run full / fail: honest channel and every single fault
    {
        auto devicesFor = [](long n) {
            std::vector<DevSpec> v;
            for (long k : { 1L, 7L, 1000L }) v.push_back({ DevSpec::PerWrite, k });
            for (long m : { 0L, 1L, n - 1, n, n + 5 }) if (m >= 0) v.push_back({ DevSpec::Full, m });
            for (long m : { 0L, n / 2, n - 1, n }) if (m >= 0) v.push_back({ DevSpec::Fail, m });
            return v;
        };
        for (int b : { 1, 2, 16 }) {
            for (long n : { 1L, long(b), b + 1L, 3L * b + 2 }) {
                QByteArray d = makeContent("rnd", n, rng);
                for (auto &dev : devicesFor(n)) {
                    for (int hash = 1; hash >= 0; hash--) {
                        Case c { b, 4096, hash == 1, "rnd", d, {} };
                        c.dev = dev;
                        runCase(c);
                        stat("device_cases");
                        const long blocks = (n + b - 1) / b;
                        if (b == 16 && n > 17) continue;
                        for (auto &f : faultOps) {
                            Case cf = c;
                            const long pos = 1 + rng.below(uint32_t(blocks));  // a data block
                            for (long k = 0; k < pos; k++) cf.ops.push_back("deliver");
                            cf.ops.push_back(f == "flip" ? "flip " + std::to_string(rng.below(1 << 16)) : f);
                            runCase(cf);
                            stat("device_cases");
                        }
                    }
                }
            }
        }
    }
    // ---- 1d. impersonation: at every position a stanza with the right session id (and, for data, the sequence number
    //          the receiver waits for) arrives from a JID that is not the offering full JID
    {
        for (int b : { 1, 2, 16 }) {
            for (long n : { 1L, long(b), b + 1L, 3L * b + 2 }) {
                QByteArray d = makeContent("rnd", n, rng);
                const long blocks = (n + b - 1) / b;
                for (int who = 1; who <= 5; who++) {
                    for (int hash = 1; hash >= 0; hash--) {
                        for (long pos = 0; pos <= blocks + 1; pos++) {       // before <open/>, before each block, before <close/>
                            for (const char *kind : { "data", "open", "close" }) {
                                Case c { b, 4096, hash == 1, "rnd", d, {} };
                                for (long k = 0; k < pos; k++) c.ops.push_back("deliver");
                                std::string inj = "inj " + std::to_string(who) + " 0 " + kind;
                                if (std::string(kind) == "data") {
                                    // the block the receiver expects next is block pos-1 (after <open/> and pos-1 blocks)
                                    const long blk = pos == 0 ? 0 : pos - 1;
                                    const long len = std::max<long>(1, std::min<long>(b, n - blk * b));
                                    QByteArray forged(int(len), '\0');
                                    for (long i = 0; i < len; i++) forged[int(i)] = char(~d[int(std::min<long>(n - 1, blk * b + i))]);
                                    inj += " " + std::to_string(blk % 65536) + " " + hex((const unsigned char *)forged.constData(), forged.size());
                                } else if (std::string(kind) == "open") inj += " " + std::to_string(b);
                                c.ops.push_back(inj);
                                runCase(c);
                                stat("impersonation_cases");
                            }
                        }
                    }
                }
            }
        }
    }
    // ---- 1e. offers without a size attribute (source of unknown length), with and without hash; lossy devices on top
    {
        std::vector<std::string> fo = faultOps; fo.push_back("lose");
        for (int b : { 1, 2, 16 }) {
            for (long n : { 1L, long(b), b + 1L, 3L * b + 2 }) {
                QByteArray d = makeContent("rnd", n, rng);
                const long blocks = (n + b - 1) / b;
                for (int hash = 1; hash >= 0; hash--) {
                    Case c { b, 4096, hash == 1, "rnd", d, {} };
                    c.announceSize = false;
                    runCase(c);
                    for (long pos = 0; pos < blocks + 2; pos++)
                        for (auto &f : fo) {
                            if (f.rfind("wsender ", 0) == 0) continue;
                            Case cf = c;
                            for (long k = 0; k < pos; k++) cf.ops.push_back("deliver");
                            cf.ops.push_back(f == "flip" ? "flip " + std::to_string(rng.below(1 << 16)) : f);
                            runCase(cf);
                            stat("nosize_cases");
                        }
                    for (DevSpec dev : { DevSpec { DevSpec::PerWrite, 1 }, DevSpec { DevSpec::Full, n - 1 }, DevSpec { DevSpec::Fail, n - 1 }, DevSpec { DevSpec::Full, n } }) {
                        Case cd = c; cd.dev = dev; runCase(cd); stat("nosize_cases");
                    }
                }
            }
        }
    }
    // ---- 1f. a block (or the answer to it) is lost and nothing follows; the same with the stream then closed
    for (int b : { 1, 2, 16 }) {
        for (long n : { 1L, b + 1L, 3L * b + 2 }) {
            QByteArray d = makeContent("rnd", n, rng);
            const long blocks = (n + b - 1) / b;
            for (int hash = 1; hash >= 0; hash--)
                for (long pos = 1; pos <= blocks; pos++) {
                    Case c { b, 4096, hash == 1, "rnd", d, {} };
                    for (long k = 0; k < pos; k++) c.ops.push_back("deliver");
                    c.ops.push_back("lose");
                    runCase(c);
                    c.ops.push_back("eclose");
                    runCase(c);
                    stat("lost_cases", 2);
                }
        }
    }
    // ---- 1g. sending side: responses that are errors, stale, duplicated or from somebody else; the peer closes first
    {
        const std::vector<std::string> sops = { "rinj 0 0 item-not-found", "rinj 0 0 unexpected-request", "rinj 0 1 ok", "rinj 0 1 item-not-found",
                                                "rinj 2 0 ok", "rinj 1 0 item-not-found", "rinj 3 0 ok", "rinj 0 0 ok", "rinj 0 7 ok", "pclose" };
        for (int b : { 1, 2, 16 }) {
            for (long n : { 0L, 1L, b + 1L, 3L * b + 2 }) {
                QByteArray d = makeContent("rnd", n, rng);
                const long blocks = (n + b - 1) / b;
                for (long pos = 0; pos < blocks + 2; pos++)
                    for (auto &so : sops) {
                        Case c { b, 4096, true, "rnd", d, {} };
                        for (long k = 0; k < pos; k++) c.ops.push_back("deliver");
                        c.ops.push_back(so);
                        runCase(c);
                        stat("sender_side_cases");
                    }
            }
        }
    }
    // ---- 1h. the text of a <data/> element: base64 broken up by white space (honest), and forged elements whose text has
    //          invalid characters, misplaced padding, a truncated quantum (QByteArray::fromBase64 skips what it does not know)
    {
        for (int b : { 2, 16 }) {
            QByteArray d = makeContent("rnd", 3L * b + 2, rng);
            for (int hash = 1; hash >= 0; hash--) {
                Case c { b, 4096, hash == 1, "rnd", d, {} };
                c.finishHonestly = false;
                for (int k = 0; k < 6; k++) c.ops.push_back("deliverws");
                runCase(c);
                const QByteArray b0 = d.left(b).toBase64();
                std::vector<QByteArray> texts = { b0, " " + b0 + "\n", b0.left(2) + "!*#" + b0.mid(2), b0.left(b0.size() - 1), "=" + b0, b0 + b0,
                                                  QByteArray("===="), QByteArray("A"), QByteArray("not base64 at all") };
                for (auto &tx : texts) {
                    Case cr { b, 4096, hash == 1, "rnd", d, { "deliver", "inj 0 0 rawdata 0 " + hex((const unsigned char *)tx.constData(), tx.size()) } };
                    runCase(cr);
                    stat("base64_text_cases");
                }
                // a block larger than the negotiated block size (the code does not check)
                Case big { b, 4096, hash == 1, "rnd", d, { "deliver", "inj 0 0 data 0 " + hex((const unsigned char *)d.constData(), 2 * b + 1) } };
                runCase(big);
            }
        }
    }
    // ---- 2. block-size negotiation: the receiver refuses a larger block size than its own
    for (auto [bS, bR] : std::vector<std::pair<int, int>> { { 16, 8 }, { 8, 8 }, { 4096, 4095 }, { 1, 1 }, { 0, 16 } }) {
        runCase({ bS, bR, true, "rnd", makeContent("rnd", 20, rng), {} });
        stat("negotiation_cases");
    }
    // ---- 3. seeded random op sequences over the whole alphabet (several faults, foreign/forged stanzas)
    const int nrand = thorough ? 40000 : 2500;
    for (int i = 0; i < nrand; i++) {
        const int b = std::vector<int> { 1, 2, 3, 5, 16 }[rng.below(5)];
        const long n = rng.below(4 * b + 3);
        const char *kind = rng.below(4) == 0 ? "zero" : "rnd";
        Case c { b, rng.below(8) == 0 ? b : 4096, rng.below(5) != 0, kind, makeContent(kind, n, rng), {} };
        if (rng.below(4) == 0) {
            const uint32_t k = rng.below(3);
            if (k == 0) c.dev = { DevSpec::PerWrite, long(1 + rng.below(6)) };
            else if (k == 1) c.dev = { DevSpec::Full, long(rng.below(uint32_t(n + 3))) };
            else c.dev = { DevSpec::Fail, long(rng.below(uint32_t(n + 3))) };
        }
        if (rng.below(6) == 0) c.announceSize = false;
        const int len = 1 + rng.below(thorough ? 14 : 9);
        for (int j = 0; j < len; j++) {
            const uint32_t r = rng.below(100);
            std::string op;
            if (r < 45) op = "deliver";
            else if (r < 52) op = "drop";
            else if (r < 59) op = "dup";
            else if (r < 66) op = "swap";
            else if (r < 73) op = "flip " + std::to_string(rng.below(1 << 12));
            else if (r < 78) op = "eclose";
            else if (r < 83) op = "wsid";
            else if (r < 86) op = "wsender " + std::to_string(1 + rng.below(5));
            else if (r < 88) op = "lose";
            else if (r < 91) op = "rinj " + std::to_string(rng.below(3)) + " " + std::to_string(rng.below(3)) + (rng.below(2) ? " ok" : " item-not-found");
            else if (r < 92) op = "pclose";
            else if (r < 93) op = "deliverws";
            else {
                // injected stanza: mostly from a third party or for another session, sometimes a forgery in the sender's name
                const int sender = rng.below(4) == 0 ? 0 : 1 + int(rng.below(5)), sid = rng.below(3) == 0 ? 1 : 0;
                const uint32_t k = rng.below(10);
                if (k < 6) op = "inj " + std::to_string(sender) + " " + std::to_string(sid) + " data " + std::to_string(rng.below(5)) + " " + rndHex(rng, rng.below(4));
                else if (k < 8) op = "inj " + std::to_string(sender) + " " + std::to_string(sid) + " open " + std::to_string(rng.below(2) ? b : 5000);
                else op = "inj " + std::to_string(sender) + " " + std::to_string(sid) + " close";
            }
            c.ops.push_back(op);
        }
        if (i < 4) { std::string s; for (auto &o : c.ops) s += o + "; "; sample("ibb b=" + std::to_string(b) + " size=" + std::to_string(n) + " :: " + s); }
        runCase(c);
    }
    stat("random_sequences", nrand);
    // ---- 4. around and beyond 65536 blocks: the 16-bit sequence numbers of both jobs wrap together
    {
        Case edge { 1, 4096, true, "pat", makeContent("pat", 65536, rng), {} };  // exactly 65536 blocks
        runCase(edge);
        // a duplicate right after the wrap is still refused; a lost block right at the wrap is still detected
        Case dupAtWrap { 1, 4096, true, "pat", makeContent("pat", 65540, rng), { "run 65537", "dup" } };
        runCase(dupAtWrap);
        Case dropAtWrap { 1, 4096, true, "pat", makeContent("pat", 65540, rng), { "run 65537", "drop" } };
        runCase(dropAtWrap);
        stat("wrap_cases", 3);
        if (thorough) {
            Case big2 { 2, 4096, true, "pat", makeContent("pat", 2 * 65536 + 1, rng), {} };
            runCase(big2);
            Case big3 { 1, 4096, false, "zero", makeContent("zero", 70000, rng), {} };
            runCase(big3);
            Case big4 { 1, 4096, false, "pat", makeContent("pat", 2 * 65536 + 3, rng), {} };  // wraps twice
            runCase(big4);
            stat("wrap_cases", 3);
        }
    }
    stat("ibb_ops", totalOps);

    // ---- 5. SOCKS5 receive path on 127.0.0.1
    {
        std::vector<long> sizes = { 1, 5, 64, 1000 };
        if (thorough) { sizes.push_back(20000); sizes.push_back(70000); }
        for (long n : sizes) {
            QByteArray d = makeContent("rnd", n, rng);
            for (int hash = 1; hash >= 0; hash--) {
                // honest, in one and in several chunks
                runSocks(d, hash, true, { d }, false, "honest");
                if (n >= 2) runSocks(d, hash, true, { d.left(int(n / 2)), d.mid(int(n / 2)) }, false, "honest-2chunks");
                // truncated: the peer disconnects early
                runSocks(d, hash, true, { d.left(int(n - 1)) }, true, "truncated");
                // altered: one bit flipped, same length
                QByteArray x = d; const long bit = rng.below(uint32_t(8 * n)); x[int(bit / 8)] = char(x[int(bit / 8)] ^ (1 << (bit % 8)));
                if (hash) runSocks(d, true, true, { x }, true, "altered");
                // too long: in one read (small sizes only: a large write may be split by TCP, and the code then finishes
                // successfully after the first `size` bytes — which are the right ones) and as a separate trailing read
                if (n <= 64) runSocks(d, hash, true, { d + QByteArray("Z") }, true, "overlong");
                runSocks(d, hash, true, { d, QByteArray("Z") }, false, "trailing-bytes-after-complete-file");
            }
        }
        // receiver devices on the SOCKS5 path (small sizes: one read per chunk on loopback)
        for (long n : { 5L, 64L }) {
            QByteArray d = makeContent("rnd", n, rng);
            for (DevSpec dev : { DevSpec { DevSpec::PerWrite, 1 }, DevSpec { DevSpec::PerWrite, 7 }, DevSpec { DevSpec::PerWrite, 1000 },
                                 DevSpec { DevSpec::Full, n - 1 }, DevSpec { DevSpec::Full, n }, DevSpec { DevSpec::Fail, n - 1 }, DevSpec { DevSpec::Fail, n } }) {
                for (int hash = 1; hash >= 0; hash--) {
                    runSocks(d, hash, true, { d }, false, "device-honest", dev);
                    runSocks(d, hash, true, { d.left(int(n / 2)), d.mid(int(n / 2)) }, false, "device-honest-2chunks", dev);
                    stat("socks_device_runs", 2);
                }
            }
        }
        // ---- 6. SOCKS5 sending side (real outgoing job; harness = receiving peer and proxy)
        runSocksSend("direct-honest", 5000, rng);
        runSocksSend("direct-not-connected", 5000, rng);
        runSocksSend("unknown-host-used", 5000, rng);
        runSocksSend("direct-early-close", 64L * 1024 * 1024, rng);
        runSocksSend("proxy-honest", 5000, rng);
        runSocksSend("proxy-activation-refused", 5000, rng);
        if (thorough) { runSocksSend("direct-honest", 3000000, rng); runSocksSend("proxy-honest", 300000, rng); }
        // ---- 7. accept(filePath): the library opens (and should close) the file
        {
            QDir().mkpath(QStringLiteral("/verif/.build/scratch_c19"));
            const QString path = QStringLiteral("/verif/.build/scratch_c19/accept_path_%1.bin").arg(QCoreApplication::applicationPid());
            for (long n : { 0L, 1L, 5000L, 16384L, 20000L, 70000L }) runAcceptPath(makeContent("rnd", n, rng), path, "file");
            // the destination already exists: none / empty / shorter / same length, other content / longer (in-band and SOCKS5)
            for (int b : { 16, 4096 })
                for (long n : { 0L, 1L, 40L, 5000L }) {
                    if (b == 16 && n > 100) continue;
                    QByteArray d = makeContent("rnd", n, rng);
                    QByteArray same = makeContent("rnd", n, rng);
                    std::vector<QByteArray> prevs = { QByteArray(), QByteArray(""), makeContent("rnd", n / 2, rng), same,
                                                      makeContent("rnd", n + 1, rng), makeContent("rnd", 2 * n + 3000, rng) };
                    for (auto &pv : prevs) {
                        if (pv.size() > 4096 && b == 16) continue;
                        runAcceptPath(d, path, "file", pv, b);
                        stat("accept_path_previous_file_runs");
                    }
                }
            for (long n : { 1L, 40L, 5000L }) {
                QByteArray d = makeContent("rnd", n, rng);
                for (const QByteArray &pv : { QByteArray(), makeContent("rnd", n / 2, rng), makeContent("rnd", n, rng), makeContent("rnd", 3 * n + 7, rng) }) {
                    QFile::remove(path);
                    if (!pv.isNull()) { QFile f(path); if (f.open(QIODevice::WriteOnly)) { f.write(pv); f.close(); } }
                    g_socksPath = path;
                    runSocks(d, true, true, { d.left(int(n / 2)), d.mid(int(n / 2)) }, false,
                             "socks accept-path size=" + std::to_string(n) + (pv.isNull() ? std::string(" no-previous-file") : " previous-file=" + std::to_string(pv.size()) + "bytes"));
                    g_socksPath.clear();
                }
            }
            QFile::remove(path);
            if (QFile::exists(QStringLiteral("/dev/full"))) for (long n : { 1L, 5000L, 70000L }) runAcceptPath(makeContent("rnd", n, rng), QStringLiteral("/dev/full"), "full");
            runAcceptPath(makeContent("rnd", 100, rng), QStringLiteral("/verif/.build/scratch_c19/no-such-dir/x.bin"), "unwritable");
        }
        if (!socksAvailable) sample("SOCKS5: loopback TCP not available in this environment, path not exercised");
    }
    finish();
    return 0;
}
